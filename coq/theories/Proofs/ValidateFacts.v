(** C07 - reflection lemmas between the boolean functions of Model/Validate.v and the
    declarative predicates of Model/ValidateSpec.v (strings with a grammar, reading a
    document).  The clause-by-clause equivalence is in Proofs/ValidateSound.v. *)
From Rocfl Require Import Base.Bytes Model.Json Model.JsonValue Model.Validate Model.ValidateSpec Proofs.BytesFacts.
From Coq Require Import ZArith Lia ZifyBool ZifyN ZifyNat.
Ltac Zify.zify_post_hook ::= Z.div_mod_to_equations.
Open Scope N_scope.

Ltac all_bytes c := destruct c as [[] [] [] [] [] [] [] []].

(** * booleans *)
Lemma eq_true_iff (x y : bool) : (x = true <-> y = true) -> x = y.
Proof. destruct x, y; intros [H1 H2]; try reflexivity; [symmetry; apply H1; reflexivity | apply H2; reflexivity]. Qed.

Lemma negb_true (x : bool) : negb x = true <-> x <> true.
Proof. destruct x; split; intros H; try reflexivity; try discriminate; congruence. Qed.

Lemma ascii_eqb_eq (x y : ascii) : Ascii.eqb x y = true <-> x = y.
Proof. apply Ascii.eqb_eq. Qed.

Lemma code_inj (x y : ascii) : code x = code y -> x = y.
Proof. unfold code. intros H. rewrite <- (ascii_N_embedding x), <- (ascii_N_embedding y). now rewrite H. Qed.

Lemma code_eqb (x : ascii) (n : N) : n < 256 -> (code x =? n) = Ascii.eqb x (ascii_of_N n).
Proof.
  intros Hn. apply eq_true_iff. rewrite N.eqb_eq, Ascii.eqb_eq. split.
  - intros H. apply code_inj. rewrite H. unfold code. now rewrite N_ascii_embedding.
  - intros ->. unfold code. now rewrite N_ascii_embedding.
Qed.

(** * membership and duplicates *)
Lemma mem_b_In x l : mem_b x l = true <-> In x l.
Proof.
  unfold mem_b. rewrite existsb_exists. split.
  - intros (y & Hy & E). apply bytes_eqb_eq in E. now subst.
  - intros H. exists x. split; [assumption | apply bytes_eqb_refl].
Qed.

Lemma nodup_b_NoDup l : nodup_b l = true <-> NoDup l.
Proof.
  induction l as [|x l IH]; cbn [nodup_b].
  - split; [constructor | reflexivity].
  - rewrite andb_true_iff, negb_true, IH. split.
    + intros [H1 H2]. constructor; [rewrite <- mem_b_In; assumption | assumption].
    + intros H. inversion H; subst. split; [rewrite mem_b_In; assumption | assumption].
Qed.

Lemma memN_b_In x l : memN_b x l = true <-> In x l.
Proof.
  unfold memN_b. rewrite existsb_exists. split.
  - intros (y & Hy & E). apply N.eqb_eq in E. now subst.
  - intros H. exists x. split; [assumption | apply N.eqb_refl].
Qed.

Lemma nodupN_b_NoDup l : nodupN_b l = true <-> NoDup l.
Proof.
  induction l as [|x l IH]; cbn [nodupN_b].
  - split; [constructor | reflexivity].
  - rewrite andb_true_iff, negb_true, IH. split.
    + intros [H1 H2]. constructor; [rewrite <- memN_b_In; assumption | assumption].
    + intros H. inversion H; subst. split; [rewrite memN_b_In; assumption | assumption].
Qed.

Lemma forallb_Forall {A} (f : A -> bool) (P : A -> Prop) l :
  (forall x, f x = true <-> P x) -> (forallb f l = true <-> Forall P l).
Proof.
  intros H. rewrite forallb_forall, Forall_forall. split; intros G x Hx; apply H, G, Hx.
Qed.

Lemma NoDup_map_inj {A B} (f : A -> B) l :
  NoDup l -> (forall x y, In x l -> In y l -> f x = f y -> x = y) -> NoDup (map f l).
Proof.
  induction 1 as [|x l Hx Hl IH]; intros Hinj; cbn; constructor.
  - intros Hin. apply in_map_iff in Hin as (y & E & Hy).
    assert (y = x) by (apply Hinj; [right; assumption | left; reflexivity | assumption]). subst. contradiction.
  - apply IH. intros a c Ha Hc. apply Hinj; right; assumption.
Qed.

Lemma NoDup_map_In_inj {A B} (f : A -> B) l x y :
  NoDup (map f l) -> In x l -> In y l -> f x = f y -> x = y.
Proof.
  induction l as [|a l IH]; cbn; intros Hnd Hx Hy E; [contradiction|].
  inversion Hnd as [|? ? Hna Hnd']; subst.
  destruct Hx as [-> | Hx], Hy as [-> | Hy]; try reflexivity.
  - exfalso. apply Hna. rewrite E. apply in_map. assumption.
  - exfalso. apply Hna. rewrite <- E. apply in_map. assumption.
  - apply IH; assumption.
Qed.

(** * prefixes *)
Lemma starts_with_iff p q : starts_with p q = true <-> exists r, q = p ++ r.
Proof.
  revert q. induction p as [|c p IH]; intros q; cbn [starts_with].
  - split; [intros _; exists q; reflexivity | reflexivity].
  - destruct q as [|d q].
    + split; [discriminate | intros (r & H); discriminate].
    + rewrite andb_true_iff, Ascii.eqb_eq, IH. split.
      * intros (-> & r & ->). exists r. reflexivity.
      * intros (r & H). injection H as -> ->. split; [reflexivity | exists r; reflexivity].
Qed.

Lemma prefix_free_iff l :
  prefix_free l = true <-> forall p q, In p l -> In q l -> ~ PrefixOf p q.
Proof.
  unfold prefix_free. rewrite forallb_forall. split.
  - intros H p q Hp Hq (r & E). specialize (H p Hp). rewrite forallb_forall in H. specialize (H q Hq).
    apply negb_true in H. apply H. apply starts_with_iff. exists r. rewrite <- app_assoc. exact E.
  - intros H p Hp. apply forallb_forall. intros q Hq. apply negb_true. intros S.
    apply starts_with_iff in S as (r & E). apply (H p q Hp Hq). exists r. rewrite <- app_assoc in E. exact E.
Qed.

(** * paths *)
Lemma split_on_nonempty sep s : split_on sep s <> [].
Proof.
  induction s as [|c s IH]; cbn [split_on]; [discriminate|].
  destruct (Ascii.eqb c sep); [discriminate|]. destruct (split_on sep s); discriminate.
Qed.

Lemma join_split s : join_slash (split_on "/"%char s) = s.
Proof.
  induction s as [|c s IH]; [reflexivity|]. cbn [split_on].
  destruct (Ascii.eqb c "/"%char) eqn:E.
  - apply Ascii.eqb_eq in E. subst c.
    pose proof (split_on_nonempty "/"%char s) as Hne.
    destruct (split_on "/"%char s) as [|h t] eqn:Es; [contradiction|].
    cbn [join_slash app]. cbn [join_slash] in IH. rewrite IH. reflexivity.
  - pose proof (split_on_nonempty "/"%char s) as Hne.
    destruct (split_on "/"%char s) as [|h t] eqn:Es; [contradiction|].
    destruct t as [|h2 t]; cbn [join_slash app] in *; rewrite IH; reflexivity.
Qed.

Lemma split_no_sep s : forall seg, In seg (split_on "/"%char s) -> ~ In "/"%char seg.
Proof.
  induction s as [|c s IH]; cbn [split_on]; intros seg Hin.
  - destruct Hin as [<- | []]. intros [].
  - destruct (Ascii.eqb c "/"%char) eqn:E.
    + destruct Hin as [<- | Hin]; [intros [] | apply IH; assumption].
    + pose proof (split_on_nonempty "/"%char s) as Hne.
      destruct (split_on "/"%char s) as [|h t] eqn:Es; [contradiction|].
      destruct Hin as [<- | Hin].
      * intros [Hc | Hh]; [subst c; discriminate E | apply (IH h); [left; reflexivity | assumption]].
      * apply IH. right. assumption.
Qed.

Lemma split_on_seg seg : ~ In "/"%char seg -> split_on "/"%char seg = [seg].
Proof.
  induction seg as [|c seg IH]; intros H; [reflexivity|]. cbn [split_on].
  destruct (Ascii.eqb c "/"%char) eqn:E.
  - apply Ascii.eqb_eq in E. exfalso. apply H. left. assumption.
  - rewrite IH; [reflexivity | intros Hin; apply H; right; assumption].
Qed.

Lemma split_on_app_sep seg rest :
  ~ In "/"%char seg -> split_on "/"%char (seg ++ "/"%char :: rest) = seg :: split_on "/"%char rest.
Proof.
  induction seg as [|c seg IH]; intros H.
  - reflexivity.
  - cbn [app split_on]. destruct (Ascii.eqb c "/"%char) eqn:E.
    + apply Ascii.eqb_eq in E. exfalso. apply H. left. assumption.
    + rewrite IH; [reflexivity | intros Hin; apply H; right; assumption].
Qed.

Lemma split_join segs :
  segs <> [] -> (forall s, In s segs -> ~ In "/"%char s) -> split_on "/"%char (join_slash segs) = segs.
Proof.
  induction segs as [|s segs IH]; intros Hne Hs; [contradiction|].
  destruct segs as [|s2 segs].
  - cbn [join_slash]. apply split_on_seg. apply Hs. left. reflexivity.
  - change (join_slash (s :: s2 :: segs)) with (s ++ "/"%char :: join_slash (s2 :: segs)).
    rewrite split_on_app_sep by (apply Hs; left; reflexivity).
    rewrite IH; [reflexivity | discriminate | intros x Hx; apply Hs; right; assumption].
Qed.

Lemma is_empty_iff (s : bytes) : is_empty s = true <-> s = [].
Proof. destruct s; cbn; split; congruence. Qed.

Lemma seg_bad_iff s : seg_bad s = true <-> (s = [] \/ s = b "." \/ s = b "..").
Proof. unfold seg_bad. rewrite !orb_true_iff, !bytes_eqb_eq, is_empty_iff. tauto. Qed.

Lemma path_ok_iff p : path_ok p = true <-> PathOK p.
Proof.
  unfold path_ok, PathOK. rewrite negb_true. split.
  - intros H. exists (split_on "/"%char p). split; [apply split_on_nonempty|]. split; [symmetry; apply join_split|].
    intros s Hs. assert (Hb : seg_bad s <> true).
    { intros Hb. apply H. apply existsb_exists. exists s. split; assumption. }
    rewrite seg_bad_iff in Hb. repeat split; try (intros E; apply Hb; tauto). apply (split_no_sep p); assumption.
  - intros (segs & Hne & -> & Hs) Hex. apply existsb_exists in Hex as (s & Hin & Hb).
    rewrite split_join in Hin by (assumption || (intros x Hx; apply (Hs x Hx))).
    apply seg_bad_iff in Hb. destruct (Hs s Hin) as (H1 & _ & H2 & H3). tauto.
Qed.

Lemma existsb_slash s : existsb (fun c => Ascii.eqb c "/"%char) s = true <-> In "/"%char s.
Proof.
  rewrite existsb_exists. split.
  - intros (c & Hc & E). apply Ascii.eqb_eq in E. now subst.
  - intros H. exists "/"%char. split; [assumption | reflexivity].
Qed.

Lemma cdir_ok_iff s : cdir_ok s = true <-> DirectChildName s.
Proof.
  unfold cdir_ok, DirectChildName. rewrite !andb_true_iff, !negb_true, is_empty_iff, existsb_slash, !bytes_eqb_eq. tauto.
Qed.

(** * digits, version names *)
Lemma is_digit_iff c : is_digit c = true <-> Digit c.
Proof. unfold is_digit, Digit. lia. Qed.

Lemma is_hex_iff c : is_hex c = true <-> HexChar c.
Proof. unfold is_hex, HexChar. lia. Qed.

Lemma vname_num_iff k n : vname_num k = Some n <-> VersionNumber k n.
Proof.
  unfold vname_num, VersionNumber. destruct k as [|c ds].
  - split; [discriminate | intros (ds & H & _); discriminate].
  - destruct (Ascii.eqb c "v"%char) eqn:Ec; cbn [andb].
    + apply Ascii.eqb_eq in Ec. subst c.
      destruct (is_empty ds) eqn:Ee; cbn [negb andb].
      * apply is_empty_iff in Ee. subst ds. split; [discriminate | intros (ds & H & Hne & _); injection H as <-; contradiction].
      * destruct (forallb is_digit ds) eqn:Ed.
        -- split.
           ++ intros H. exists ds. repeat split; try assumption.
              ** intros ->. discriminate Ee.
              ** apply (forallb_Forall is_digit Digit); [apply is_digit_iff | assumption].
           ++ intros (ds' & H & _ & _ & Hv). injection H as <-. assumption.
        -- split; [discriminate|]. intros (ds' & H & _ & Hd & _). injection H as <-.
           apply (forallb_Forall is_digit Digit) in Hd; [congruence | apply is_digit_iff].
    + split; [discriminate|]. intros (ds' & H & _). injection H as -> _. discriminate Ec.
Qed.

Lemma VersionNumber_fun k n m : VersionNumber k n -> VersionNumber k m -> n = m.
Proof. rewrite <- !vname_num_iff. congruence. Qed.

Lemma vnum0_of k n : VersionNumber k n -> vnum0 k = n.
Proof. intros H. apply vname_num_iff in H. unfold vnum0. now rewrite H. Qed.

Lemma vname_ok_iff k : vname_ok k = true <-> exists n, VersionNumber k n /\ 1 <= n.
Proof.
  unfold vname_ok. destruct (vname_num k) as [n|] eqn:E.
  - apply vname_num_iff in E. split.
    + intros H. exists n. split; [assumption | lia].
    + intros (m & Hm & H1). rewrite (VersionNumber_fun _ _ _ E Hm). lia.
  - split; [discriminate|]. intros (m & Hm & _). apply vname_num_iff in Hm. congruence.
Qed.

Lemma v_padded_iff k : v_padded k = true <-> ZeroPadded k.
Proof.
  unfold v_padded, ZeroPadded. destruct k as [|c [|d r]].
  - split; [discriminate | intros (r & H); discriminate].
  - split; [discriminate | intros (r & H); discriminate].
  - rewrite andb_true_iff, !Ascii.eqb_eq. split.
    + intros [-> ->]. exists r. reflexivity.
    + intros (r' & H). injection H as -> -> _. split; reflexivity.
Qed.

(** * digests *)
Lemma hex_of_len_iff n d : hex_of_len n d = true <-> HexDigest n d.
Proof.
  unfold hex_of_len, HexDigest. rewrite andb_true_iff, N.eqb_eq, (forallb_Forall is_hex HexChar) by apply is_hex_iff. tauto.
Qed.

Lemma digest_len_iff a n : digest_len a = Some n <-> AlgLength a n.
Proof.
  unfold digest_len. split.
  - destruct (bytes_eqb a (b "sha512")) eqn:E1.
    { apply bytes_eqb_eq in E1. subst. intros H. injection H as <-. constructor. }
    destruct (bytes_eqb a (b "sha256")) eqn:E2.
    { apply bytes_eqb_eq in E2. subst. intros H. injection H as <-. constructor. }
    destruct (bytes_eqb a (b "md5")) eqn:E3.
    { apply bytes_eqb_eq in E3. subst. intros H. injection H as <-. constructor. }
    destruct (bytes_eqb a (b "sha1")) eqn:E4.
    { apply bytes_eqb_eq in E4. subst. intros H. injection H as <-. constructor. }
    destruct (bytes_eqb a (b "blake2b-512")) eqn:E5.
    { apply bytes_eqb_eq in E5. subst. intros H. injection H as <-. constructor. }
    discriminate.
  - intros H. destruct H; reflexivity.
Qed.

Lemma digest_ok_iff a d : digest_ok a d = true <-> DigestFor a d.
Proof.
  unfold digest_ok, DigestFor. destruct (digest_len a) as [n|] eqn:E.
  - rewrite hex_of_len_iff. split.
    + intros H m Hm. apply digest_len_iff in Hm. congruence.
    + intros H. apply H. apply digest_len_iff. assumption.
  - split; [|reflexivity]. intros _ n Hn. apply digest_len_iff in Hn. congruence.
Qed.

Lemma content_alg_iff a : content_alg a = true <-> (a = b "sha512" \/ a = b "sha256").
Proof. unfold content_alg. rewrite orb_true_iff, !bytes_eqb_eq. tauto. Qed.

(** * reading a document *)
Lemma In_vals v k m : In v (vals k m) <-> In (k, v) m.
Proof.
  unfold vals. rewrite in_map_iff. split.
  - intros ([k' v'] & E & Hin). cbn in E. subst v'. apply filter_In in Hin as [Hin Hk]. cbn in Hk.
    apply bytes_eqb_eq in Hk. now subst.
  - intros H. exists (k, v). split; [reflexivity|]. apply filter_In. split; [assumption | cbn; apply bytes_eqb_refl].
Qed.

Lemma In_omem j k v : In (k, v) (omem j) <-> Has j k v.
Proof.
  unfold Has. destruct j as [| | | | |m]; cbn [omem]; split;
    try (intros H; contradiction H); try (intros (m' & H & _); discriminate H).
  - intros H. exists m. split; [reflexivity | assumption].
  - intros (m' & H & Hin). injection H as <-. assumption.
Qed.

Lemma In_tvals j k v : In v (tvals k j) <-> Has j k v.
Proof. unfold tvals. rewrite In_vals. apply In_omem. Qed.

Lemma is_obj_iff j : is_obj j = true <-> IsObj j.
Proof. unfold IsObj. destruct j; cbn; split; try discriminate; try (intros (m' & H); discriminate); eauto. Qed.

Lemma is_str_iff j : is_str j = true <-> IsStr j.
Proof. unfold IsStr. destruct j; cbn; split; try discriminate; try (intros (m' & H); discriminate); eauto. Qed.

Lemma nodup_keys_iff j : nodup_b (keys (omem j)) = true <-> UniqueKeys j.
Proof.
  rewrite nodup_b_NoDup. unfold UniqueKeys, keys. destruct j; cbn [omem map]; split; intros H;
    try (intros m' E; discriminate E); try constructor.
  - intros m' E. injection E as <-. assumption.
  - apply H. reflexivity.
Qed.

Lemma keys_among_iff j allowed :
  forallb (fun k => mem_b k allowed) (keys (omem j)) = true <-> KeysAmong j allowed.
Proof.
  rewrite forallb_forall. unfold KeysAmong, keys. split.
  - intros H k v Hkv. apply mem_b_In. apply H. apply In_omem in Hkv. apply in_map_iff. exists (k, v). split; [reflexivity | assumption].
  - intros H k Hk. apply in_map_iff in Hk as ([k' v] & E & Hin). cbn in E. subst k'. apply mem_b_In. apply (H k v). apply In_omem. assumption.
Qed.

Lemma In_flat_omem l k v : In (k, v) (flat_map omem l) <-> exists x, In x l /\ Has x k v.
Proof. rewrite in_flat_map. split; intros (x & Hx & H); exists x; (split; [assumption|]); apply In_omem; assumption. Qed.

Lemma Man_iff j d v : In (d, v) (manifest_m j) <-> Man j d v.
Proof. unfold manifest_m, Man. rewrite In_flat_omem. split; intros (x & Hx & H); exists x; (split; [|assumption]); apply In_tvals; assumption. Qed.

Lemma Ver_iff j k vb : In (k, vb) (versions_m j) <-> Ver j k vb.
Proof. unfold versions_m, Ver. rewrite In_flat_omem. split; intros (x & Hx & H); exists x; (split; [|assumption]); apply In_tvals; assumption. Qed.

Lemma Fix_iff j a blk : In (a, blk) (fixity_m j) <-> Fix j a blk.
Proof. unfold fixity_m, Fix. rewrite In_flat_omem. split; intros (x & Hx & H); exists x; (split; [|assumption]); apply In_tvals; assumption. Qed.

Lemma In_state_m vb d v : In (d, v) (state_m vb) <-> exists st, Has vb K_state st /\ Has st d v.
Proof.
  unfold state_m. rewrite In_flat_omem. split; intros (x & Hx & H); exists x; (split; [|assumption]).
  - apply In_omem. apply In_vals. assumption.
  - apply In_vals. apply In_omem. assumption.
Qed.

Lemma In_vblocks j vb : In vb (vblocks j) <-> exists k, Ver j k vb.
Proof.
  unfold vblocks. rewrite in_map_iff. split.
  - intros ([k vb'] & E & Hin). cbn in E. subst vb'. exists k. apply Ver_iff. assumption.
  - intros (k & H). exists (k, vb). split; [reflexivity | apply Ver_iff; assumption].
Qed.

Lemma In_keys {A} (m : list (bytes * A)) k : In k (keys m) <-> exists v, In (k, v) m.
Proof.
  unfold keys. rewrite in_map_iff. split.
  - intros ([k' v] & E & Hin). cbn in E. subst k'. exists v. assumption.
  - intros (v & H). exists (k, v). split; [reflexivity | assumption].
Qed.

(** a key that occurs once has one value *)
Lemma vals_single k v m : NoDup (keys m) -> In (k, v) m -> vals k m = [v].
Proof.
  unfold vals, keys. induction m as [|[k' v'] m IH]; intros Hnd Hin; [contradiction|].
  cbn [map fst] in Hnd. inversion Hnd as [|? ? Hni Hnd']; subst.
  cbn [filter fst]. destruct Hin as [E | Hin].
  - injection E as -> ->. rewrite bytes_eqb_refl. cbn [map snd]. f_equal.
    assert (Hnone : forall m0, ~ In k (map fst m0) -> map snd (filter (fun kv : bytes * jv => bytes_eqb (fst kv) k) m0) = []).
    { induction m0 as [|[k2 v2] m0 IH0]; intros Hk; [reflexivity|]. cbn [filter fst].
      destruct (bytes_eqb k2 k) eqn:E2.
      - apply bytes_eqb_eq in E2. subst. exfalso. apply Hk. left. reflexivity.
      - apply IH0. intros Hin. apply Hk. right. assumption. }
    apply Hnone. assumption.
  - destruct (bytes_eqb k' k) eqn:E2.
    + apply bytes_eqb_eq in E2. subst. exfalso. apply Hni. apply in_map_iff. exists (k, v). split; [reflexivity | assumption].
    + apply IH; assumption.
Qed.

Lemma Has_fun j k v v' : UniqueKeys j -> Has j k v -> Has j k v' -> v = v'.
Proof.
  intros Hu (m & -> & H1) (m' & E & H2). injection E as <-. specialize (Hu m eq_refl).
  pose proof (vals_single k v m Hu H1) as E1. pose proof (vals_single k v' m Hu H2) as E2. congruence.
Qed.

(** ** arrays of strings *)
Lemma str_array_strs v l : StrArray v l -> strs v = l /\ str_array_ok v = true.
Proof.
  unfold StrArray. intros ->. unfold strs, str_array_ok. cbn [aelems]. split.
  - induction l as [|s l IH]; [reflexivity|]. cbn [map flat_map app]. now rewrite IH.
  - induction l as [|s l IH]; [reflexivity|]. cbn [map forallb is_str]. assumption.
Qed.

Lemma str_array_ok_iff v : str_array_ok v = true <-> exists l, StrArray v l.
Proof.
  split.
  - unfold str_array_ok, StrArray. destruct v as [| | | |l|]; try discriminate. intros H.
    exists (strs (JArr l)). f_equal. unfold strs. cbn [aelems].
    induction l as [|e l IH]; [reflexivity|]. cbn [forallb] in H. apply andb_true_iff in H as [He Hl].
    destruct e; try discriminate He. cbn [flat_map app map]. f_equal. apply IH. assumption.
  - intros (l & H). apply (str_array_strs v l H).
Qed.

Lemma AllPaths_paths_of m :
  forallb (fun dv => str_array_ok (snd dv)) m = true -> AllPaths m (paths_of m).
Proof.
  induction m as [|[d v] m IH]; intros H; [constructor|].
  cbn [forallb snd] in H. apply andb_true_iff in H as [Hv Hm].
  apply str_array_ok_iff in Hv as (l & Hl). unfold paths_of. cbn [flat_map snd].
  rewrite (proj1 (str_array_strs v l Hl)). constructor; [assumption | apply IH; assumption].
Qed.

Lemma AllPaths_fun m ps : AllPaths m ps -> ps = paths_of m /\ forallb (fun dv => str_array_ok (snd dv)) m = true.
Proof.
  induction 1 as [|d v l m r Hv Hm IH]; [split; reflexivity|]. destruct IH as [-> IH2].
  unfold paths_of. cbn [flat_map forallb snd]. destruct (str_array_strs v l Hv) as [-> ->]. split; [reflexivity | assumption].
Qed.

Lemma In_paths_of m p : In p (paths_of m) <-> exists d v, In (d, v) m /\ In p (strs v).
Proof.
  unfold paths_of. rewrite in_flat_map. split.
  - intros ([d v] & Hin & Hp). exists d, v. split; assumption.
  - intros (d & v & Hin & Hp). exists (d, v). split; assumption.
Qed.
