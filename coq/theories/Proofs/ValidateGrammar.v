(** C07 - reflection of the remaining string grammars of Model/Validate.v against
    Model/ValidateSpec.v: RFC 3339 date-time, version numbering (contiguity by a
    pigeonhole argument, padding convention). *)
From Rocfl Require Import Base.Bytes Model.Json Model.JsonValue Model.Validate Model.ValidateSpec
  Proofs.BytesFacts Proofs.ValidateFacts.
From Coq Require Import ZArith Lia ZifyBool ZifyN ZifyNat.
Ltac Zify.zify_post_hook ::= Z.div_mod_to_equations.
Open Scope N_scope.

(** * RFC 3339 *)
Lemma two_digits_iff x y n : two_digits x y = Some n <-> Num2 x y n.
Proof.
  unfold two_digits, Num2, digit_val. destruct (is_digit x) eqn:Ex, (is_digit y) eqn:Ey; cbn [andb].
  - apply is_digit_iff in Ex, Ey. split.
    + intros H. injection H as <-. split; [assumption | split; [assumption | reflexivity]].
    + intros (_ & _ & ->). reflexivity.
  - split; [discriminate|]. intros (_ & Hy & _). apply is_digit_iff in Hy. congruence.
  - split; [discriminate|]. intros (Hx & _ & _). apply is_digit_iff in Hx. congruence.
  - split; [discriminate|]. intros (Hx & _ & _). apply is_digit_iff in Hx. congruence.
Qed.

Lemma Num2_fun x y n m : Num2 x y n -> Num2 x y m -> n = m.
Proof. intros (_ & _ & ->) (_ & _ & ->). reflexivity. Qed.

Lemma leap_year_iff y : leap_year y = true <-> LeapYear y.
Proof. unfold leap_year, LeapYear. rewrite orb_true_iff, andb_true_iff, negb_true, !N.eqb_eq. tauto. Qed.

Lemma days_in_month_spec y m : 1 <= m <= 12 -> DaysInMonth y m (days_in_month y m).
Proof.
  intros Hm. unfold days_in_month, DaysInMonth.
  destruct (m =? 2) eqn:E2.
  - apply N.eqb_eq in E2. left. split; [assumption|].
    destruct (leap_year y) eqn:El.
    + left. split; [apply leap_year_iff; assumption | reflexivity].
    + right. split; [rewrite <- leap_year_iff; congruence | reflexivity].
  - apply N.eqb_neq in E2.
    destruct ((m =? 4) || (m =? 6) || (m =? 9) || (m =? 11)) eqn:E30.
    + right. left. split; [lia | reflexivity].
    + right. right. split; [lia | reflexivity].
Qed.

Lemma DaysInMonth_fun y m d : DaysInMonth y m d -> d = days_in_month y m.
Proof.
  unfold DaysInMonth, days_in_month. intros [(-> & H) | [(H & ->) | (H & ->)]].
  - cbn [N.eqb]. change (2 =? 2) with true. cbv iota.
    destruct H as [(Hl & ->) | (Hl & ->)].
    + apply leap_year_iff in Hl. now rewrite Hl.
    + rewrite <- leap_year_iff in Hl. destruct (leap_year y); [congruence | reflexivity].
  - destruct (m =? 2) eqn:E2; [lia|]. destruct ((m =? 4) || (m =? 6) || (m =? 9) || (m =? 11)) eqn:E; [reflexivity | lia].
  - destruct (m =? 2) eqn:E2; [lia|]. destruct ((m =? 4) || (m =? 6) || (m =? 9) || (m =? 11)) eqn:E; [lia | reflexivity].
Qed.

Fixpoint take_digits (s : bytes) : bytes :=
  match s with
  | c :: r => if is_digit c then c :: take_digits r else []
  | [] => []
  end.

Lemma take_skip_digits s : s = take_digits s ++ skip_digits s.
Proof.
  induction s as [|c s IH]; [reflexivity|]. cbn [take_digits skip_digits].
  destruct (is_digit c); [cbn [app]; f_equal; assumption | reflexivity].
Qed.

Lemma take_digits_Forall s : Forall Digit (take_digits s).
Proof.
  induction s as [|c s IH]; cbn [take_digits]; [constructor|].
  destruct (is_digit c) eqn:E; [constructor; [apply is_digit_iff; assumption | assumption] | constructor].
Qed.

Definition nondigit_head (z : bytes) : Prop := match z with [] => True | c :: _ => is_digit c = false end.

Lemma skip_digits_app ds z : Forall Digit ds -> nondigit_head z -> skip_digits (ds ++ z) = z.
Proof.
  induction 1 as [|c ds Hc Hds IH]; intros Hz.
  - destruct z as [|c z]; [reflexivity|]. cbn [app skip_digits]. cbn in Hz. now rewrite Hz.
  - cbn [app skip_digits]. apply is_digit_iff in Hc. rewrite Hc. apply IH. assumption.
Qed.

Lemma code_char c x : code c = code x -> c = x.
Proof. apply code_inj. Qed.

Lemma zone_ok_iff z : zone_ok z = true <-> TimeOffset z.
Proof.
  unfold zone_ok, TimeOffset. split.
  - destruct z as [|c1 [|c2 [|c3 [|c4 [|c5 [|c6 [|c7 z]]]]]]]; try discriminate.
    + rewrite orb_true_iff, !N.eqb_eq. intros [H | H].
      * left. assert (c1 = "Z"%char) by (apply code_char; rewrite H; reflexivity). subst. reflexivity.
      * right; left. assert (c1 = "z"%char) by (apply code_char; rewrite H; reflexivity). subst. reflexivity.
    + rewrite !andb_true_iff, orb_true_iff, !N.eqb_eq. intros ((Hs & Hc) & H).
      destruct (two_digits c2 c3) as [h|] eqn:Eh; [|discriminate]. destruct (two_digits c5 c6) as [m|] eqn:Em; [|discriminate].
      apply two_digits_iff in Eh, Em. right; right. exists c1, c2, c3, c5, c6, h, m.
      assert (c4 = ":"%char) by (apply code_char; rewrite Hc; reflexivity). subst c4.
      split; [reflexivity|]. split.
      { destruct Hs as [Hs | Hs]; [left | right]; apply code_char; rewrite Hs; reflexivity. }
      split; [assumption|]. split; [assumption|]. lia.
  - intros [-> | [-> | (sg & h1 & h2 & m1 & m2 & h & m & -> & Hs & Hh & Hm & H1 & H2)]]; try reflexivity.
    apply two_digits_iff in Hh, Hm. rewrite Hh, Hm.
    destruct Hs as [-> | ->]; cbn; lia.
Qed.

Lemma TimeOffset_head z : TimeOffset z -> nondigit_head z /\ match z with c :: _ => (code c =? 46) = false | [] => False end.
Proof.
  intros [-> | [-> | (sg & h1 & h2 & m1 & m2 & h & m & -> & [-> | ->] & _)]]; cbn; split; reflexivity.
Qed.

Lemma frac_zone_ok_iff r :
  frac_zone_ok r = true <-> exists frac zone, r = frac ++ zone /\ SecFrac frac /\ TimeOffset zone.
Proof.
  unfold frac_zone_ok. split.
  - destruct r as [|c r1]; [discriminate|].
    destruct (code c =? 46) eqn:Ec.
    + apply N.eqb_eq in Ec. assert (c = "."%char) by (apply code_char; rewrite Ec; reflexivity). subst c.
      destruct r1 as [|d r2]; [discriminate|]. rewrite andb_true_iff. intros [Hd Hz].
      apply zone_ok_iff in Hz. exists ("."%char :: take_digits (d :: r2)), (skip_digits (d :: r2)).
      split; [cbn [app]; f_equal; apply take_skip_digits|]. split; [|assumption].
      right. exists (take_digits (d :: r2)). split; [reflexivity|]. split; [|apply take_digits_Forall].
      cbn [take_digits]. rewrite Hd. discriminate.
    + intros Hz. apply zone_ok_iff in Hz. exists [], (c :: r1). split; [reflexivity|]. split; [left; reflexivity | assumption].
  - intros (frac & zone & -> & [-> | (ds & -> & Hne & Hds)] & Hz).
    + cbn [app]. destruct (TimeOffset_head zone Hz) as [_ Hdot]. destruct zone as [|c z]; [contradiction|].
      rewrite Hdot. apply zone_ok_iff. assumption.
    + cbn [app]. change (code "."%char =? 46) with true. cbv iota.
      destruct ds as [|d ds]; [contradiction|]. cbn [app]. rewrite andb_true_iff.
      inversion Hds as [|? ? Hd Hds']; subst. split; [apply is_digit_iff; assumption|].
      change (d :: ds ++ zone) with ((d :: ds) ++ zone). rewrite skip_digits_app; [apply zone_ok_iff; assumption | assumption | apply TimeOffset_head; assumption].
Qed.

Lemma rfc3339_ok_iff s : rfc3339_ok s = true <-> Rfc3339 s.
Proof.
  split.
  - unfold rfc3339_ok.
    destruct s as [|y1 [|y2 [|y3 [|y4 [|da [|mo1 [|mo2 [|db [|dd1 [|dd2 [|t [|h1 [|h2 [|ca [|mi1 [|mi2 [|cb [|s1 [|s2 rest]]]]]]]]]]]]]]]]]]];
      try discriminate.
    destruct (two_digits y1 y2) as [ya|] eqn:E1; [|discriminate].
    destruct (two_digits y3 y4) as [yb|] eqn:E2; [|discriminate].
    destruct (two_digits mo1 mo2) as [mo|] eqn:E3; [|discriminate].
    destruct (two_digits dd1 dd2) as [dd|] eqn:E4; [|discriminate].
    destruct (two_digits h1 h2) as [h|] eqn:E5; [|discriminate].
    destruct (two_digits mi1 mi2) as [mi|] eqn:E6; [|discriminate].
    destruct (two_digits s1 s2) as [se|] eqn:E7; [|discriminate].
    rewrite !andb_true_iff, orb_true_iff, !N.eqb_eq, !N.leb_le.
    intros ((((((((((((Hda & Hdb) & Ht) & Hca) & Hcb) & Hmo1) & Hmo2) & Hdd1) & Hdd2) & Hh) & Hmi) & Hse) & Hfz).
    apply frac_zone_ok_iff in Hfz as (frac & zone & -> & Hf & Hz).
    apply two_digits_iff in E1, E2, E3, E4, E5, E6, E7.
    assert (da = "-"%char) by (apply code_char; rewrite Hda; reflexivity).
    assert (db = "-"%char) by (apply code_char; rewrite Hdb; reflexivity).
    assert (ca = ":"%char) by (apply code_char; rewrite Hca; reflexivity).
    assert (cb = ":"%char) by (apply code_char; rewrite Hcb; reflexivity). subst.
    exists y1, y2, y3, y4, mo1, mo2, dd1, dd2, t, h1, h2, mi1, mi2, s1, s2, frac, zone, ya, yb, mo, dd,
      (days_in_month (100 * ya + yb) mo), h, mi, se.
    split; [reflexivity|]. split.
    { destruct Ht as [Ht | Ht]; [left | right]; apply code_char; rewrite Ht; reflexivity. }
    repeat (split; [assumption|]). split; [lia|]. split; [apply days_in_month_spec; lia|].
    repeat (split; [lia|]). split; assumption.
  - intros (y1 & y2 & y3 & y4 & mo1 & mo2 & dd1 & dd2 & t & h1 & h2 & mi1 & mi2 & s1 & s2 & frac & zone & ya & yb & mo & dd & dim & h & mi & se
            & -> & Ht & E1 & E2 & E3 & E4 & E5 & E6 & E7 & Hmo & Hdim & Hdd & Hh & Hmi & Hse & Hf & Hz).
    cbn [app rfc3339_ok].
    apply two_digits_iff in E1, E2, E3, E4, E5, E6, E7. rewrite E1, E2, E3, E4, E5, E6, E7.
    apply DaysInMonth_fun in Hdim. subst dim.
    assert (Hfz : frac_zone_ok (frac ++ zone) = true) by (apply frac_zone_ok_iff; exists frac, zone; repeat split; assumption).
    rewrite Hfz.
    change (code "-"%char =? 45) with true. change (code ":"%char =? 58) with true.
    assert (Ht' : (code t =? 84) || (code t =? 116) = true) by (destruct Ht as [-> | ->]; reflexivity).
    rewrite Ht'. cbn [andb]. rewrite !andb_true_iff, !N.leb_le. repeat split; lia.
Qed.

(** * padding convention *)
Lemma padding_ok_iff ks :
  padding_ok ks = true <->
  ((forall k, In k ks -> ~ ZeroPadded k) \/ (exists w, forall k, In k ks -> ZeroPadded k /\ blen k = w)).
Proof.
  unfold padding_ok. rewrite orb_true_iff. split.
  - intros [H | H].
    + left. intros k Hk. rewrite forallb_forall in H. specialize (H k Hk). apply negb_true in H. rewrite <- v_padded_iff. assumption.
    + destruct ks as [|k0 ks].
      * left. intros k [].
      * right. exists (blen k0). intros k Hk. rewrite forallb_forall in H. specialize (H k Hk).
        apply andb_true_iff in H as [H1 H2]. apply v_padded_iff in H1. apply N.eqb_eq in H2. split; assumption.
  - intros [H | (w & H)].
    + left. apply forallb_forall. intros k Hk. apply negb_true. rewrite v_padded_iff. apply H. assumption.
    + right. destruct ks as [|k0 ks]; [reflexivity|]. apply forallb_forall. intros k Hk.
      destruct (H k Hk) as [H1 H2]. destruct (H k0 (or_introl eq_refl)) as [_ H3].
      apply andb_true_iff. split; [apply v_padded_iff; assumption | apply N.eqb_eq; congruence].
Qed.

(** * version numbers 1 .. count (pigeonhole) *)
Definition seqN (n : nat) : list N := map N.of_nat (seq 1 n).

Lemma In_seqN m n : In m (seqN n) <-> 1 <= m <= N.of_nat n.
Proof.
  unfold seqN. rewrite in_map_iff. split.
  - intros (x & <- & Hx). apply in_seq in Hx. lia.
  - intros H. exists (N.to_nat m). split; [lia|]. apply in_seq. lia.
Qed.

Lemma seqN_length n : List.length (seqN n) = n.
Proof. unfold seqN. now rewrite map_length, seq_length. Qed.

Lemma seqN_NoDup n : NoDup (seqN n).
Proof.
  unfold seqN. apply NoDup_map_inj; [apply seq_NoDup|]. intros x y _ _ H. lia.
Qed.

(** all numbers distinct and within 1..count  ->  every number of 1..count occurs *)
Lemma pigeonhole (ns : list N) :
  NoDup ns -> (forall n, In n ns -> 1 <= n <= N.of_nat (List.length ns)) ->
  forall m, 1 <= m <= N.of_nat (List.length ns) -> In m ns.
Proof.
  intros Hnd Hr m Hm.
  assert (Hincl : incl (seqN (List.length ns)) ns).
  { apply NoDup_length_incl; [assumption | rewrite seqN_length; lia|]. intros n Hn. apply In_seqN. apply Hr. assumption. }
  apply Hincl. apply In_seqN. assumption.
Qed.

(** downward closed and distinct  ->  every number is at most the count *)
Lemma downward_bound (ns : list N) :
  NoDup ns -> (forall n m, In n ns -> 1 <= m < n -> In m ns) -> (forall n, In n ns -> 1 <= n) ->
  forall n, In n ns -> n <= N.of_nat (List.length ns).
Proof.
  intros Hnd Hdown Hpos n Hn.
  assert (Hincl : incl (seqN (N.to_nat n)) ns).
  { intros m Hm. apply In_seqN in Hm. destruct (N.eq_dec m n) as [-> | Hne]; [assumption|]. apply (Hdown n); [assumption | lia]. }
  pose proof (NoDup_incl_length (seqN_NoDup (N.to_nat n)) Hincl) as Hlen. rewrite seqN_length in Hlen. lia.
Qed.

Lemma vnums_ok_iff ks :
  NoDup ks -> (forall k, In k ks -> exists n, VersionNumber k n /\ 1 <= n) ->
  (vnums_ok ks = true <->
   ((forall k n m, In k ks -> VersionNumber k n -> 1 <= m < n -> exists k', In k' ks /\ VersionNumber k' m)
    /\ (forall k k' n, In k ks -> In k' ks -> VersionNumber k n -> VersionNumber k' n -> k = k'))).
Proof.
  intros Hnd Hwf. unfold vnums_ok. rewrite andb_true_iff, nodupN_b_NoDup, forallb_forall.
  assert (Hnum : forall k, In k ks -> VersionNumber k (vnum0 k)).
  { intros k Hk. destruct (Hwf k Hk) as (n & Hn & _). now rewrite (vnum0_of k n Hn). }
  split.
  - intros [Hnd' Hr]. assert (Hr' : forall n, In n (map vnum0 ks) -> 1 <= n <= N.of_nat (List.length (map vnum0 ks))).
    { intros n Hn. specialize (Hr n Hn). rewrite map_length. lia. }
    split.
    + intros k n m Hk Hn Hm. assert (Hin : In m (map vnum0 ks)).
      { apply pigeonhole; try assumption. specialize (Hr' n). rewrite <- (vnum0_of k n Hn) in Hr' at 1.
        specialize (Hr' (in_map vnum0 ks k Hk)). lia. }
      apply in_map_iff in Hin as (k' & E & Hk'). exists k'. split; [assumption|]. rewrite <- E. apply Hnum. assumption.
    + intros k k' n Hk Hk' Hn Hn'. apply (NoDup_map_In_inj vnum0 ks); try assumption.
      now rewrite (vnum0_of k n Hn), (vnum0_of k' n Hn').
  - intros [Hdown Hinj].
    assert (Hnd' : NoDup (map vnum0 ks)).
    { apply NoDup_map_inj; [assumption|]. intros x y Hx Hy E. apply (Hinj x y (vnum0 x)); try assumption; [apply Hnum; assumption | rewrite E; apply Hnum; assumption]. }
    split; [assumption|]. intros n Hn.
    assert (Hpos : forall n0, In n0 (map vnum0 ks) -> 1 <= n0).
    { intros n0 H0. apply in_map_iff in H0 as (k & <- & Hk). destruct (Hwf k Hk) as (n1 & Hn1 & H1). now rewrite (vnum0_of k n1 Hn1). }
    assert (Hb : n <= N.of_nat (List.length (map vnum0 ks))).
    { apply downward_bound; try assumption. intros n0 m H0 Hm. apply in_map_iff in H0 as (k & <- & Hk).
      destruct (Hdown k (vnum0 k) m Hk (Hnum k Hk) Hm) as (k' & Hk' & Hm'). apply in_map_iff. exists k'. split; [apply vnum0_of; assumption | assumption]. }
    rewrite map_length in Hb. specialize (Hpos n Hn). lia.
Qed.
