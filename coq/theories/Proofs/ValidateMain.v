(** C07 - corollaries stated by Props/C07.v: spelling independence of the verdict,
    member-order independence at each level, and rocfl's reader of string tokens (the
    current one accepts every legal spelling; the one before fix 2f36fc5 did not). *)
From Rocfl Require Import Base.Bytes Model.Json Model.JsonValue Model.Validate Model.ValidateSpec Model.ValidateReader
  Proofs.BytesFacts Proofs.JsonFacts Proofs.JsonValueFacts Proofs.ValidateFacts Proofs.ValidateSound Proofs.ValidatePerm.
From Coq Require Import Permutation.
Open Scope N_scope.

(** the verdict is a function of the parsed value: two texts with the same value get the same errors *)
Lemma verdict_same_value sv s1 s2 :
  parse_json s1 = parse_json s2 -> inv_errors_bytes sv s1 = inv_errors_bytes sv s2.
Proof. intros H. unfold inv_errors_bytes. now rewrite H. Qed.

(** the compact re-serialisation of a parsed document is judged like the document *)
Lemma verdict_reprint sv s j :
  parse_json s = Some j -> jv_wf j = true -> inv_errors_bytes sv (print_json j) = inv_errors_bytes sv s.
Proof. intros H Hwf. apply verdict_same_value. now rewrite (parse_print j Hwf), H. Qed.

Lemma spec_key_order sv j j' : jv_perm j j' -> (InvSpecOK sv j <-> InvSpecOK sv j').
Proof. intros H. rewrite <- !inv_errors_sound_complete. now rewrite (inv_errors_perm sv j j' H). Qed.

Lemma key_order_top sv m m' : Permutation m m' -> inv_errors sv (JObj m) = inv_errors sv (JObj m').
Proof. intros H. apply inv_errors_perm. apply jv_perm_top. assumption. Qed.

(** members of a block (versions, manifest, fixity: depth 1) *)
Lemma key_order_block sv m1 k m m' m2 :
  Permutation m m' ->
  inv_errors sv (JObj (m1 ++ (k, JObj m) :: m2)) = inv_errors sv (JObj (m1 ++ (k, JObj m') :: m2)).
Proof. intros H. apply inv_errors_perm. apply jv_perm_member. apply jv_perm_top. assumption. Qed.

(** members of a version block or of a fixity block (depth 2) *)
Lemma key_order_block2 sv m1 k n1 k2 m m' n2 m2 :
  Permutation m m' ->
  inv_errors sv (JObj (m1 ++ (k, JObj (n1 ++ (k2, JObj m) :: n2)) :: m2))
  = inv_errors sv (JObj (m1 ++ (k, JObj (n1 ++ (k2, JObj m') :: n2)) :: m2)).
Proof. intros H. apply inv_errors_perm. apply jv_perm_member. apply jv_perm_member. apply jv_perm_top. assumption. Qed.

(** members of a state block or of a user object (depth 3) *)
Lemma key_order_block3 sv m1 k n1 k2 o1 k3 m m' o2 n2 m2 :
  Permutation m m' ->
  inv_errors sv (JObj (m1 ++ (k, JObj (n1 ++ (k2, JObj (o1 ++ (k3, JObj m) :: o2)) :: n2)) :: m2))
  = inv_errors sv (JObj (m1 ++ (k, JObj (n1 ++ (k2, JObj (o1 ++ (k3, JObj m') :: o2)) :: n2)) :: m2)).
Proof. intros H. apply inv_errors_perm. do 3 apply jv_perm_member. apply jv_perm_top. assumption. Qed.

(** * rocfl's reader of string tokens *)

(** the current reader (Cow<str> / String at every position) gives the string for every legal spelling *)
Lemma validator_reads_every_spelling t s :
  spells t s -> utf8_valid s = true -> validator_read (DQ :: t ++ [DQ]) = Some s.
Proof. unfold validator_read. apply decode_any_spelling. Qed.

(** in particular for what serde_json itself writes (the inventories rocfl commits) *)
Lemma validator_reads_serde_escape s : utf8_valid s = true -> validator_read (serde_escape s) = Some s.
Proof. unfold validator_read. apply decode_string_escape. Qed.

(** and it reads nothing but legal tokens: whatever it returns is what the conforming decoder returns *)
Lemma validator_read_conforming t : validator_read t = decode_string t.
Proof. reflexivity. Qed.

(** historical note: the reader before fix 2f36fc5 (borrowed &str) refused every token with a backslash,
    e.g. the legal spelling ark:123\/abc of an object id *)
Lemma validator_read_before_fix_refused t : has_escape t = true -> validator_read_before_fix t = None.
Proof. unfold validator_read_before_fix, read_borrowed. intros ->. destruct (decode_string t); reflexivity. Qed.

Lemma validator_read_before_fix_witness :
  exists t s, spells t s /\ utf8_valid s = true /\ validator_read (DQ :: t ++ [DQ]) = Some s
              /\ validator_read_before_fix (DQ :: t ++ [DQ]) = None.
Proof.
  exists (b "ark:123" ++ [BSL; SL] ++ b "abc"), (b "ark:123/abc"). split.
  - change (b "ark:123" ++ [BSL; SL] ++ b "abc") with (esc_slash (b "ark:123/abc")). apply slash_escape_spelling.
  - vm_compute. repeat split.
Qed.
