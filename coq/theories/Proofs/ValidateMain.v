(** C07 - corollaries stated by Props/C07.v: spelling independence of the verdict,
    member-order independence at each level, and the string layer of the known
    finding (rocfl's borrowed reader against the conforming decoder). *)
From Rocfl Require Import Base.Bytes Model.Json Model.JsonValue Model.Validate Model.ValidateSpec Model.KnownC07
  Proofs.BytesFacts Proofs.JsonFacts Proofs.JsonValueFacts Proofs.ValidateFacts Proofs.ValidateSound Proofs.ValidatePerm.
From Coq Require Import Permutation.
Open Scope N_scope.

(** the verdict is a function of the parsed value: two texts with the same value get the same errors *)
Lemma verdict_same_value sv s1 s2 :
  parse_json s1 = parse_json s2 -> inv_errors_bytes sv s1 = inv_errors_bytes sv s2.
Proof. intros H. unfold inv_errors_bytes. now rewrite H. Qed.

(** the compact re-serialisation of a parsed document is judged like the document *)
Lemma verdict_reprint sv s j :
  parse_json s = Some j -> jv_wf j = true -> inv_errors_bytes sv (print_json j) = inv_errors_bytes sv s.
Proof. intros H Hwf. apply verdict_same_value. now rewrite (parse_print j Hwf), H. Qed.

Lemma spec_key_order sv j j' : jv_perm j j' -> (InvSpecOK sv j <-> InvSpecOK sv j').
Proof. intros H. rewrite <- !inv_errors_sound_complete. now rewrite (inv_errors_perm sv j j' H). Qed.

Lemma key_order_top sv m m' : Permutation m m' -> inv_errors sv (JObj m) = inv_errors sv (JObj m').
Proof. intros H. apply inv_errors_perm. apply jv_perm_top. assumption. Qed.

(** members of a block (versions, manifest, fixity: depth 1) *)
Lemma key_order_block sv m1 k m m' m2 :
  Permutation m m' ->
  inv_errors sv (JObj (m1 ++ (k, JObj m) :: m2)) = inv_errors sv (JObj (m1 ++ (k, JObj m') :: m2)).
Proof. intros H. apply inv_errors_perm. apply jv_perm_member. apply jv_perm_top. assumption. Qed.

(** members of a version block or of a fixity block (depth 2) *)
Lemma key_order_block2 sv m1 k n1 k2 m m' n2 m2 :
  Permutation m m' ->
  inv_errors sv (JObj (m1 ++ (k, JObj (n1 ++ (k2, JObj m) :: n2)) :: m2))
  = inv_errors sv (JObj (m1 ++ (k, JObj (n1 ++ (k2, JObj m') :: n2)) :: m2)).
Proof. intros H. apply inv_errors_perm. apply jv_perm_member. apply jv_perm_member. apply jv_perm_top. assumption. Qed.

(** members of a state block or of a user object (depth 3) *)
Lemma key_order_block3 sv m1 k n1 k2 o1 k3 m m' o2 n2 m2 :
  Permutation m m' ->
  inv_errors sv (JObj (m1 ++ (k, JObj (n1 ++ (k2, JObj (o1 ++ (k3, JObj m) :: o2)) :: n2)) :: m2))
  = inv_errors sv (JObj (m1 ++ (k, JObj (n1 ++ (k2, JObj (o1 ++ (k3, JObj m') :: o2)) :: n2)) :: m2)).
Proof. intros H. apply inv_errors_perm. do 3 apply jv_perm_member. apply jv_perm_top. assumption. Qed.

(** * string layer of the known finding *)

(** rocfl's validator reads a string position exactly as the conforming decoder unless the
    position is borrowed and the token has a backslash *)
Lemma reader_agrees_outside_class p t :
  (val_pos_borrowed p && has_escape t) = false -> validator_read_pos p t = decode_string t.
Proof.
  unfold validator_read_pos, read_with, read_borrowed. destruct (val_pos_borrowed p); cbn [andb]; [|reflexivity].
  intros ->. destruct (decode_string t); reflexivity.
Qed.

Lemma reader_rejects_inside_class p t :
  val_pos_borrowed p = true -> has_escape t = true -> validator_read_pos p t = None.
Proof.
  unfold validator_read_pos, read_with, read_borrowed. intros -> ->. destruct (decode_string t); reflexivity.
Qed.

(** a legal spelling of an object id that the conforming decoder reads and rocfl's reader refuses *)
Lemma reader_refuted :
  exists p t s, decode_string t = Some s /\ utf8_valid s = true /\ validator_read_pos p t = None.
Proof. exists PId, (DQ :: b "ark:123" ++ [BSL; SL] ++ b "abc" ++ [DQ]), (b "ark:123/abc"). vm_compute. repeat split. Qed.
