(** C07 - the verdict (indeed the whole error list) of the inventory checker does not
    depend on the order of the members of any JSON object of the document:
    [jv_perm j j' -> inv_errors sv j = inv_errors sv j'].  Duplicate keys are not
    assumed away: every rule reads "all values under key k". *)
From Rocfl Require Import Base.Bytes Model.Json Model.JsonValue Model.Validate Model.ValidateSpec
  Proofs.BytesFacts Proofs.ValidateFacts Proofs.ValidateGrammar.
From Coq Require Import Permutation Lia.
Open Scope N_scope.

(** * permutations up to a relation *)
Section PermR.
Context {A : Type} (R : A -> A -> Prop).
Hypothesis Rrefl : forall x, R x x.

Lemma permR_refl l : permR R l l.
Proof. induction l; [constructor | apply pr_skip; [apply Rrefl | assumption]]. Qed.

Lemma Permutation_permR l l' : Permutation l l' -> permR R l l'.
Proof.
  induction 1.
  - constructor.
  - apply pr_skip; [apply Rrefl | assumption].
  - apply pr_swap.
  - eapply pr_trans; eassumption.
Qed.

Lemma permR_app_head l x y : permR R x y -> permR R (l ++ x) (l ++ y).
Proof. intros H. induction l; cbn [app]; [assumption | apply pr_skip; [apply Rrefl | assumption]]. Qed.

Lemma permR_app_tail x x' y : permR R x x' -> permR R (x ++ y) (x' ++ y).
Proof.
  intros Hx. induction Hx.
  - apply permR_refl.
  - cbn [app]. apply pr_skip; assumption.
  - cbn [app]. apply pr_swap.
  - eapply pr_trans; eassumption.
Qed.

Lemma permR_app x x' y y' : permR R x x' -> permR R y y' -> permR R (x ++ y) (x' ++ y').
Proof.
  intros Hx Hy. eapply pr_trans; [apply permR_app_tail; eassumption | apply permR_app_head; assumption].
Qed.
End PermR.

Lemma permR_length {A} (R : A -> A -> Prop) l l' : permR R l l' -> List.length l = List.length l'.
Proof. induction 1; cbn [List.length]; congruence. Qed.

Lemma forallb_pt {A} (f g : A -> bool) l : (forall x, f x = g x) -> forallb f l = forallb g l.
Proof. intros H. induction l; cbn [forallb]; [reflexivity | now rewrite H, IHl]. Qed.

Lemma existsb_pt {A} (f g : A -> bool) l : (forall x, f x = g x) -> existsb f l = existsb g l.
Proof. intros H. induction l; cbn [existsb]; [reflexivity | now rewrite H, IHl]. Qed.

Lemma forallb_permR {A} (R : A -> A -> Prop) (f g : A -> bool) l l' :
  permR R l l' -> (forall x y, R x y -> f x = g y) -> (forall x, f x = g x) -> forallb f l = forallb g l'.
Proof.
  intros H Hfg Hpt. induction H.
  - reflexivity.
  - cbn [forallb]. now rewrite (Hfg x y H), IHpermR.
  - cbn [forallb]. rewrite !Hpt. rewrite !andb_assoc. rewrite (andb_comm (g x) (g y)). f_equal. apply forallb_pt. assumption.
  - rewrite IHpermR1. rewrite <- IHpermR2. symmetry. apply forallb_pt. assumption.
Qed.

Lemma existsb_permR {A} (R : A -> A -> Prop) (f g : A -> bool) l l' :
  permR R l l' -> (forall x y, R x y -> f x = g y) -> (forall x, f x = g x) -> existsb f l = existsb g l'.
Proof.
  intros H Hfg Hpt. induction H.
  - reflexivity.
  - cbn [existsb]. now rewrite (Hfg x y H), IHpermR.
  - cbn [existsb]. rewrite !Hpt. rewrite !orb_assoc. rewrite (orb_comm (g x) (g y)). f_equal. apply existsb_pt. assumption.
  - rewrite IHpermR1. rewrite <- IHpermR2. symmetry. apply existsb_pt. assumption.
Qed.

Lemma permR_map {A B} (R : A -> A -> Prop) (S : B -> B -> Prop) (f : A -> B) l l' :
  (forall x, S x x) -> permR R l l' -> (forall x y, R x y -> S (f x) (f y)) -> permR S (map f l) (map f l').
Proof.
  intros Srefl H Hf. induction H; cbn [map].
  - constructor.
  - apply pr_skip; [apply Hf; assumption | assumption].
  - apply pr_swap.
  - eapply pr_trans; eassumption.
Qed.

Lemma permR_map_eq {A B} (R : A -> A -> Prop) (f : A -> B) l l' :
  permR R l l' -> (forall x y, R x y -> f x = f y) -> Permutation (map f l) (map f l').
Proof.
  intros H Hf. induction H; cbn [map].
  - constructor.
  - rewrite (Hf x y H). apply perm_skip. assumption.
  - apply perm_swap.
  - eapply perm_trans; eassumption.
Qed.

Lemma permR_flat_map_eq {A B} (R : A -> A -> Prop) (f : A -> list B) l l' :
  permR R l l' -> (forall x y, R x y -> f x = f y) -> Permutation (flat_map f l) (flat_map f l').
Proof.
  intros H Hf. induction H; cbn [flat_map].
  - constructor.
  - rewrite (Hf x y H). apply Permutation_app_head. assumption.
  - rewrite !app_assoc. apply Permutation_app_tail. apply Permutation_app_comm.
  - eapply perm_trans; eassumption.
Qed.

(** boolean functions of lists of byte strings that only depend on the elements *)
Lemma mem_b_perm x l l' : Permutation l l' -> mem_b x l = mem_b x l'.
Proof. intros H. apply eq_true_iff. rewrite !mem_b_In. split; apply Permutation_in; [assumption | symmetry; assumption]. Qed.

Lemma nodup_b_perm l l' : Permutation l l' -> nodup_b l = nodup_b l'.
Proof. intros H. apply eq_true_iff. rewrite !nodup_b_NoDup. split; apply Permutation_NoDup; [assumption | symmetry; assumption]. Qed.

Lemma nodupN_b_perm l l' : Permutation l l' -> nodupN_b l = nodupN_b l'.
Proof. intros H. apply eq_true_iff. rewrite !nodupN_b_NoDup. split; apply Permutation_NoDup; [assumption | symmetry; assumption]. Qed.

Lemma forallb_perm {A} (f g : A -> bool) l l' : Permutation l l' -> (forall x, f x = g x) -> forallb f l = forallb g l'.
Proof.
  intros H Hfg. apply eq_true_iff. rewrite !forallb_forall. split; intros G x Hx.
  - rewrite <- Hfg. apply G. apply (Permutation_in x (Permutation_sym H)). assumption.
  - rewrite Hfg. apply G. apply (Permutation_in x H). assumption.
Qed.

Lemma prefix_free_perm l l' : Permutation l l' -> prefix_free l = prefix_free l'.
Proof.
  intros H. apply eq_true_iff. rewrite !prefix_free_iff. split; intros G p q Hp Hq.
  - apply G; apply (Permutation_in _ (Permutation_sym H)); assumption.
  - apply G; apply (Permutation_in _ H); assumption.
Qed.

Lemma padding_ok_perm l l' : Permutation l l' -> padding_ok l = padding_ok l'.
Proof.
  intros H. apply eq_true_iff. rewrite !padding_ok_iff.
  assert (Hin : forall k, In k l <-> In k l') by (intros k; split; apply Permutation_in; [assumption | symmetry; assumption]).
  split; (intros [G | (w & G)]; [left; intros k Hk; apply G; apply Hin; assumption | right; exists w; intros k Hk; apply G; apply Hin; assumption]).
Qed.

Lemma vnums_ok_perm l l' : Permutation l l' -> vnums_ok l = vnums_ok l'.
Proof.
  intros H. unfold vnums_ok. rewrite (nodupN_b_perm _ _ (Permutation_map vnum0 H)).
  rewrite (Permutation_length H). f_equal. apply forallb_perm; [apply Permutation_map; assumption | reflexivity].
Qed.

Lemma head_ok_perm l l' h : Permutation l l' -> head_ok l h = head_ok l' h.
Proof. intros H. unfold head_ok. rewrite (mem_b_perm h _ _ H). f_equal. apply forallb_perm; [assumption | reflexivity]. Qed.

(** * JSON values up to member order *)
Definition mrel (x y : bytes * jv) : Prop := fst x = fst y /\ jv_perm (snd x) (snd y).
Definition MP := permR mrel.
Definition VP := permR jv_perm.

Lemma mrel_refl x : mrel x x.
Proof. split; [reflexivity | apply jp_refl]. Qed.

Lemma jv_perm_inv a c :
  jv_perm a c ->
  a = c \/ (exists l l', a = JArr l /\ c = JArr l' /\ Forall2 jv_perm l l')
  \/ (exists m m', a = JObj m /\ c = JObj m' /\ MP m m').
Proof. intros H. destruct H; [left; reflexivity | right; left; eauto | right; right; eauto]. Qed.

Lemma jv_perm_omem a c : jv_perm a c -> MP (omem a) (omem c).
Proof.
  intros H. apply jv_perm_inv in H as [-> | [(l & l' & -> & -> & _) | (m & m' & -> & -> & H)]].
  - apply permR_refl. apply mrel_refl.
  - constructor.
  - assumption.
Qed.

Lemma jv_perm_is_obj a c : jv_perm a c -> is_obj a = is_obj c.
Proof. intros H. apply jv_perm_inv in H as [-> | [(l & l' & -> & -> & _) | (m & m' & -> & -> & H)]]; reflexivity. Qed.

Lemma jv_perm_is_str a c : jv_perm a c -> is_str a = is_str c.
Proof. intros H. apply jv_perm_inv in H as [-> | [(l & l' & -> & -> & _) | (m & m' & -> & -> & H)]]; reflexivity. Qed.

Lemma jv_perm_jstr_sat p a c : jv_perm a c -> jstr_sat p a = jstr_sat p c.
Proof. intros H. apply jv_perm_inv in H as [-> | [(l & l' & -> & -> & _) | (m & m' & -> & -> & H)]]; reflexivity. Qed.

Lemma jv_perm_jstr_is s a c : jv_perm a c -> jstr_is s a = jstr_is s c.
Proof. intros H. apply jv_perm_inv in H as [-> | [(l & l' & -> & -> & _) | (m & m' & -> & -> & H)]]; reflexivity. Qed.

Lemma Forall2_strs l l' : Forall2 jv_perm l l' ->
  flat_map (fun e => match e with JStr s => [s] | _ => [] end) l = flat_map (fun e => match e with JStr s => [s] | _ => [] end) l'
  /\ forallb is_str l = forallb is_str l'.
Proof.
  induction 1 as [|x y l l' Hxy Hl [IH1 IH2]]; [split; reflexivity|]. cbn [flat_map forallb].
  rewrite IH1, IH2, (jv_perm_is_str x y Hxy).
  apply jv_perm_inv in Hxy as [-> | [(a & a' & -> & -> & _) | (m & m' & -> & -> & _)]]; split; reflexivity.
Qed.

Lemma jv_perm_strs a c : jv_perm a c -> strs a = strs c.
Proof.
  intros H. apply jv_perm_inv in H as [-> | [(l & l' & -> & -> & H) | (m & m' & -> & -> & H)]]; try reflexivity.
  unfold strs. cbn [aelems]. apply (Forall2_strs l l' H).
Qed.

Lemma jv_perm_str_array_ok a c : jv_perm a c -> str_array_ok a = str_array_ok c.
Proof.
  intros H. apply jv_perm_inv in H as [-> | [(l & l' & -> & -> & H) | (m & m' & -> & -> & H)]]; try reflexivity.
  cbn [str_array_ok]. apply (Forall2_strs l l' H).
Qed.

Lemma MP_keys m m' : MP m m' -> Permutation (keys m) (keys m').
Proof. intros H. unfold keys. apply (permR_map_eq mrel fst m m' H). intros x y [E _]. assumption. Qed.

Lemma MP_values m m' : MP m m' -> VP (map snd m) (map snd m').
Proof. intros H. apply (permR_map mrel jv_perm snd m m' jp_refl H). intros x y [_ E]. assumption. Qed.

Lemma MP_filter k m m' : MP m m' ->
  MP (filter (fun kv => bytes_eqb (fst kv) k) m) (filter (fun kv => bytes_eqb (fst kv) k) m').
Proof.
  induction 1 as [|x y l l' Hxy Hl IH|x y l|l1 l2 l3 H1 IH1 H2 IH2]; cbn [filter].
  - constructor.
  - destruct Hxy as [E Hv]. rewrite <- E. destruct (bytes_eqb (fst x) k); [apply pr_skip; [split; assumption | assumption] | assumption].
  - destruct (bytes_eqb (fst x) k), (bytes_eqb (fst y) k); try (apply permR_refl; apply mrel_refl). apply pr_swap.
  - eapply pr_trans; eassumption.
Qed.

Lemma MP_vals k m m' : MP m m' -> VP (vals k m) (vals k m').
Proof. intros H. unfold vals. apply MP_values. apply MP_filter. assumption. Qed.

Lemma VP_flat_omem l l' : VP l l' -> MP (flat_map omem l) (flat_map omem l').
Proof.
  induction 1 as [|x y l l' Hxy Hl IH|x y l|l1 l2 l3 H1 IH1 H2 IH2]; cbn [flat_map].
  - constructor.
  - apply (permR_app mrel mrel_refl); [apply jv_perm_omem; assumption | assumption].
  - apply (Permutation_permR mrel mrel_refl). rewrite !app_assoc. apply Permutation_app_tail. apply Permutation_app_comm.
  - eapply pr_trans; eassumption.
Qed.

Lemma MP_paths_of m m' : MP m m' -> Permutation (paths_of m) (paths_of m').
Proof.
  intros H. unfold paths_of. apply (permR_flat_map_eq mrel _ m m' H). intros x y [_ E]. apply jv_perm_strs. assumption.
Qed.

(** * the blocks of two related inventories *)
Section Blocks.
Variables j j' : jv.
Hypothesis Hj : jv_perm j j'.

Lemma P_tvals k : VP (tvals k j) (tvals k j').
Proof. unfold tvals. apply MP_vals. apply jv_perm_omem. assumption. Qed.

Lemma P_top_keys : Permutation (keys (omem j)) (keys (omem j')).
Proof. apply MP_keys. apply jv_perm_omem. assumption. Qed.

Lemma P_manifest : MP (manifest_m j) (manifest_m j').
Proof. unfold manifest_m. apply VP_flat_omem. apply P_tvals. Qed.
Lemma P_versions : MP (versions_m j) (versions_m j').
Proof. unfold versions_m. apply VP_flat_omem. apply P_tvals. Qed.
Lemma P_fixity : MP (fixity_m j) (fixity_m j').
Proof. unfold fixity_m. apply VP_flat_omem. apply P_tvals. Qed.
Lemma P_vblocks : VP (vblocks j) (vblocks j').
Proof. unfold vblocks. apply MP_values. apply P_versions. Qed.
Lemma P_content_paths : Permutation (content_paths j) (content_paths j').
Proof. unfold content_paths. apply MP_paths_of. apply P_manifest. Qed.
End Blocks.

Lemma P_state vb vb' : jv_perm vb vb' -> MP (state_m vb) (state_m vb').
Proof. intros H. unfold state_m. apply VP_flat_omem. apply MP_vals. apply jv_perm_omem. assumption. Qed.

Lemma P_logical_paths vb vb' : jv_perm vb vb' -> Permutation (logical_paths vb) (logical_paths vb').
Proof. intros H. unfold logical_paths. apply MP_paths_of. apply P_state. assumption. Qed.

Lemma VP_forallb (f g : jv -> bool) l l' :
  VP l l' -> (forall x y, jv_perm x y -> f x = g y) -> forallb f l = forallb g l'.
Proof. intros H Hfg. apply (forallb_permR jv_perm f g l l' H Hfg). intros x. apply Hfg. apply jp_refl. Qed.

Lemma VP_existsb (f g : jv -> bool) l l' :
  VP l l' -> (forall x y, jv_perm x y -> f x = g y) -> existsb f l = existsb g l'.
Proof. intros H Hfg. apply (existsb_permR jv_perm f g l l' H Hfg). intros x. apply Hfg. apply jp_refl. Qed.

Lemma MP_forallb (f g : bytes * jv -> bool) m m' :
  MP m m' -> (forall x y, mrel x y -> f x = g y) -> forallb f m = forallb g m'.
Proof. intros H Hfg. apply (forallb_permR mrel f g m m' H Hfg). intros x. apply Hfg. apply mrel_refl. Qed.

Lemma user_ok_perm u u' : jv_perm u u' -> user_ok u = user_ok u'.
Proof.
  intros H. unfold user_ok. pose proof (MP_keys _ _ (jv_perm_omem u u' H)) as Hk.
  rewrite (jv_perm_is_obj u u' H), (nodup_b_perm _ _ Hk), (forallb_perm _ (fun k => mem_b k user_keys) _ _ Hk (fun _ => eq_refl)).
  rewrite (VP_existsb is_str is_str _ _ (MP_vals K_name _ _ (jv_perm_omem u u' H)) jv_perm_is_str).
  rewrite (VP_forallb is_str is_str _ _ (MP_vals K_address _ _ (jv_perm_omem u u' H)) jv_perm_is_str). reflexivity.
Qed.

Lemma fixity_block_ok_perm j j' a blk blk' :
  jv_perm j j' -> jv_perm blk blk' -> fixity_block_ok j a blk = fixity_block_ok j' a blk'.
Proof.
  intros Hj Hb. unfold fixity_block_ok. pose proof (jv_perm_omem blk blk' Hb) as Hm. pose proof (MP_keys _ _ Hm) as Hk.
  pose proof (MP_paths_of _ _ Hm) as Hp.
  rewrite (jv_perm_is_obj blk blk' Hb), (nodup_b_perm _ _ Hk), (nodup_b_perm _ _ (Permutation_map lower Hk)).
  rewrite (forallb_perm (digest_ok a) (digest_ok a) _ _ Hk (fun _ => eq_refl)).
  rewrite (MP_forallb (fun dv => str_array_ok (snd dv)) (fun dv => str_array_ok (snd dv)) _ _ Hm)
    by (intros x y [_ E]; apply jv_perm_str_array_ok; assumption).
  rewrite (forallb_perm path_ok path_ok _ _ Hp (fun _ => eq_refl)), (nodup_b_perm _ _ Hp).
  rewrite (forallb_perm (fun p => mem_b p (content_paths j)) (fun p => mem_b p (content_paths j')) _ _ Hp)
    by (intros p; apply mem_b_perm; apply P_content_paths; assumption).
  reflexivity.
Qed.

(** * every rule gives the same answer *)
Theorem rules_perm sv j j' : jv_perm j j' -> forall r, In r rules -> r_check r sv j = r_check r sv j'.
Proof.
  intros Hj r Hr.
  pose proof (P_top_keys j j' Hj) as Ktop.
  pose proof (MP_keys _ _ (P_versions j j' Hj)) as Kver.
  pose proof (MP_keys _ _ (P_manifest j j' Hj)) as Kman.
  pose proof (MP_keys _ _ (P_fixity j j' Hj)) as Kfix.
  pose proof (P_vblocks j j' Hj) as Vb.
  assert (AB_eq : forall f g : jv -> bool, (forall x y, jv_perm x y -> f x = g y) -> all_blocks f j = all_blocks g j').
  { intros f g Hfg. unfold all_blocks. apply VP_forallb; assumption. }
  unfold rules in Hr. cbn [In] in Hr.
  repeat (destruct Hr as [<- | Hr]); [..|contradiction]; cbn [r_check R AB].
  - apply jv_perm_is_obj. assumption.
  - apply nodup_b_perm. assumption.
  - apply forallb_perm; [assumption | reflexivity].
  - apply VP_existsb; [apply P_tvals; assumption | intros x y H; apply jv_perm_jstr_sat; assumption].
  - apply VP_existsb; [apply P_tvals; assumption | intros x y H; apply jv_perm_jstr_is; assumption].
  - apply VP_existsb; [apply P_tvals; assumption | intros x y H; apply jv_perm_jstr_sat; assumption].
  - apply VP_existsb; [apply P_tvals; assumption|]. intros x y H.
    apply jv_perm_inv in H as [-> | [(l & l' & -> & -> & _) | (m & m' & -> & -> & _)]]; try reflexivity.
    destruct y; try reflexivity. cbn [jstr_sat]. apply head_ok_perm. assumption.
  - apply VP_forallb; [apply P_tvals; assumption | intros x y H; apply jv_perm_jstr_sat; assumption].
  - apply VP_existsb; [apply P_tvals; assumption | intros x y H; apply jv_perm_is_obj; assumption].
  - apply VP_existsb; [apply P_tvals; assumption|]. intros x y H. rewrite (jv_perm_is_obj x y H). f_equal. f_equal.
    pose proof (permR_length _ _ _ (jv_perm_omem x y H)) as Hl. destruct (omem x), (omem y); try reflexivity; discriminate Hl.
  - apply VP_forallb; [apply P_tvals; assumption | intros x y H; apply jv_perm_is_obj; assumption].
  - apply nodup_b_perm. assumption.
  - apply forallb_perm; [assumption | reflexivity].
  - apply vnums_ok_perm. assumption.
  - apply padding_ok_perm. assumption.
  - apply AB_eq. apply jv_perm_is_obj.
  - apply AB_eq. intros x y H. apply nodup_b_perm. apply MP_keys. apply jv_perm_omem. assumption.
  - apply AB_eq. intros x y H. apply forallb_perm; [apply MP_keys; apply jv_perm_omem; assumption | reflexivity].
  - apply AB_eq. intros x y H. apply VP_existsb; [apply MP_vals; apply jv_perm_omem; assumption | intros a c E; apply jv_perm_jstr_sat; assumption].
  - apply AB_eq. intros x y H. apply VP_existsb; [apply MP_vals; apply jv_perm_omem; assumption | apply jv_perm_is_obj].
  - apply AB_eq. intros x y H. apply VP_forallb; [apply MP_vals; apply jv_perm_omem; assumption | apply jv_perm_is_str].
  - apply AB_eq. intros x y H. apply VP_forallb; [apply MP_vals; apply jv_perm_omem; assumption | apply user_ok_perm].
  - apply AB_eq. intros x y H. apply forallb_perm; [apply MP_keys; apply P_state; assumption|]. intros d. apply mem_b_perm. assumption.
  - apply AB_eq. intros x y H. apply MP_forallb; [apply P_state; assumption|]. intros a c [_ E]. apply jv_perm_str_array_ok. assumption.
  - apply AB_eq. intros x y H. apply forallb_perm; [apply P_logical_paths; assumption | reflexivity].
  - apply AB_eq. intros x y H. apply nodup_b_perm. apply P_logical_paths. assumption.
  - apply AB_eq. intros x y H. apply prefix_free_perm. apply P_logical_paths. assumption.
  - apply nodup_b_perm. assumption.
  - apply nodup_b_perm. apply Permutation_map. assumption.
  - apply VP_forallb; [apply P_tvals; assumption|]. intros x y H.
    apply jv_perm_inv in H as [-> | [(l & l' & -> & -> & _) | (m & m' & -> & -> & _)]]; try reflexivity.
    destruct y; try reflexivity. f_equal. apply forallb_perm; [assumption | reflexivity].
  - apply MP_forallb; [apply P_manifest; assumption|]. intros a c [_ E]. apply jv_perm_str_array_ok. assumption.
  - apply forallb_perm; [apply P_content_paths; assumption | reflexivity].
  - apply nodup_b_perm. apply P_content_paths. assumption.
  - apply prefix_free_perm. apply P_content_paths. assumption.
  - apply forallb_perm; [assumption|]. intros d. apply VP_existsb; [assumption|]. intros x y H. apply mem_b_perm. apply MP_keys. apply P_state. assumption.
  - apply nodup_b_perm. assumption.
  - apply MP_forallb; [apply P_fixity; assumption|]. intros [a blk] [a' blk'] [E1 E2]. cbn [fst snd] in *. subst a'.
    apply fixity_block_ok_perm; assumption.
Qed.

Theorem inv_errors_perm sv j j' : jv_perm j j' -> inv_errors sv j = inv_errors sv j'.
Proof.
  intros H. unfold inv_errors. pose proof (rules_perm sv j j' H) as Hr. revert Hr. generalize rules. intros l Hl.
  induction l as [|r l IH]; [reflexivity|]. cbn [flat_map]. unfold rule_errors at 1 3.
  rewrite (Hl r (or_introl eq_refl)). f_equal. apply IH. intros r' Hr'. apply Hl. right. assumption.
Qed.

(** reordering the members of the inventory object itself, or of any block, is a [jv_perm] *)
Lemma jv_perm_top m m' : Permutation m m' -> jv_perm (JObj m) (JObj m').
Proof. intros H. apply jp_obj. apply (Permutation_permR _ mrel_refl). assumption. Qed.

Lemma jv_perm_member m1 k v v' m2 : jv_perm v v' -> jv_perm (JObj (m1 ++ (k, v) :: m2)) (JObj (m1 ++ (k, v') :: m2)).
Proof.
  intros H. apply jp_obj. apply (permR_app _ mrel_refl); [apply permR_refl; apply mrel_refl|].
  apply pr_skip; [split; [reflexivity | assumption] | apply permR_refl; apply mrel_refl].
Qed.
