(** C07 - the executable inventory checker of Model/Validate.v accepts exactly the
    documents that satisfy the declarative clauses of Model/ValidateSpec.v:
    [inv_errors sv j = [] <-> InvSpecOK sv j], for every JSON value [j]. *)
From Rocfl Require Import Base.Bytes Model.Json Model.JsonValue Model.Validate Model.ValidateSpec
  Proofs.BytesFacts Proofs.ValidateFacts Proofs.ValidateGrammar.
From Coq Require Import ZArith Lia ZifyBool ZifyN ZifyNat.
Open Scope N_scope.

(** * the rule list as a record of boolean facts *)
Record Checks (sv : spec_version) (j : jv) : Prop := {
  c_obj : is_obj j = true;
  c_top_dup : nodup_b (keys (omem j)) = true;
  c_top_keys : forallb (fun k => mem_b k top_keys) (keys (omem j)) = true;
  c_id : existsb (jstr_sat (fun s => negb (is_empty s))) (tvals K_id j) = true;
  c_type : existsb (jstr_is (type_uri sv)) (tvals K_type j) = true;
  c_alg : existsb (jstr_sat content_alg) (tvals K_alg j) = true;
  c_head : existsb (jstr_sat (head_ok (keys (versions_m j)))) (tvals K_head j) = true;
  c_cdir : forallb (jstr_sat cdir_ok) (tvals K_cdir j) = true;
  c_manifest : existsb is_obj (tvals K_manifest j) = true;
  c_versions : existsb (fun v => is_obj v && negb (nil_b (omem v))) (tvals K_versions j) = true;
  c_fixity : forallb is_obj (tvals K_fixity j) = true;
  c_vdup : nodup_b (keys (versions_m j)) = true;
  c_vnames : forallb vname_ok (keys (versions_m j)) = true;
  c_vnums : vnums_ok (keys (versions_m j)) = true;
  c_vpad : padding_ok (keys (versions_m j)) = true;
  c_vb_obj : all_blocks is_obj j = true;
  c_vb_dup : all_blocks (fun vb => nodup_b (keys (omem vb))) j = true;
  c_vb_keys : all_blocks (fun vb => forallb (fun k => mem_b k version_keys) (keys (omem vb))) j = true;
  c_created : all_blocks (fun vb => existsb (jstr_sat rfc3339_ok) (vals K_created (omem vb))) j = true;
  c_state : all_blocks (fun vb => existsb is_obj (vals K_state (omem vb))) j = true;
  c_message : all_blocks (fun vb => forallb is_str (vals K_message (omem vb))) j = true;
  c_user : all_blocks (fun vb => forallb user_ok (vals K_user (omem vb))) j = true;
  c_st_digests : all_blocks (fun vb => forallb (fun d => mem_b d (keys (manifest_m j))) (keys (state_m vb))) j = true;
  c_st_arrays : all_blocks (fun vb => forallb (fun dv => str_array_ok (snd dv)) (state_m vb)) j = true;
  c_lp_ok : all_blocks (fun vb => forallb path_ok (logical_paths vb)) j = true;
  c_lp_nodup : all_blocks (fun vb => nodup_b (logical_paths vb)) j = true;
  c_lp_free : all_blocks (fun vb => prefix_free (logical_paths vb)) j = true;
  c_m_dup : nodup_b (keys (manifest_m j)) = true;
  c_m_ci : nodup_b (map lower (keys (manifest_m j))) = true;
  c_m_hex : forallb (fun v => match v with
                              | JStr a => negb (content_alg a) || forallb (digest_ok a) (keys (manifest_m j))
                              | _ => true
                              end) (tvals K_alg j) = true;
  c_m_arrays : forallb (fun dv => str_array_ok (snd dv)) (manifest_m j) = true;
  c_cp_ok : forallb path_ok (content_paths j) = true;
  c_cp_nodup : nodup_b (content_paths j) = true;
  c_cp_free : prefix_free (content_paths j) = true;
  c_m_used : forallb (fun d => existsb (fun vb => mem_b d (keys (state_m vb))) (vblocks j)) (keys (manifest_m j)) = true;
  c_f_dup : nodup_b (keys (fixity_m j)) = true;
  c_f_blocks : forallb (fun ab => fixity_block_ok j (fst ab) (snd ab)) (fixity_m j) = true
}.

Lemma inv_errors_nil_iff sv j :
  inv_errors sv j = [] <-> Forall (fun r => r_check r sv j = true) rules.
Proof.
  unfold inv_errors. generalize rules. intros l. induction l as [|r l IH]; cbn [flat_map].
  - split; [constructor | reflexivity].
  - rewrite Forall_cons_iff, <- IH. unfold rule_errors at 1. destruct (r_check r sv j).
    + cbn [app]. tauto.
    + cbn [app]. split; [discriminate | intros [H _]; discriminate].
Qed.

Lemma checks_of_rules sv j : Forall (fun r => r_check r sv j = true) rules -> Checks sv j.
Proof.
  unfold rules. intros H.
  repeat (apply Forall_cons_iff in H; destruct H as [? H]).
  constructor; assumption.
Qed.

Lemma rules_of_checks sv j : Checks sv j -> Forall (fun r => r_check r sv j = true) rules.
Proof.
  intros C. unfold rules.
  repeat (apply Forall_cons; [first [apply (c_obj _ _ C) | apply (c_top_dup _ _ C) | apply (c_top_keys _ _ C) | apply (c_id _ _ C)
    | apply (c_type _ _ C) | apply (c_alg _ _ C) | apply (c_head _ _ C) | apply (c_cdir _ _ C) | apply (c_manifest _ _ C)
    | apply (c_versions _ _ C) | apply (c_fixity _ _ C) | apply (c_vdup _ _ C) | apply (c_vnames _ _ C) | apply (c_vnums _ _ C)
    | apply (c_vpad _ _ C) | apply (c_vb_obj _ _ C) | apply (c_vb_dup _ _ C) | apply (c_vb_keys _ _ C) | apply (c_created _ _ C)
    | apply (c_state _ _ C) | apply (c_message _ _ C) | apply (c_user _ _ C) | apply (c_st_digests _ _ C) | apply (c_st_arrays _ _ C)
    | apply (c_lp_ok _ _ C) | apply (c_lp_nodup _ _ C) | apply (c_lp_free _ _ C) | apply (c_m_dup _ _ C) | apply (c_m_ci _ _ C)
    | apply (c_m_hex _ _ C) | apply (c_m_arrays _ _ C) | apply (c_cp_ok _ _ C) | apply (c_cp_nodup _ _ C) | apply (c_cp_free _ _ C)
    | apply (c_m_used _ _ C) | apply (c_f_dup _ _ C) | apply (c_f_blocks _ _ C)] |]).
  constructor.
Qed.

(** * small reflection lemmas *)
Lemma jstr_sat_iff p v : jstr_sat p v = true <-> exists s, v = JStr s /\ p s = true.
Proof.
  destruct v; cbn [jstr_sat]; split; try discriminate; try (intros (s' & H & _); discriminate H).
  - intros H. exists s. split; [reflexivity | assumption].
  - intros (s' & H & Hp). injection H as <-. assumption.
Qed.

Lemma jstr_is_iff s v : jstr_is s v = true <-> v = JStr s.
Proof.
  destruct v; cbn [jstr_is]; split; try discriminate.
  - intros H. apply bytes_eqb_eq in H. now subst.
  - intros H. injection H as ->. apply bytes_eqb_refl.
Qed.

Lemma In_vals_omem vb k v : In v (vals k (omem vb)) <-> Has vb k v.
Proof. rewrite In_vals. apply In_omem. Qed.

Lemma all_blocks_iff f j : all_blocks f j = true <-> forall k vb, Ver j k vb -> f vb = true.
Proof.
  unfold all_blocks. rewrite forallb_forall. split.
  - intros H k vb Hv. apply H. apply In_vblocks. exists k. assumption.
  - intros H vb Hvb. apply In_vblocks in Hvb as (k & Hk). apply (H k). assumption.
Qed.

Lemma St_iff j k d v : St j k d v <-> exists vb, Ver j k vb /\ In (d, v) (state_m vb).
Proof.
  unfold St, StateOf. split.
  - intros (st & (vb & Hv & Hs) & Hd). exists vb. split; [assumption|]. apply In_state_m. exists st. split; assumption.
  - intros (vb & Hv & Hin). apply In_state_m in Hin as (st & Hs & Hd). exists st. split; [exists vb; split; assumption | assumption].
Qed.

Lemma keys_app {A} (x y : list (bytes * A)) : keys (x ++ y) = keys x ++ keys y.
Proof. unfold keys. apply map_app. Qed.

Lemma NoDup_app_parts {A} (x y : list A) : NoDup (x ++ y) -> NoDup x /\ NoDup y.
Proof.
  induction x as [|a x IH]; cbn [app]; intros H; [split; [constructor | assumption]|].
  inversion H as [|? ? Hna Hnd]; subst. destruct (IH Hnd) as [Hx Hy]. split; [|assumption].
  constructor; [|assumption]. intros Hin. apply Hna. apply in_or_app. left. assumption.
Qed.

Lemma NoDup_keys_part l x :
  In x l -> NoDup (keys (flat_map omem l)) -> NoDup (keys (omem x)).
Proof.
  induction l as [|a l IH]; intros Hin Hnd; [contradiction|]. cbn [flat_map] in Hnd. rewrite keys_app in Hnd.
  destruct Hin as [-> | Hin].
  - apply NoDup_app_parts in Hnd. apply Hnd.
  - apply IH; [assumption|]. apply NoDup_app_parts in Hnd. apply Hnd.
Qed.

Lemma vals_cases k m : NoDup (keys m) -> vals k m = [] \/ exists v, In (k, v) m /\ vals k m = [v].
Proof.
  intros Hnd. destruct (vals k m) as [|v r] eqn:E; [left; reflexivity|]. right.
  assert (Hin : In (k, v) m) by (apply In_vals; rewrite E; left; reflexivity).
  exists v. split; [assumption|]. rewrite <- E. apply vals_single; assumption.
Qed.

Lemma UniqueKeys_nodup j : UniqueKeys j -> NoDup (keys (omem j)).
Proof. intros H. apply nodup_b_NoDup. apply nodup_keys_iff. assumption. Qed.

(** the members of the single block stored under key [k] *)
Lemma block_cases j k :
  UniqueKeys j -> (flat_map omem (tvals k j) = [] /\ forall v, ~ Has j k v)
                  \/ (exists v, Has j k v /\ flat_map omem (tvals k j) = omem v).
Proof.
  intros Hu. unfold tvals. destruct (vals_cases k (omem j) (UniqueKeys_nodup j Hu)) as [E | (v & Hin & E)].
  - left. rewrite E. split; [reflexivity|]. intros v Hv. apply In_tvals in Hv. unfold tvals in Hv. rewrite E in Hv. contradiction.
  - right. exists v. split; [apply In_omem; assumption|]. rewrite E. cbn [flat_map]. apply app_nil_r.
Qed.

Lemma block_single j k v : UniqueKeys j -> Has j k v -> flat_map omem (tvals k j) = omem v.
Proof.
  intros Hu Hv. destruct (block_cases j k Hu) as [[_ Hn] | (v' & Hv' & E)].
  - exfalso. apply (Hn v). assumption.
  - rewrite E. now rewrite (Has_fun j k v v' Hu Hv Hv').
Qed.

Lemma state_m_single vb st : UniqueKeys vb -> Has vb K_state st -> state_m vb = omem st.
Proof. intros Hu Hs. unfold state_m. apply (block_single vb K_state st Hu Hs). Qed.

Lemma omem_obj m : omem (JObj m) = m.
Proof. reflexivity. Qed.

Lemma map_lower_keys (m : list (bytes * jv)) : map lower (keys m) = map (fun dv => lower (fst dv)) m.
Proof. unfold keys. apply map_map. Qed.

Lemma user_ok_iff u :
  user_ok u = true <->
  (IsObj u /\ UniqueKeys u /\ KeysAmong u [K_name; K_address]
   /\ (exists n, Has u K_name (JStr n)) /\ (forall a, Has u K_address a -> IsStr a)).
Proof.
  unfold user_ok. rewrite !andb_true_iff, is_obj_iff, nodup_keys_iff.
  change user_keys with [K_name; K_address]. rewrite keys_among_iff.
  rewrite existsb_exists, forallb_forall. split.
  - intros ((((H1 & H2) & H3) & (v & Hv & Hs)) & H5). repeat split; try assumption.
    + apply is_str_iff in Hs as (n & ->). exists n. apply In_vals_omem. assumption.
    + intros a Ha. apply is_str_iff. apply H5. apply In_vals_omem. assumption.
  - intros (H1 & H2 & H3 & (n & Hn) & H5). repeat split; try assumption.
    + exists (JStr n). split; [apply In_vals_omem; assumption | reflexivity].
    + intros a Ha. apply is_str_iff. apply H5. apply In_vals_omem. assumption.
Qed.

Lemma IsContentPath_iff j p :
  forallb (fun dv => str_array_ok (snd dv)) (manifest_m j) = true ->
  (In p (content_paths j) <-> IsContentPath j p).
Proof.
  intros Harr. unfold content_paths, IsContentPath. rewrite In_paths_of. split.
  - intros (d & v & Hin & Hp). rewrite forallb_forall in Harr. specialize (Harr (d, v) Hin). cbn [snd] in Harr.
    apply str_array_ok_iff in Harr as (l & Hl). exists d, v, l. split; [apply Man_iff; assumption|]. split; [assumption|].
    now rewrite <- (proj1 (str_array_strs v l Hl)).
  - intros (d & v & l & Hm & Hl & Hp). exists d, v. split; [apply Man_iff; assumption|]. now rewrite (proj1 (str_array_strs v l Hl)).
Qed.

Lemma fixity_block_ok_iff j a blk :
  forallb (fun dv => str_array_ok (snd dv)) (manifest_m j) = true ->
  (fixity_block_ok j a blk = true <->
   (IsObj blk
    /\ (forall m, blk = JObj m -> NoDup (map (fun dv => lower (fst dv)) m))
    /\ (forall d v, Has blk d v -> DigestFor a d /\ exists l, StrArray v l /\ forall p, In p l -> PathOK p /\ IsContentPath j p)
    /\ (forall m ps, blk = JObj m -> AllPaths m ps -> NoDup ps))).
Proof.
  intros Harr. unfold fixity_block_ok. rewrite !andb_true_iff, is_obj_iff, !nodup_b_NoDup, !forallb_forall. split.
  - intros (((((((H1 & H2) & H3) & H4) & H5) & H6) & H7) & H8). split; [assumption|]. split; [|split].
    + intros m ->. rewrite omem_obj in H3. now rewrite <- map_lower_keys.
    + intros d v Hdv. apply In_omem in Hdv. split.
      * apply digest_ok_iff. apply H4. apply In_keys. exists v. assumption.
      * specialize (H5 (d, v) Hdv). cbn [snd] in H5. apply str_array_ok_iff in H5 as (l & Hl). exists l. split; [assumption|].
        intros p Hp. assert (Hin : In p (paths_of (omem blk))).
        { apply In_paths_of. exists d, v. split; [assumption|]. now rewrite (proj1 (str_array_strs v l Hl)). }
        split; [apply path_ok_iff; apply H6; assumption | apply IsContentPath_iff; [assumption | apply mem_b_In; apply H8; assumption]].
    + intros m ps -> Hap. rewrite omem_obj in H7. destruct (AllPaths_fun m ps Hap) as [-> _]. assumption.
  - intros (H1 & H2 & H3 & H4). destruct H1 as (m & ->). rewrite !omem_obj.
    assert (Hall : forallb (fun dv => str_array_ok (snd dv)) m = true).
    { apply forallb_forall. intros [d v] Hin. cbn [snd]. destruct (H3 d v) as (_ & l & Hl & _); [exists m; split; [reflexivity | assumption]|].
      apply str_array_ok_iff. exists l. assumption. }
    assert (Hnd : NoDup (map lower (keys m))) by (rewrite map_lower_keys; apply H2; reflexivity).
    repeat split.
    + exists m. reflexivity.
    + apply (NoDup_map_inv lower). assumption.
    + assumption.
    + intros d Hd. apply In_keys in Hd as (v & Hin). apply digest_ok_iff. apply (H3 d v). exists m. split; [reflexivity | assumption].
    + rewrite forallb_forall in Hall. assumption.
    + intros p Hp. apply In_paths_of in Hp as (d & v & Hin & Hp). destruct (H3 d v) as (_ & l & Hl & Hpl); [exists m; split; [reflexivity | assumption]|].
      rewrite (proj1 (str_array_strs v l Hl)) in Hp. apply path_ok_iff. apply Hpl. assumption.
    + apply (H4 m (paths_of m) eq_refl). apply AllPaths_paths_of. assumption.
    + intros p Hp. apply In_paths_of in Hp as (d & v & Hin & Hp). destruct (H3 d v) as (_ & l & Hl & Hpl); [exists m; split; [reflexivity | assumption]|].
      rewrite (proj1 (str_array_strs v l Hl)) in Hp. apply mem_b_In. apply IsContentPath_iff; [assumption | apply Hpl; assumption].
Qed.

(** * from the checks to the clauses *)
Section Sound.
Variable sv : spec_version.
Variable j : jv.
Hypothesis C : Checks sv j.

Let Utop : UniqueKeys j.
Proof. apply nodup_keys_iff. apply (c_top_dup _ _ C). Qed.

Lemma ver_key k vb : Ver j k vb -> In k (keys (versions_m j)).
Proof. intros H. apply In_keys. exists vb. apply Ver_iff. assumption. Qed.

Lemma key_ver k : In k (keys (versions_m j)) -> exists vb, Ver j k vb.
Proof. intros H. apply In_keys in H as (vb & H). exists vb. apply Ver_iff. assumption. Qed.

Lemma ver_number k vb : Ver j k vb -> VersionNumber k (vnum0 k) /\ 1 <= vnum0 k.
Proof.
  intros H. pose proof (c_vnames _ _ C) as Hn. rewrite forallb_forall in Hn. specialize (Hn k (ver_key k vb H)).
  apply vname_ok_iff in Hn as (n & Hn & H1). rewrite (vnum0_of k n Hn). split; assumption.
Qed.

Lemma ver_unique k vb : Ver j k vb -> UniqueKeys vb.
Proof.
  intros H. pose proof (c_vb_dup _ _ C) as Hd. rewrite all_blocks_iff in Hd. apply nodup_keys_iff. apply (Hd k). assumption.
Qed.

Lemma sound_object : S_object j.
Proof. apply is_obj_iff. apply (c_obj _ _ C). Qed.

Lemma sound_top_known : S_top_known j.
Proof. apply keys_among_iff. apply (c_top_keys _ _ C). Qed.

Lemma sound_id : S_id j.
Proof.
  pose proof (c_id _ _ C) as H. apply existsb_exists in H as (v & Hv & Hs). apply jstr_sat_iff in Hs as (s & -> & Hs).
  exists s. split; [apply In_tvals; assumption|]. apply negb_true in Hs. rewrite is_empty_iff in Hs. assumption.
Qed.

Lemma sound_type : S_type sv j.
Proof.
  pose proof (c_type _ _ C) as H. apply existsb_exists in H as (v & Hv & Hs). apply jstr_is_iff in Hs. subst v. apply In_tvals. assumption.
Qed.

Lemma sound_alg : S_alg j.
Proof.
  pose proof (c_alg _ _ C) as H. apply existsb_exists in H as (v & Hv & Hs). apply jstr_sat_iff in Hs as (a & -> & Ha).
  exists a. split; [apply In_tvals; assumption | apply content_alg_iff; assumption].
Qed.

Lemma sound_head : S_head j.
Proof.
  pose proof (c_head _ _ C) as H. apply existsb_exists in H as (v & Hv & Hs). apply jstr_sat_iff in Hs as (h & -> & Hh).
  unfold head_ok in Hh. apply andb_true_iff in Hh as [Hm Hle]. apply mem_b_In in Hm. destruct (key_ver h Hm) as (vb & Hvb).
  exists h, (vnum0 h), vb. split; [apply In_tvals; assumption|]. split; [assumption|]. split; [apply (ver_number h vb Hvb)|].
  intros k vb' n Hk Hn. rewrite forallb_forall in Hle. specialize (Hle k (ver_key k vb' Hk)).
  rewrite (vnum0_of k n Hn) in Hle. lia.
Qed.

Lemma sound_cdir : S_cdir j.
Proof.
  intros v Hv. pose proof (c_cdir _ _ C) as H. rewrite forallb_forall in H. specialize (H v (proj2 (In_tvals j K_cdir v) Hv)).
  apply jstr_sat_iff in H as (s & -> & Hs). exists s. split; [reflexivity | apply cdir_ok_iff; assumption].
Qed.

Lemma sound_manifest : S_manifest j.
Proof.
  pose proof (c_manifest _ _ C) as H. apply existsb_exists in H as (v & Hv & Hs). exists v. split; [apply In_tvals; assumption | apply is_obj_iff; assumption].
Qed.

Lemma sound_versions : S_versions j.
Proof.
  pose proof (c_versions _ _ C) as H. apply existsb_exists in H as (v & Hv & Hs). apply andb_true_iff in Hs as [Ho Hne].
  destruct v as [| | | | |m]; try discriminate Ho. cbn [omem] in Hne. destruct m as [|[k vb] m]; [discriminate Hne|].
  exists (JObj ((k, vb) :: m)), k, vb. split; [apply In_tvals; assumption|]. exists ((k, vb) :: m). split; [reflexivity | left; reflexivity].
Qed.

Lemma sound_versions_obj : S_versions_obj j.
Proof.
  intros vs Hvs. destruct sound_versions as (vs0 & k & vb & H0 & Hk). rewrite (Has_fun j K_versions vs vs0 Utop Hvs H0).
  split; [destruct Hk as (m & -> & _); exists m; reflexivity|].
  apply nodup_keys_iff. apply nodup_b_NoDup. apply (NoDup_keys_part (tvals K_versions j)); [apply In_tvals; assumption|].
  apply nodup_b_NoDup. apply (c_vdup _ _ C).
Qed.

Lemma sound_fixity : S_fixity j.
Proof.
  intros fv Hfv. split.
  - apply is_obj_iff. pose proof (c_fixity _ _ C) as H. rewrite forallb_forall in H. apply H. apply In_tvals. assumption.
  - apply nodup_keys_iff. apply nodup_b_NoDup. apply (NoDup_keys_part (tvals K_fixity j)); [apply In_tvals; assumption|].
    apply nodup_b_NoDup. apply (c_f_dup _ _ C).
Qed.

Lemma sound_vnames : S_vnames j.
Proof. intros k vb H. exists (vnum0 k). apply (ver_number k vb H). Qed.

Lemma vnums_facts :
  (forall k n m, In k (keys (versions_m j)) -> VersionNumber k n -> 1 <= m < n -> exists k', In k' (keys (versions_m j)) /\ VersionNumber k' m)
  /\ (forall k k' n, In k (keys (versions_m j)) -> In k' (keys (versions_m j)) -> VersionNumber k n -> VersionNumber k' n -> k = k').
Proof.
  apply vnums_ok_iff.
  - apply nodup_b_NoDup. apply (c_vdup _ _ C).
  - intros k Hk. destruct (key_ver k Hk) as (vb & Hvb). exists (vnum0 k). apply (ver_number k vb Hvb).
  - apply (c_vnums _ _ C).
Qed.

Lemma sound_vcontiguous : S_vcontiguous j.
Proof.
  destruct vnums_facts as [H1 H2]. split.
  - intros k vb n m Hk Hn Hm. destruct (H1 k n m (ver_key k vb Hk) Hn Hm) as (k' & Hk' & Hm'). destruct (key_ver k' Hk') as (vb' & Hvb').
    exists k', vb'. split; assumption.
  - intros k vb k' vb' n Hk Hk' Hn Hn'. apply (H2 k k' n); try assumption; [apply (ver_key k vb Hk) | apply (ver_key k' vb' Hk')].
Qed.

Lemma sound_vpadding : S_vpadding j.
Proof.
  pose proof (c_vpad _ _ C) as H. apply padding_ok_iff in H as [H | (w & H)].
  - left. intros k vb Hk. apply H. apply (ver_key k vb Hk).
  - right. exists w. intros k vb Hk. apply H. apply (ver_key k vb Hk).
Qed.

Lemma sound_vblock : S_vblock j.
Proof.
  intros k vb Hk. split; [|split].
  - apply is_obj_iff. pose proof (c_vb_obj _ _ C) as H. rewrite all_blocks_iff in H. apply (H k). assumption.
  - apply (ver_unique k vb Hk).
  - apply keys_among_iff. pose proof (c_vb_keys _ _ C) as H. rewrite all_blocks_iff in H. apply (H k). assumption.
Qed.

Lemma sound_created : S_created j.
Proof.
  intros k vb Hk. pose proof (c_created _ _ C) as H. rewrite all_blocks_iff in H. specialize (H k vb Hk).
  apply existsb_exists in H as (v & Hv & Hs). apply jstr_sat_iff in Hs as (c & -> & Hc).
  exists c. split; [apply In_vals_omem; assumption | apply rfc3339_ok_iff; assumption].
Qed.

Lemma sound_state : S_state j.
Proof.
  intros k vb Hk. pose proof (c_state _ _ C) as H. rewrite all_blocks_iff in H. specialize (H k vb Hk).
  apply existsb_exists in H as (v & Hv & Hs). exists v. split; [apply In_vals_omem; assumption | apply is_obj_iff; assumption].
Qed.

Lemma sound_message : S_message j.
Proof.
  intros k vb v Hk Hv. pose proof (c_message _ _ C) as H. rewrite all_blocks_iff in H. specialize (H k vb Hk).
  rewrite forallb_forall in H. apply is_str_iff. apply H. apply In_vals_omem. assumption.
Qed.

Lemma sound_user : S_user j.
Proof.
  intros k vb u Hk Hu. pose proof (c_user _ _ C) as H. rewrite all_blocks_iff in H. specialize (H k vb Hk).
  rewrite forallb_forall in H. apply user_ok_iff. apply H. apply In_vals_omem. assumption.
Qed.

Lemma sound_state_digests : S_state_digests j.
Proof.
  intros k d v Hs. apply St_iff in Hs as (vb & Hk & Hin). pose proof (c_st_digests _ _ C) as H. rewrite all_blocks_iff in H.
  specialize (H k vb Hk). rewrite forallb_forall in H. specialize (H d (proj2 (In_keys (state_m vb) d) (ex_intro _ v Hin))).
  apply mem_b_In in H. apply In_keys in H as (pv & Hpv). exists pv. apply Man_iff. assumption.
Qed.

Lemma sound_state_arrays : S_state_arrays j.
Proof.
  intros k d v Hs. apply St_iff in Hs as (vb & Hk & Hin). pose proof (c_st_arrays _ _ C) as H. rewrite all_blocks_iff in H.
  specialize (H k vb Hk). rewrite forallb_forall in H. specialize (H (d, v) Hin). apply str_array_ok_iff. assumption.
Qed.

Lemma sound_lpaths : S_lpaths j.
Proof.
  intros k d v l p Hs Hl Hp. apply St_iff in Hs as (vb & Hk & Hin). pose proof (c_lp_ok _ _ C) as H. rewrite all_blocks_iff in H.
  specialize (H k vb Hk). rewrite forallb_forall in H. apply path_ok_iff. apply H. unfold logical_paths. apply In_paths_of.
  exists d, v. split; [assumption|]. now rewrite (proj1 (str_array_strs v l Hl)).
Qed.

Lemma sound_lpaths_unique : S_lpaths_unique j.
Proof.
  intros k st m ps (vb & Hk & Hst) -> Hap.
  assert (E : logical_paths vb = ps).
  { unfold logical_paths. rewrite (state_m_single vb (JObj m) (ver_unique k vb Hk) Hst), omem_obj. symmetry. apply (AllPaths_fun m ps Hap). }
  split.
  - rewrite <- E. apply nodup_b_NoDup. pose proof (c_lp_nodup _ _ C) as H. rewrite all_blocks_iff in H. apply (H k). assumption.
  - rewrite <- E. apply prefix_free_iff. pose proof (c_lp_free _ _ C) as H. rewrite all_blocks_iff in H. apply (H k). assumption.
Qed.

Lemma manifest_members mv m : Has j K_manifest mv -> mv = JObj m -> manifest_m j = m.
Proof. intros H ->. unfold manifest_m. now rewrite (block_single j K_manifest (JObj m) Utop H). Qed.

Lemma sound_man_once : S_man_once j.
Proof.
  intros mv m Hmv E. rewrite <- map_lower_keys, <- (manifest_members mv m Hmv E). apply nodup_b_NoDup. apply (c_m_ci _ _ C).
Qed.

Lemma sound_man_digests : S_man_digests j.
Proof.
  intros a d v Ha Hc Hm. pose proof (c_m_hex _ _ C) as H. rewrite forallb_forall in H. specialize (H (JStr a) (proj2 (In_tvals j K_alg (JStr a)) Ha)).
  cbv beta iota in H. apply content_alg_iff in Hc. rewrite Hc in H. cbn [negb orb] in H. rewrite forallb_forall in H.
  apply digest_ok_iff. apply H. apply In_keys. exists v. apply Man_iff. assumption.
Qed.

Lemma sound_man_arrays : S_man_arrays j.
Proof.
  intros d v Hm. pose proof (c_m_arrays _ _ C) as H. rewrite forallb_forall in H. apply str_array_ok_iff. apply (H (d, v)). apply Man_iff. assumption.
Qed.

Lemma sound_cpaths : S_cpaths j.
Proof.
  intros d v l p Hm Hl Hp. pose proof (c_cp_ok _ _ C) as H. rewrite forallb_forall in H. apply path_ok_iff. apply H.
  unfold content_paths. apply In_paths_of. exists d, v. split; [apply Man_iff; assumption|]. now rewrite (proj1 (str_array_strs v l Hl)).
Qed.

Lemma sound_cpaths_unique : S_cpaths_unique j.
Proof.
  intros mv m ps Hmv E Hap.
  assert (E2 : content_paths j = ps).
  { unfold content_paths. rewrite (manifest_members mv m Hmv E). symmetry. apply (AllPaths_fun m ps Hap). }
  rewrite <- E2. split; [apply nodup_b_NoDup; apply (c_cp_nodup _ _ C) | apply prefix_free_iff; apply (c_cp_free _ _ C)].
Qed.

Lemma sound_man_used : S_man_used j.
Proof.
  intros d v Hm. pose proof (c_m_used _ _ C) as H. rewrite forallb_forall in H.
  specialize (H d (proj2 (In_keys (manifest_m j) d) (ex_intro _ v (proj2 (Man_iff j d v) Hm)))).
  apply existsb_exists in H as (vb & Hvb & Hd). apply In_vblocks in Hvb as (k & Hk). apply mem_b_In in Hd. apply In_keys in Hd as (v' & Hv').
  exists k, v'. apply St_iff. exists vb. split; assumption.
Qed.

Lemma sound_fixity_blocks : S_fixity_blocks j.
Proof.
  intros a blk Hf. pose proof (c_f_blocks _ _ C) as H. rewrite forallb_forall in H. specialize (H (a, blk) (proj2 (Fix_iff j a blk) Hf)).
  cbn [fst snd] in H. apply (fixity_block_ok_iff j a blk (c_m_arrays _ _ C)). assumption.
Qed.

Theorem checks_sound : InvSpecOK sv j.
Proof.
  unfold InvSpecOK.
  split; [exact sound_object|].
  split; [exact Utop|].
  split; [exact sound_top_known|].
  split; [exact sound_id|].
  split; [exact sound_type|].
  split; [exact sound_alg|].
  split; [exact sound_head|].
  split; [exact sound_cdir|].
  split; [exact sound_manifest|].
  split; [exact sound_versions|].
  split; [exact sound_versions_obj|].
  split; [exact sound_fixity|].
  split; [exact sound_vnames|].
  split; [exact sound_vcontiguous|].
  split; [exact sound_vpadding|].
  split; [exact sound_vblock|].
  split; [exact sound_created|].
  split; [exact sound_state|].
  split; [exact sound_message|].
  split; [exact sound_user|].
  split; [exact sound_state_digests|].
  split; [exact sound_state_arrays|].
  split; [exact sound_lpaths|].
  split; [exact sound_lpaths_unique|].
  split; [exact sound_man_once|].
  split; [exact sound_man_digests|].
  split; [exact sound_man_arrays|].
  split; [exact sound_cpaths|].
  split; [exact sound_cpaths_unique|].
  split; [exact sound_man_used|].
  exact sound_fixity_blocks.
Qed.
End Sound.

(** * from the clauses to the checks *)
Section Complete.
Variable sv : spec_version.
Variable j : jv.
Hypothesis S : InvSpecOK sv j.

Let P_object : S_object j := (proj1 S).
Let P_top_once : S_top_once j := (proj1 (proj2 S)).
Let P_top_known : S_top_known j := (proj1 (proj2 (proj2 S))).
Let P_id : S_id j := (proj1 (proj2 (proj2 (proj2 S)))).
Let P_type : S_type sv j := (proj1 (proj2 (proj2 (proj2 (proj2 S))))).
Let P_alg : S_alg j := (proj1 (proj2 (proj2 (proj2 (proj2 (proj2 S)))))).
Let P_head : S_head j := (proj1 (proj2 (proj2 (proj2 (proj2 (proj2 (proj2 S))))))).
Let P_cdir : S_cdir j := (proj1 (proj2 (proj2 (proj2 (proj2 (proj2 (proj2 (proj2 S)))))))).
Let P_manifest : S_manifest j := (proj1 (proj2 (proj2 (proj2 (proj2 (proj2 (proj2 (proj2 (proj2 S))))))))).
Let P_versions : S_versions j := (proj1 (proj2 (proj2 (proj2 (proj2 (proj2 (proj2 (proj2 (proj2 (proj2 S)))))))))).
Let P_versions_obj : S_versions_obj j := (proj1 (proj2 (proj2 (proj2 (proj2 (proj2 (proj2 (proj2 (proj2 (proj2 (proj2 S))))))))))).
Let P_fixity : S_fixity j := (proj1 (proj2 (proj2 (proj2 (proj2 (proj2 (proj2 (proj2 (proj2 (proj2 (proj2 (proj2 S)))))))))))).
Let P_vnames : S_vnames j := (proj1 (proj2 (proj2 (proj2 (proj2 (proj2 (proj2 (proj2 (proj2 (proj2 (proj2 (proj2 (proj2 S))))))))))))).
Let P_vcontiguous : S_vcontiguous j := (proj1 (proj2 (proj2 (proj2 (proj2 (proj2 (proj2 (proj2 (proj2 (proj2 (proj2 (proj2 (proj2 (proj2 S)))))))))))))).
Let P_vpadding : S_vpadding j := (proj1 (proj2 (proj2 (proj2 (proj2 (proj2 (proj2 (proj2 (proj2 (proj2 (proj2 (proj2 (proj2 (proj2 (proj2 S))))))))))))))).
Let P_vblock : S_vblock j := (proj1 (proj2 (proj2 (proj2 (proj2 (proj2 (proj2 (proj2 (proj2 (proj2 (proj2 (proj2 (proj2 (proj2 (proj2 (proj2 S)))))))))))))))).
Let P_created : S_created j := (proj1 (proj2 (proj2 (proj2 (proj2 (proj2 (proj2 (proj2 (proj2 (proj2 (proj2 (proj2 (proj2 (proj2 (proj2 (proj2 (proj2 S))))))))))))))))).
Let P_state : S_state j := (proj1 (proj2 (proj2 (proj2 (proj2 (proj2 (proj2 (proj2 (proj2 (proj2 (proj2 (proj2 (proj2 (proj2 (proj2 (proj2 (proj2 (proj2 S)))))))))))))))))).
Let P_message : S_message j := (proj1 (proj2 (proj2 (proj2 (proj2 (proj2 (proj2 (proj2 (proj2 (proj2 (proj2 (proj2 (proj2 (proj2 (proj2 (proj2 (proj2 (proj2 (proj2 S))))))))))))))))))).
Let P_user : S_user j := (proj1 (proj2 (proj2 (proj2 (proj2 (proj2 (proj2 (proj2 (proj2 (proj2 (proj2 (proj2 (proj2 (proj2 (proj2 (proj2 (proj2 (proj2 (proj2 (proj2 S)))))))))))))))))))).
Let P_state_digests : S_state_digests j := (proj1 (proj2 (proj2 (proj2 (proj2 (proj2 (proj2 (proj2 (proj2 (proj2 (proj2 (proj2 (proj2 (proj2 (proj2 (proj2 (proj2 (proj2 (proj2 (proj2 (proj2 S))))))))))))))))))))).
Let P_state_arrays : S_state_arrays j := (proj1 (proj2 (proj2 (proj2 (proj2 (proj2 (proj2 (proj2 (proj2 (proj2 (proj2 (proj2 (proj2 (proj2 (proj2 (proj2 (proj2 (proj2 (proj2 (proj2 (proj2 (proj2 S)))))))))))))))))))))).
Let P_lpaths : S_lpaths j := (proj1 (proj2 (proj2 (proj2 (proj2 (proj2 (proj2 (proj2 (proj2 (proj2 (proj2 (proj2 (proj2 (proj2 (proj2 (proj2 (proj2 (proj2 (proj2 (proj2 (proj2 (proj2 (proj2 S))))))))))))))))))))))).
Let P_lpaths_unique : S_lpaths_unique j := (proj1 (proj2 (proj2 (proj2 (proj2 (proj2 (proj2 (proj2 (proj2 (proj2 (proj2 (proj2 (proj2 (proj2 (proj2 (proj2 (proj2 (proj2 (proj2 (proj2 (proj2 (proj2 (proj2 (proj2 S)))))))))))))))))))))))).
Let P_man_once : S_man_once j := (proj1 (proj2 (proj2 (proj2 (proj2 (proj2 (proj2 (proj2 (proj2 (proj2 (proj2 (proj2 (proj2 (proj2 (proj2 (proj2 (proj2 (proj2 (proj2 (proj2 (proj2 (proj2 (proj2 (proj2 (proj2 S))))))))))))))))))))))))).
Let P_man_digests : S_man_digests j := (proj1 (proj2 (proj2 (proj2 (proj2 (proj2 (proj2 (proj2 (proj2 (proj2 (proj2 (proj2 (proj2 (proj2 (proj2 (proj2 (proj2 (proj2 (proj2 (proj2 (proj2 (proj2 (proj2 (proj2 (proj2 (proj2 S)))))))))))))))))))))))))).
Let P_man_arrays : S_man_arrays j := (proj1 (proj2 (proj2 (proj2 (proj2 (proj2 (proj2 (proj2 (proj2 (proj2 (proj2 (proj2 (proj2 (proj2 (proj2 (proj2 (proj2 (proj2 (proj2 (proj2 (proj2 (proj2 (proj2 (proj2 (proj2 (proj2 (proj2 S))))))))))))))))))))))))))).
Let P_cpaths : S_cpaths j := (proj1 (proj2 (proj2 (proj2 (proj2 (proj2 (proj2 (proj2 (proj2 (proj2 (proj2 (proj2 (proj2 (proj2 (proj2 (proj2 (proj2 (proj2 (proj2 (proj2 (proj2 (proj2 (proj2 (proj2 (proj2 (proj2 (proj2 (proj2 S)))))))))))))))))))))))))))).
Let P_cpaths_unique : S_cpaths_unique j := (proj1 (proj2 (proj2 (proj2 (proj2 (proj2 (proj2 (proj2 (proj2 (proj2 (proj2 (proj2 (proj2 (proj2 (proj2 (proj2 (proj2 (proj2 (proj2 (proj2 (proj2 (proj2 (proj2 (proj2 (proj2 (proj2 (proj2 (proj2 (proj2 S))))))))))))))))))))))))))))).
Let P_man_used : S_man_used j := (proj1 (proj2 (proj2 (proj2 (proj2 (proj2 (proj2 (proj2 (proj2 (proj2 (proj2 (proj2 (proj2 (proj2 (proj2 (proj2 (proj2 (proj2 (proj2 (proj2 (proj2 (proj2 (proj2 (proj2 (proj2 (proj2 (proj2 (proj2 (proj2 (proj2 S)))))))))))))))))))))))))))))).
Let P_fixity_blocks : S_fixity_blocks j := (proj2 (proj2 (proj2 (proj2 (proj2 (proj2 (proj2 (proj2 (proj2 (proj2 (proj2 (proj2 (proj2 (proj2 (proj2 (proj2 (proj2 (proj2 (proj2 (proj2 (proj2 (proj2 (proj2 (proj2 (proj2 (proj2 (proj2 (proj2 (proj2 (proj2 S)))))))))))))))))))))))))))))).

(** the members of the versions / manifest / fixity block *)
Lemma c_versions_members : exists vm, Has j K_versions (JObj vm) /\ versions_m j = vm /\ NoDup (keys vm) /\ vm <> [].
Proof.
  destruct P_versions as (vs & k & vb & Hvs & Hk). destruct (P_versions_obj vs Hvs) as [(vm & ->) Hu].
  exists vm. split; [assumption|]. split; [unfold versions_m; now rewrite (block_single j K_versions (JObj vm) P_top_once Hvs)|].
  split; [apply (UniqueKeys_nodup (JObj vm) Hu)|]. destruct Hk as (m & E & Hin). injection E as <-. intros ->. contradiction.
Qed.

Lemma c_manifest_members : exists mm, Has j K_manifest (JObj mm) /\ manifest_m j = mm.
Proof.
  destruct P_manifest as (mv & Hmv & (mm & ->)). exists mm. split; [assumption|].
  unfold manifest_m. now rewrite (block_single j K_manifest (JObj mm) P_top_once Hmv).
Qed.

Lemma ver_key' k vb : Ver j k vb -> In k (keys (versions_m j)).
Proof. intros H. apply In_keys. exists vb. apply Ver_iff. assumption. Qed.

Lemma key_ver' k : In k (keys (versions_m j)) -> exists vb, Ver j k vb.
Proof. intros H. apply In_keys in H as (vb & H). exists vb. apply Ver_iff. assumption. Qed.

Lemma ver_number' k vb : Ver j k vb -> VersionNumber k (vnum0 k) /\ 1 <= vnum0 k.
Proof. intros H. destruct (P_vnames k vb H) as (n & Hn & H1). rewrite (vnum0_of k n Hn). split; assumption. Qed.

(** the members of the state block of a version *)
Lemma state_members k vb : Ver j k vb -> exists sm, Has vb K_state (JObj sm) /\ state_m vb = sm.
Proof.
  intros Hk. destruct (P_state k vb Hk) as (st & Hst & (sm & ->)). exists sm. split; [assumption|].
  destruct (P_vblock k vb Hk) as (_ & Hu & _). now rewrite (state_m_single vb (JObj sm) Hu Hst).
Qed.

Lemma state_arrays_ok k vb : Ver j k vb -> forallb (fun dv => str_array_ok (snd dv)) (state_m vb) = true.
Proof.
  intros Hk. apply forallb_forall. intros [d v] Hin. cbn [snd]. apply str_array_ok_iff. apply (P_state_arrays k d v).
  apply St_iff. exists vb. split; assumption.
Qed.

Lemma manifest_arrays_ok : forallb (fun dv => str_array_ok (snd dv)) (manifest_m j) = true.
Proof.
  apply forallb_forall. intros [d v] Hin. cbn [snd]. apply str_array_ok_iff. apply (P_man_arrays d v). apply Man_iff. assumption.
Qed.

Lemma lpaths_facts k vb : Ver j k vb ->
  NoDup (logical_paths vb) /\ forall p q, In p (logical_paths vb) -> In q (logical_paths vb) -> ~ PrefixOf p q.
Proof.
  intros Hk. destruct (state_members k vb Hk) as (sm & Hst & E). unfold logical_paths. rewrite E.
  apply (P_lpaths_unique k (JObj sm) sm (paths_of sm)); [exists vb; split; assumption | reflexivity|].
  apply AllPaths_paths_of. rewrite <- E. apply (state_arrays_ok k vb Hk).
Qed.

Lemma cpaths_facts :
  NoDup (content_paths j) /\ forall p q, In p (content_paths j) -> In q (content_paths j) -> ~ PrefixOf p q.
Proof.
  destruct c_manifest_members as (mm & Hmm & E). unfold content_paths. rewrite E.
  apply (P_cpaths_unique (JObj mm) mm (paths_of mm) Hmm eq_refl). apply AllPaths_paths_of. rewrite <- E. apply manifest_arrays_ok.
Qed.

Theorem checks_complete : Checks sv j.
Proof.
  constructor.
  - (* c_obj *) apply is_obj_iff. exact P_object.
  - (* c_top_dup *) apply nodup_keys_iff. exact P_top_once.
  - (* c_top_keys *) apply keys_among_iff. exact P_top_known.
  - (* c_id *) destruct P_id as (s & Hs & Hne). apply existsb_exists. exists (JStr s). split; [apply In_tvals; assumption|].
    apply jstr_sat_iff. exists s. split; [reflexivity|]. apply negb_true. rewrite is_empty_iff. assumption.
  - (* c_type *) apply existsb_exists. exists (JStr (type_uri sv)). split; [apply In_tvals; exact P_type | apply jstr_is_iff; reflexivity].
  - (* c_alg *) destruct P_alg as (a & Ha & Hc). apply existsb_exists. exists (JStr a). split; [apply In_tvals; assumption|].
    apply jstr_sat_iff. exists a. split; [reflexivity | apply content_alg_iff; assumption].
  - (* c_head *) destruct P_head as (h & hn & vb & Hh & Hvb & Hn & Hmax). apply existsb_exists. exists (JStr h). split; [apply In_tvals; assumption|].
    apply jstr_sat_iff. exists h. split; [reflexivity|]. unfold head_ok. apply andb_true_iff. split; [apply mem_b_In; apply (ver_key' h vb Hvb)|].
    apply forallb_forall. intros k Hk. destruct (key_ver' k Hk) as (vb' & Hk'). destruct (ver_number' k vb' Hk') as [Hnk _].
    specialize (Hmax k vb' (vnum0 k) Hk' Hnk). rewrite (vnum0_of h hn Hn). lia.
  - (* c_cdir *) apply forallb_forall. intros v Hv. apply In_tvals in Hv. destruct (P_cdir v Hv) as (s & -> & Hs).
    apply jstr_sat_iff. exists s. split; [reflexivity | apply cdir_ok_iff; assumption].
  - (* c_manifest *) destruct P_manifest as (mv & Hmv & Ho). apply existsb_exists. exists mv. split; [apply In_tvals; assumption | apply is_obj_iff; assumption].
  - (* c_versions *) destruct c_versions_members as (vm & Hvm & _ & _ & Hne). apply existsb_exists. exists (JObj vm). split; [apply In_tvals; assumption|].
    cbn [is_obj omem andb]. destruct vm; [contradiction | reflexivity].
  - (* c_fixity *) apply forallb_forall. intros v Hv. apply In_tvals in Hv. apply is_obj_iff. apply (P_fixity v Hv).
  - (* c_vdup *) destruct c_versions_members as (vm & _ & -> & Hnd & _). apply nodup_b_NoDup. assumption.
  - (* c_vnames *) apply forallb_forall. intros k Hk. destruct (key_ver' k Hk) as (vb & Hvb). apply vname_ok_iff. apply (P_vnames k vb Hvb).
  - (* c_vnums *) apply vnums_ok_iff.
    + destruct c_versions_members as (vm & _ & -> & Hnd & _). assumption.
    + intros k Hk. destruct (key_ver' k Hk) as (vb & Hvb). apply (P_vnames k vb Hvb).
    + destruct P_vcontiguous as [H1 H2]. split.
      * intros k n m Hk Hn Hm. destruct (key_ver' k Hk) as (vb & Hvb). destruct (H1 k vb n m Hvb Hn Hm) as (k' & vb' & Hk' & Hm').
        exists k'. split; [apply (ver_key' k' vb' Hk') | assumption].
      * intros k k' n Hk Hk' Hn Hn'. destruct (key_ver' k Hk) as (vb & Hvb). destruct (key_ver' k' Hk') as (vb' & Hvb').
        apply (H2 k vb k' vb' n); assumption.
  - (* c_vpad *) apply padding_ok_iff. destruct P_vpadding as [H | (w & H)].
    + left. intros k Hk. destruct (key_ver' k Hk) as (vb & Hvb). apply (H k vb Hvb).
    + right. exists w. intros k Hk. destruct (key_ver' k Hk) as (vb & Hvb). apply (H k vb Hvb).
  - (* c_vb_obj *) apply all_blocks_iff. intros k vb Hk. apply is_obj_iff. apply (P_vblock k vb Hk).
  - (* c_vb_dup *) apply all_blocks_iff. intros k vb Hk. apply nodup_keys_iff. apply (P_vblock k vb Hk).
  - (* c_vb_keys *) apply all_blocks_iff. intros k vb Hk. apply keys_among_iff. apply (P_vblock k vb Hk).
  - (* c_created *) apply all_blocks_iff. intros k vb Hk. destruct (P_created k vb Hk) as (c & Hc & Hr). apply existsb_exists.
    exists (JStr c). split; [apply In_vals_omem; assumption|]. apply jstr_sat_iff. exists c. split; [reflexivity | apply rfc3339_ok_iff; assumption].
  - (* c_state *) apply all_blocks_iff. intros k vb Hk. destruct (P_state k vb Hk) as (st & Hst & Ho). apply existsb_exists.
    exists st. split; [apply In_vals_omem; assumption | apply is_obj_iff; assumption].
  - (* c_message *) apply all_blocks_iff. intros k vb Hk. apply forallb_forall. intros v Hv. apply is_str_iff. apply (P_message k vb v Hk).
    apply In_vals_omem. assumption.
  - (* c_user *) apply all_blocks_iff. intros k vb Hk. apply forallb_forall. intros u Hu. apply user_ok_iff. apply (P_user k vb u Hk).
    apply In_vals_omem. assumption.
  - (* c_st_digests *) apply all_blocks_iff. intros k vb Hk. apply forallb_forall. intros d Hd. apply In_keys in Hd as (v & Hin).
    destruct (P_state_digests k d v) as (pv & Hpv); [apply St_iff; exists vb; split; assumption|].
    apply mem_b_In. apply In_keys. exists pv. apply Man_iff. assumption.
  - (* c_st_arrays *) apply all_blocks_iff. intros k vb Hk. apply (state_arrays_ok k vb Hk).
  - (* c_lp_ok *) apply all_blocks_iff. intros k vb Hk. apply forallb_forall. intros p Hp. unfold logical_paths in Hp.
    apply In_paths_of in Hp as (d & v & Hin & Hp). assert (Hs : St j k d v) by (apply St_iff; exists vb; split; assumption).
    destruct (P_state_arrays k d v Hs) as (l & Hl). rewrite (proj1 (str_array_strs v l Hl)) in Hp. apply path_ok_iff. apply (P_lpaths k d v l p Hs Hl Hp).
  - (* c_lp_nodup *) apply all_blocks_iff. intros k vb Hk. apply nodup_b_NoDup. apply (lpaths_facts k vb Hk).
  - (* c_lp_free *) apply all_blocks_iff. intros k vb Hk. apply prefix_free_iff. apply (lpaths_facts k vb Hk).
  - (* c_m_dup *) destruct c_manifest_members as (mm & Hmm & E). apply nodup_b_NoDup. apply (NoDup_map_inv lower). rewrite E, map_lower_keys.
    apply (P_man_once (JObj mm) mm Hmm eq_refl).
  - (* c_m_ci *) destruct c_manifest_members as (mm & Hmm & E). apply nodup_b_NoDup. rewrite E, map_lower_keys. apply (P_man_once (JObj mm) mm Hmm eq_refl).
  - (* c_m_hex *) apply forallb_forall. intros v Hv. apply In_tvals in Hv. destruct v as [| | |a| |]; try reflexivity.
    destruct (content_alg a) eqn:Ea; [|reflexivity]. cbn [negb orb]. apply forallb_forall. intros d Hd. apply In_keys in Hd as (pv & Hin).
    apply digest_ok_iff. apply (P_man_digests a d pv Hv); [apply content_alg_iff; assumption | apply Man_iff; assumption].
  - (* c_m_arrays *) apply manifest_arrays_ok.
  - (* c_cp_ok *) apply forallb_forall. intros p Hp. unfold content_paths in Hp. apply In_paths_of in Hp as (d & v & Hin & Hp).
    apply Man_iff in Hin. destruct (P_man_arrays d v Hin) as (l & Hl). rewrite (proj1 (str_array_strs v l Hl)) in Hp.
    apply path_ok_iff. apply (P_cpaths d v l p Hin Hl Hp).
  - (* c_cp_nodup *) apply nodup_b_NoDup. apply cpaths_facts.
  - (* c_cp_free *) apply prefix_free_iff. apply cpaths_facts.
  - (* c_m_used *) apply forallb_forall. intros d Hd. apply In_keys in Hd as (v & Hin). apply Man_iff in Hin.
    destruct (P_man_used d v Hin) as (k & v' & Hs). apply St_iff in Hs as (vb & Hk & Hin'). apply existsb_exists. exists vb.
    split; [apply In_vblocks; exists k; assumption|]. apply mem_b_In. apply In_keys. exists v'. assumption.
  - (* c_f_dup *) destruct (block_cases j K_fixity P_top_once) as [[E _] | (fv & Hfv & E)]; unfold fixity_m; rewrite E; [reflexivity|].
    apply nodup_keys_iff. apply (P_fixity fv Hfv).
  - (* c_f_blocks *) apply forallb_forall. intros [a blk] Hin. cbn [fst snd]. apply (fixity_block_ok_iff j a blk manifest_arrays_ok).
    apply (P_fixity_blocks a blk). apply Fix_iff. assumption.
Qed.
End Complete.

(** * the theorem *)
Theorem inv_errors_sound_complete sv j : inv_errors sv j = [] <-> InvSpecOK sv j.
Proof.
  rewrite inv_errors_nil_iff. split.
  - intros H. apply checks_sound. apply checks_of_rules. assumption.
  - intros H. apply rules_of_checks. apply checks_complete. assumption.
Qed.
