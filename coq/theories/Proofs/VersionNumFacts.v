From Rocfl Require Import Base.Bytes Model.VersionNum Proofs.BytesFacts.
From Coq Require Import ZArith Lia ZifyBool ZifyN ZifyNat.
Ltac Zify.zify_post_hook ::= Z.div_mod_to_equations.
Open Scope N_scope.
Arguments N.add : simpl never.
Arguments N.mul : simpl never.
Arguments N.sub : simpl never.
Arguments N.pow : simpl never.
Arguments N.ltb : simpl never.
Arguments N.leb : simpl never.
Arguments N.eqb : simpl never.

Lemma pow10_le_u32 e : e <= 9 -> 10 ^ e <= U32MAX.
Proof.
  intros H. etransitivity; [apply N.pow_le_mono_r with (c := 9); lia|].
  unfold U32MAX. cbv. discriminate.
Qed.

Lemma pow10_pos e : 1 <= 10 ^ e.
Proof. assert (H := N.pow_nonzero 10 e). lia. Qed.

Lemma pow10_ge_10pow10 e : 10 <= e -> 10 ^ 10 <= 10 ^ e.
Proof. intros H. apply N.pow_le_mono_r; lia. Qed.

(** the executable maximum is min(u32::MAX, 10^(w-1) - 1) for every padded width *)
Lemma max_for_width_min w : 1 <= w -> max_for_width w = N.min U32MAX (10 ^ (w - 1) - 1).
Proof.
  intros Hw. unfold max_for_width. replace (w =? 0) with false by lia.
  destruct (w <=? 10) eqn:E.
  - assert (Hp := pow10_le_u32 (w - 1) ltac:(lia)). lia.
  - assert (Hp := pow10_ge_10pow10 (w - 1) ltac:(lia)).
    change (10 ^ 10) with 10000000000 in Hp. unfold U32MAX. lia.
Qed.

Lemma max_for_width_le_u32 w : max_for_width w <= U32MAX.
Proof.
  unfold max_for_width. destruct (w =? 0) eqn:E0; [lia|]. destruct (w <=? 10) eqn:E; [|lia].
  assert (Hp := pow10_le_u32 (w - 1) ltac:(lia)). lia.
Qed.

(** the maximum the code computes: never an overflow, in both build modes *)
Lemma vnext_max dbg w :
  (if w =? 0 then Ok U32MAX
   else match u32_checked_pow10 (w - 1) with
        | Some p => u32_pred dbg p
        | None => Ok U32MAX
        end) = Ok (max_for_width w).
Proof.
  unfold max_for_width, u32_checked_pow10, u32_pred. destruct (w =? 0) eqn:E0; [reflexivity|].
  replace (w - 1 <=? 9) with (w <=? 10) by lia.
  destruct (w <=? 10) eqn:E; [|reflexivity].
  assert (Hp := pow10_pos (w - 1)). replace (10 ^ (w - 1) =? 0) with false by lia. reflexivity.
Qed.

(** next = spec, in both build modes, for EVERY width and every u32 number *)
Lemma vnext_correct dbg v :
  vnumok v = true -> vnext dbg v = vnext_spec v.
Proof.
  unfold vnumok, vnext, vnext_spec. destruct v as [n w]; cbn [vn_number vn_width]. intros Hok.
  rewrite vnext_max. cbn [res_bind].
  assert (Hm := max_for_width_le_u32 w).
  destruct (max_for_width w <=? n) eqn:E.
  - replace (n + 1 <=? max_for_width w) with false by lia. reflexivity.
  - replace (n + 1 <=? max_for_width w) with true by lia.
    unfold u32_op. replace (n + 1 <=? U32MAX) with true by lia. reflexivity.
Qed.

Lemma vnext_never_panics dbg v : vnumok v = true -> vnext dbg v <> Panic.
Proof.
  intros H. rewrite vnext_correct by assumption. unfold vnext_spec.
  destruct (vn_number v + 1 <=? max_for_width (vn_width v)); discriminate.
Qed.

Lemma vnext_mode_independent v : vnumok v = true -> vnext true v = vnext false v.
Proof. intros H. rewrite !vnext_correct by assumption. reflexivity. Qed.

(** consequences the property names *)
Lemma vnext_ok_plus_one dbg v v' :
  vnumok v = true -> vnext dbg v = Ok v' ->
  vn_number v' = vn_number v + 1 /\ vn_width v' = vn_width v /\ vfits v' = true /\ vnumok v' = true.
Proof.
  intros Hok H. rewrite vnext_correct in H by assumption.
  unfold vnext_spec in H. destruct (vn_number v + 1 <=? max_for_width (vn_width v)) eqn:E; [|discriminate].
  injection H as <-. cbn [vn_number vn_width]. unfold vfits, vnumok in *. cbn [vn_number vn_width].
  assert (Hm := max_for_width_le_u32 (vn_width v)).
  repeat split; lia.
Qed.

Lemma vnext_refuses_at_max dbg v :
  vnumok v = true ->
  max_for_width (vn_width v) < vn_number v + 1 -> vnext dbg v = Err.
Proof.
  intros Hok H. rewrite vnext_correct by assumption. unfold vnext_spec.
  destruct (vn_number v + 1 <=? max_for_width (vn_width v)) eqn:E; [lia|reflexivity].
Qed.

(** the inputs of the former overflow class are ordinary now *)
Lemma vnext_width11 dbg : vnext dbg (mkV 1 11) = Ok (mkV 2 11).
Proof. destruct dbg; vm_compute; reflexivity. Qed.
Lemma vnext_width_u32max dbg : vnext dbg (mkV 4294967294 U32MAX) = Ok (mkV U32MAX U32MAX).
Proof. destruct dbg; vm_compute; reflexivity. Qed.
Lemma vnext_number_u32max dbg w : vnext dbg (mkV U32MAX w) = Err.
Proof.
  apply vnext_refuses_at_max; [reflexivity|]. cbn [vn_number vn_width].
  assert (Hm := max_for_width_le_u32 w). lia.
Qed.
Lemma vnext_width0 dbg n : n < U32MAX -> vnext dbg (mkV n 0) = Ok (mkV (n + 1) 0).
Proof.
  intros H. unfold vnext, u32_op. cbn [vn_width vn_number]. change (0 =? 0) with true. cbn [res_bind].
  replace (U32MAX <=? n) with false by lia. replace (n + 1 <=? U32MAX) with true by lia. reflexivity.
Qed.

(** Historical note: the arithmetic BEFORE fix 476b184 ([vnext_before_fix], a separate
    definition that is not the model of the current code) overflowed on these inputs. *)
Lemma vnext_before_fix_width11_panicked_debug : vnext_before_fix true (mkV 1 11) = Panic.
Proof. vm_compute. reflexivity. Qed.
Lemma vnext_before_fix_width11_release_wrong_max :
  exists v', vnext_before_fix false (mkV 1410065407 11) = Err /\
             vnext false (mkV 1410065407 11) = Ok v'.
Proof. eexists. split; vm_compute; reflexivity. Qed.
Lemma vnext_before_fix_u32max_release_wrapped : vnext_before_fix false (mkV U32MAX 0) = Ok (mkV 0 0).
Proof. vm_compute. reflexivity. Qed.

(** previous *)
Lemma vprev_correct dbg v : vnumok v = true ->
  vprev dbg v = if vn_number v =? 1 then Err else Ok (mkV (vn_number v - 1) (vn_width v)).
Proof.
  unfold vnumok, vprev, u32_pred. destruct v as [n w]; cbn [vn_number vn_width]. intros H.
  replace (n =? 0) with false by lia. cbn [res_bind].
  destruct (n - 1 <? 1) eqn:E1, (n =? 1) eqn:E2; try reflexivity; lia.
Qed.

Lemma vprev_vnext dbg v v' : vnumok v = true ->
  vnext dbg v = Ok v' -> vprev dbg v' = Ok v.
Proof.
  intros Hok H. destruct (vnext_ok_plus_one _ _ _ Hok H) as (Hn & Hw & _ & Hok').
  rewrite vprev_correct by assumption. rewrite Hn, Hw.
  unfold vnumok in Hok. replace (vn_number v + 1 =? 1) with false by lia.
  destruct v as [n w]; cbn [vn_number vn_width]. f_equal. f_equal. lia.
Qed.

Lemma vwf_vnumok v : vwf v = true -> vnumok v = true.
Proof. unfold vwf, vnumok. lia. Qed.

(** a number that fits a padded width has fewer digits than the width *)
Lemma vfits_lt_pow n w : 1 <= w -> n <= U32MAX -> n <= max_for_width w -> w <> 1 -> n < 10 ^ (w - 1).
Proof.
  intros Hw Hn Hfit H1. rewrite max_for_width_min in Hfit by assumption.
  assert (Hp := pow10_pos (w - 1)).
  destruct (w <=? 10) eqn:E.
  - assert (Hp2 := pow10_le_u32 (w - 1) ltac:(lia)). lia.
  - assert (Hp2 := pow10_ge_10pow10 (w - 1) ltac:(lia)).
    change (10 ^ 10) with 10000000000 in Hp2. unfold U32MAX in *. lia.
Qed.

(** display / parse round trip *)
Lemma vparse_vdisplay v : vwf v = true -> vfits v = true -> vparse (vdisplay v) = Ok v.
Proof.
  destruct v as [n w]. unfold vwf, vfits, vdisplay, vparse, pad_left0.
  cbn [vn_number vn_width]. intros Hwf Hfit.
  replace (Ascii.eqb "v" "v") with true by reflexivity. cbn [negb].
  assert (Hne := dec_digits_nonempty n).
  assert (Hval := dec_value_digits n).
  assert (Hall := forallb_is_digit_dec_digits n).
  destruct (w =? 0) eqn:Ew.
  - assert (w = 0) by lia. subst w. cbn [N.to_nat Nat.sub replicate app].
    destruct (dec_digits n) as [|c r] eqn:D; [congruence|].
    rewrite Hall. cbn [negb]. rewrite Hval.
    replace (U32MAX <? n) with false by lia. replace (n <? 1) with false by lia.
    rewrite (dec_digits_head_nonzero n c r ltac:(lia) D). reflexivity.
  - (* padded: digits(n) has at most w-1 characters, so at least one 0 is prepended *)
    assert (Hw2 : 2 <= w).
    { destruct (w =? 1) eqn:E1; [|lia]. assert (w = 1) by lia. subst w.
      change (max_for_width 1) with 0 in Hfit. lia. }
    assert (Hlt : n < 10 ^ (w - 1)) by (apply vfits_lt_pow; lia).
    assert (Hlen : (List.length (dec_digits n) <= N.to_nat (w - 1))%nat).
    { apply dec_digits_length; [lia|]. rewrite N2Nat.id. lia. }
    remember (N.to_nat w - List.length (dec_digits n))%nat as k eqn:Hk.
    destruct k as [|k]; [lia|].
    cbn [replicate app].
    replace (Ascii.eqb "0" "0") with true by reflexivity.
    cbn [forallb]. replace (is_digit "0") with true by reflexivity.
    rewrite forallb_app, forallb_replicate by reflexivity. rewrite Hall. cbn [andb negb].
    unfold dec_value. change ("0"%char :: replicate k "0"%char ++ dec_digits n)
      with (replicate (S k) "0"%char ++ dec_digits n).
    rewrite dec_value_acc_zeros. replace (0 * 10 ^ N.of_nat (S k)) with 0 by lia.
    fold (dec_value (dec_digits n)). rewrite Hval.
    replace (U32MAX <? n) with false by lia. replace (n <? 1) with false by lia.
    f_equal. f_equal. unfold blen. rewrite app_length, replicate_length. lia.
Qed.

(** the directory name of a padded version always has the same length *)
Lemma vdisplay_length_padded v : vwf v = true -> vfits v = true -> 0 < vn_width v ->
  blen (vdisplay v) = vn_width v + 1.
Proof.
  destruct v as [n w]. unfold vwf, vfits, vdisplay, pad_left0, blen.
  cbn [vn_number vn_width]. intros Hwf Hfit Hw.
  assert (Hw2 : 2 <= w).
  { destruct (w =? 1) eqn:E1; [|lia]. assert (w = 1) by lia. subst w.
    change (max_for_width 1) with 0 in Hfit. lia. }
  assert (Hlt : n < 10 ^ (w - 1)) by (apply vfits_lt_pow; lia).
  assert (Hlen : (List.length (dec_digits n) <= N.to_nat (w - 1))%nat).
  { apply dec_digits_length; [lia|]. rewrite N2Nat.id. lia. }
  cbn [List.length]. rewrite app_length, replicate_length. lia.
Qed.
