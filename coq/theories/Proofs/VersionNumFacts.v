From Rocfl Require Import Base.Bytes Model.VersionNum Model.Known Proofs.BytesFacts.
From Coq Require Import ZArith Lia ZifyBool ZifyN ZifyNat.
Ltac Zify.zify_post_hook ::= Z.div_mod_to_equations.
Open Scope N_scope.
Arguments N.add : simpl never.
Arguments N.mul : simpl never.
Arguments N.sub : simpl never.
Arguments N.pow : simpl never.
Arguments N.ltb : simpl never.
Arguments N.leb : simpl never.
Arguments N.eqb : simpl never.

Lemma pow10_le_u32 e : e <= 9 -> 10 ^ e <= U32MAX.
Proof.
  intros H. etransitivity; [apply N.pow_le_mono_r with (c := 9); lia|].
  unfold U32MAX. cbv. discriminate.
Qed.

Lemma pow10_pos e : 1 <= 10 ^ e.
Proof. assert (H := N.pow_nonzero 10 e). lia. Qed.

(** next = spec, in both build modes, outside the overflow class *)
Lemma vnext_correct dbg v :
  vwf v = true -> c14_overflow v = false -> vnext dbg v = vnext_spec v.
Proof.
  unfold vwf, c14_overflow, vnext, vnext_spec, max_for_width.
  destruct v as [n w]; cbn [vn_number vn_width]. intros Hwf Hk.
  assert (Hn : n + 1 <= U32MAX) by (unfold U32MAX in *; lia).
  destruct (w =? 0) eqn:Ew.
  - cbn [res_bind]. unfold u32_op.
    replace (n + 1 <=? U32MAX) with true by lia. cbn [res_bind].
    destruct (U32MAX <? n + 1) eqn:E1, (n + 1 <=? U32MAX) eqn:E2; try reflexivity; lia.
  - assert (Hp := pow10_le_u32 (w - 1) ltac:(lia)).
    assert (Hp1 := pow10_pos (w - 1)).
    unfold u32_pow10, u32_op.
    replace (w - 1 <=? 9) with true by lia. cbn [res_bind].
    unfold u32_pred. replace (10 ^ (w - 1) =? 0) with false by lia. cbn [res_bind].
    replace (n + 1 <=? U32MAX) with true by lia. cbn [res_bind].
    destruct (10 ^ (w - 1) - 1 <? n + 1) eqn:E1, (n + 1 <=? 10 ^ (w - 1) - 1) eqn:E2; try reflexivity; lia.
Qed.

(** consequences the property names *)
Lemma vnext_ok_plus_one dbg v v' :
  vwf v = true -> c14_overflow v = false -> vnext dbg v = Ok v' ->
  vn_number v' = vn_number v + 1 /\ vn_width v' = vn_width v /\ vfits v' = true /\ vwf v' = true.
Proof.
  intros Hwf Hk H. rewrite vnext_correct in H by assumption.
  unfold vnext_spec in H. destruct (vn_number v + 1 <=? max_for_width (vn_width v)) eqn:E; [|discriminate].
  injection H as <-. cbn [vn_number vn_width]. unfold vfits, vwf in *. cbn [vn_number vn_width].
  repeat split; try lia.
  unfold max_for_width in E. destruct (vn_width v =? 0) eqn:Ew.
  - unfold U32MAX in *. lia.
  - assert (Hp := pow10_le_u32 (vn_width v - 1) ltac:(unfold c14_overflow in Hk; lia)).
    unfold U32MAX in *. lia.
Qed.

Lemma vnext_refuses_at_max dbg v :
  vwf v = true -> c14_overflow v = false ->
  max_for_width (vn_width v) < vn_number v + 1 -> vnext dbg v = Err.
Proof.
  intros Hwf Hk H. rewrite vnext_correct by assumption. unfold vnext_spec.
  destruct (vn_number v + 1 <=? max_for_width (vn_width v)) eqn:E; [lia|reflexivity].
Qed.

(** the overflow class is a real defect of the modelled code: witnesses *)
Lemma vnext_width11_panics_debug : vnext true (mkV 1 11) = Panic.
Proof. vm_compute. reflexivity. Qed.

Lemma vnext_width11_release_passes_max :
  exists v', vnext false (mkV 999999999 11) = Ok v' /\ vn_number v' = 1000000000.
Proof. eexists. split; vm_compute; reflexivity. Qed.

Lemma vnext_u32max_release_wraps : vnext false (mkV U32MAX 0) = Ok (mkV 0 0).
Proof. vm_compute. reflexivity. Qed.

(** previous *)
Lemma vprev_correct dbg v : vwf v = true ->
  vprev dbg v = if vn_number v =? 1 then Err else Ok (mkV (vn_number v - 1) (vn_width v)).
Proof.
  unfold vwf, vprev, u32_pred. destruct v as [n w]; cbn [vn_number vn_width]. intros H.
  replace (n =? 0) with false by lia. cbn [res_bind].
  destruct (n - 1 <? 1) eqn:E1, (n =? 1) eqn:E2; try reflexivity; lia.
Qed.

Lemma vprev_vnext dbg v v' : vwf v = true -> c14_overflow v = false ->
  vnext dbg v = Ok v' -> vprev dbg v' = Ok v.
Proof.
  intros Hwf Hk H. destruct (vnext_ok_plus_one _ _ _ Hwf Hk H) as (Hn & Hw & _ & Hwf').
  rewrite vprev_correct by assumption. rewrite Hn, Hw.
  unfold vwf in Hwf. replace (vn_number v + 1 =? 1) with false by lia.
  destruct v as [n w]; cbn [vn_number vn_width]. f_equal. f_equal. lia.
Qed.

(** display / parse round trip *)
Lemma vparse_vdisplay v : vwf v = true -> vfits v = true -> vparse (vdisplay v) = Ok v.
Proof.
  destruct v as [n w]. unfold vwf, vfits, max_for_width, vdisplay, vparse, pad_left0.
  cbn [vn_number vn_width]. intros Hwf Hfit.
  replace (Ascii.eqb "v" "v") with true by reflexivity. cbn [negb].
  assert (Hne := dec_digits_nonempty n).
  assert (Hval := dec_value_digits n).
  assert (Hall := forallb_is_digit_dec_digits n).
  destruct (w =? 0) eqn:Ew.
  - assert (w = 0) by lia. subst w. cbn [N.to_nat Nat.sub replicate app].
    destruct (dec_digits n) as [|c r] eqn:D; [congruence|].
    rewrite Hall. cbn [negb]. rewrite Hval.
    replace (U32MAX <? n) with false by lia. replace (n <? 1) with false by lia.
    rewrite (dec_digits_head_nonzero n c r ltac:(lia) D). reflexivity.
  - (* padded: digits(n) has at most w-1 characters, so at least one 0 is prepended *)
    assert (Hp1 := pow10_pos (w - 1)).
    assert (Hw2 : 2 <= w).
    { destruct (w =? 1) eqn:E1; [|lia]. assert (w = 1) by lia. subst w.
      change (10 ^ (1 - 1)) with 1 in Hfit. lia. }
    assert (Hlen : (List.length (dec_digits n) <= N.to_nat (w - 1))%nat).
    { apply dec_digits_length; [lia|]. rewrite N2Nat.id. lia. }
    remember (N.to_nat w - List.length (dec_digits n))%nat as k eqn:Hk.
    destruct k as [|k]; [lia|].
    cbn [replicate app].
    replace (Ascii.eqb "0" "0") with true by reflexivity.
    cbn [forallb]. replace (is_digit "0") with true by reflexivity.
    rewrite forallb_app, forallb_replicate by reflexivity. rewrite Hall. cbn [andb negb].
    unfold dec_value. change ("0"%char :: replicate k "0"%char ++ dec_digits n)
      with (replicate (S k) "0"%char ++ dec_digits n).
    rewrite dec_value_acc_zeros. replace (0 * 10 ^ N.of_nat (S k)) with 0 by lia.
    fold (dec_value (dec_digits n)). rewrite Hval.
    replace (U32MAX <? n) with false by lia. replace (n <? 1) with false by lia.
    f_equal. f_equal. unfold blen. rewrite app_length, replicate_length. lia.
Qed.

(** the directory name of a padded version always has the same length *)
Lemma vdisplay_length_padded v : vwf v = true -> vfits v = true -> 0 < vn_width v ->
  blen (vdisplay v) = vn_width v + 1.
Proof.
  destruct v as [n w]. unfold vwf, vfits, max_for_width, vdisplay, pad_left0, blen.
  cbn [vn_number vn_width]. intros Hwf Hfit Hw.
  replace (w =? 0) with false in Hfit by lia.
  assert (Hp1 := pow10_pos (w - 1)).
  assert (Hw2 : 2 <= w).
  { destruct (w =? 1) eqn:E1; [|lia]. assert (w = 1) by lia. subst w.
    change (10 ^ (1 - 1)) with 1 in Hfit. lia. }
  assert (Hlen : (List.length (dec_digits n) <= N.to_nat (w - 1))%nat).
  { apply dec_digits_length; [lia|]. rewrite N2Nat.id. lia. }
  cbn [List.length]. rewrite app_length, replicate_length. lia.
Qed.
