(** * Consequences of [written_by_rocfl] in declarative form, and lookups in edited trees (C06) *)

From Coq Require Import List NArith Bool Lia.
From Rocfl Require Import Model.ObjTree Model.Corrupt Proofs.ObjTreeFacts.
Import ListNotations.
Open Scope N_scope.

Section Written.
  Variable digest : alg -> token -> N.
  Variable parse_inv : token -> option inventory.
  Variable parse_sidecar : token -> option N.
  Variable parse_decl : token -> option spec_version.

  Notation wfb := (written_by_rocflb digest parse_inv parse_sidecar parse_decl).
  Notation vokb := (version_okb digest parse_inv parse_sidecar).

  Record wfP (t : tree) (itok : token) (root : inventory) : Prop := {
    w_leaves : leavesb t = true;
    w_inv : file_tok [SInv] t = Some itok /\ parse_inv itok = Some root;
    w_versions_ne : inv_versions root <> [];
    w_decl : exists dk, file_tok [SDecl (inv_spec root)] t = Some dk /\ parse_decl dk = Some (inv_spec root);
    w_sidecar : exists sk, file_tok [SSidecar (inv_alg root)] t = Some sk
                           /\ parse_sidecar sk = Some (digest (inv_alg root) itok);
    w_entries : forall e, In e t -> allowed_entryb root e = true;
    w_versions : forall n, in_versions root n = true -> vokb t root itok n = true;
    w_manifest : forall dp, In dp (inv_manifest root) -> manifest_entry_okb digest t root dp = true;
    w_nodup : nodup_pathb (map snd (inv_manifest root)) = true;
    w_states : forall st, In st (inv_versions root) -> nodup_lpathb (map snd st) = true;
    w_fixity : inv_fixity root = []
  }.

  Lemma opt_eqb_N a b : opt_eqb N.eqb a b = true <-> a = b.
  Proof.
    destruct a, b; cbn; split; try congruence; try discriminate.
    - intros H. apply N.eqb_eq in H. congruence.
    - intros H. injection H as ->. apply N.eqb_refl.
  Qed.
  Lemma opt_eqb_spec a b : opt_eqb spec_eqb a b = true <-> a = b.
  Proof.
    destruct a, b; cbn; split; try congruence; try discriminate.
    - intros H. apply spec_eqb_eq in H. congruence.
    - intros H. injection H as ->. apply spec_eqb_refl.
  Qed.

  Lemma wf_unfold t : wfb t = true -> exists itok root, wfP t itok root.
  Proof.
    unfold written_by_rocflb. intros H. apply andb_true_iff in H as [Hl H].
    destruct (file_tok [SInv] t) as [itok|] eqn:Ei; [|discriminate].
    destruct (parse_inv itok) as [root|] eqn:Ep; [|discriminate].
    repeat (apply andb_true_iff in H as [H ?]).
    exists itok, root. constructor; try assumption.
    - now split.
    - apply negb_true_iff in H. now apply nilb_false.
    - destruct (file_tok [SDecl (inv_spec root)] t) as [dk|]; [|discriminate].
      exists dk. split; [reflexivity|]. now apply opt_eqb_spec.
    - destruct (file_tok [SSidecar (inv_alg root)] t) as [sk|]; [|discriminate].
      exists sk. split; [reflexivity|]. now apply opt_eqb_N.
    - now apply forallb_forall.
    - intros n Hn. apply vnums_In in Hn. revert n Hn. now apply forallb_forall.
    - now apply forallb_forall.
    - now apply forallb_forall.
    - now apply nilb_true.
  Qed.

  Lemma in_versions_head root : inv_versions root <> [] -> in_versions root (inv_head root) = true.
  Proof.
    unfold in_versions, inv_head. destruct (inv_versions root) as [|x l]; [congruence|].
    intros _. cbn [nlength]. apply andb_true_iff. rewrite !N.leb_le. lia.
  Qed.

  (** where an entry of a written object can be *)
  Inductive slot (root : inventory) : path -> Prop :=
  | SlDecl : slot root [SDecl (inv_spec root)]
  | SlInv : slot root [SInv]
  | SlSidecar : slot root [SSidecar (inv_alg root)]
  | SlVInv m : in_versions root m = true -> slot root (version_dir root m ++ [SInv])
  | SlVSidecar m : in_versions root m = true -> slot root (version_dir root m ++ [SSidecar (inv_alg root)])
  | SlContent m s r : in_versions root m = true ->
      In (content_root root m ++ s :: r) (map snd (inv_manifest root)) ->
      slot root (content_root root m ++ s :: r).

  Lemma allowed_cases root q n :
    allowed_entryb root (q, n) = true -> exists k, n = File k /\ slot root q.
  Proof.
    unfold allowed_entryb. cbn [fst snd]. destruct n as [|k| |]; try discriminate.
    intros H. exists k. split; [reflexivity|].
    destruct q as [|s1 q]; [discriminate|].
    destruct s1; try discriminate.
    - destruct q; [|discriminate]. apply spec_eqb_eq in H. subst. constructor.
    - destruct q; [|discriminate]. constructor.
    - destruct q; [|discriminate]. apply alg_eqb_eq in H. subst. constructor.
    - destruct q as [|s2 q]; [discriminate|].
      destruct s2; try discriminate.
      + destruct q; [|discriminate]. apply andb_true_iff in H as [H1 H2]. apply N.eqb_eq in H1. subst.
        now apply (SlVInv root n).
      + destruct q; [|discriminate]. repeat (apply andb_true_iff in H as [H ?]).
        apply N.eqb_eq in H. subst. match goal with X : alg_eqb _ _ = true |- _ => apply alg_eqb_eq in X; subst end.
        now apply (SlVSidecar root n).
      + destruct q as [|s3 q]; [discriminate|].
        repeat (apply andb_true_iff in H as [H ?]). apply N.eqb_eq in H. subst.
        match goal with X : N.eqb _ _ = true |- _ => apply N.eqb_eq in X; subst end.
        match goal with X : mem_path _ _ = true |- _ => apply mem_path_In in X end.
        now apply (SlContent root n s3 q).
  Qed.

  Section WithWf.
    Variables (t : tree) (itok : token) (root : inventory).
    Hypothesis W : wfP t itok root.

    Lemma wf_entry q n : In (q, n) t -> exists k, n = File k /\ slot root q.
    Proof. intros H. apply allowed_cases. now apply (w_entries _ _ _ W). Qed.

    Lemma wf_root_inv : root_inv parse_inv t = Some root.
    Proof. unfold root_inv. destruct (w_inv _ _ _ W) as [-> ->]. reflexivity. Qed.

    (** the directories of a written object *)
    Lemma wf_dir_shape d :
      below d t = true ->
      d = []
      \/ (exists m, in_versions root m = true /\ d = version_dir root m)
      \/ (exists m r, in_versions root m = true /\ d = content_root root m ++ r).
    Proof.
      intros H. apply below_true in H as (q & n & s & r & Hin & Hq).
      destruct (wf_entry q n Hin) as (k & _ & Hs).
      destruct Hs as [| | |m Hm|m Hm|m s' r' Hm _]; unfold version_dir, content_root in *; cbn [app] in Hq.
      - destruct d as [|? [|]]; cbn in Hq; try discriminate; auto.
      - destruct d as [|? [|]]; cbn in Hq; try discriminate; auto.
      - destruct d as [|? [|]]; cbn in Hq; try discriminate; auto.
      - destruct d as [|d1 [|d2 d]]; cbn in Hq; auto.
        + injection Hq as <- _. right. left. now exists m.
        + injection Hq as _ _ Hq. destruct d; discriminate.
      - destruct d as [|d1 [|d2 d]]; cbn in Hq; auto.
        + injection Hq as <- _. right. left. now exists m.
        + injection Hq as _ _ Hq. destruct d; discriminate.
      - destruct d as [|d1 [|d2 d]]; cbn in Hq; auto.
        + injection Hq as <- _. right. left. now exists m.
        + injection Hq as <- <- Hq. right. right. exists m, d. split; [assumption|reflexivity].
    Qed.

    Lemma wf_manifest_file d p :
      In (d, p) (inv_manifest root) ->
      exists k, file_tok p t = Some k /\ digest (inv_alg root) k = d.
    Proof.
      intros H. apply (w_manifest _ _ _ W) in H. unfold manifest_entry_okb in H. cbn [fst snd] in H.
      destruct p as [|[] [|[] [|? ?]]]; try discriminate.
      repeat (apply andb_true_iff in H as [H ?]).
      match goal with X : context [file_tok ?P t] |- _ =>
        destruct (file_tok P t) as [kk|]; [|discriminate]; exists kk; split; [reflexivity|]; now apply N.eqb_eq in X end.
    Qed.

    (** a content file carries the digest the manifest records for it *)
    Lemma wf_content_digest p k :
      file_tok p t = Some k -> In p (map snd (inv_manifest root)) ->
      mdigest (inv_manifest root) p = Some (digest (inv_alg root) k).
    Proof.
      intros Hk Hin. apply in_map_iff in Hin as [[d p'] [E Hin]]. cbn in E. subst p'.
      destruct (wf_manifest_file d p Hin) as (k' & Hk' & Hd).
      rewrite Hk in Hk'. injection Hk' as <-. subst d.
      apply mdigest_nodup; [apply (w_nodup _ _ _ W) | assumption].
    Qed.

    Lemma wf_version_files m :
      in_versions root m = true ->
      exists km sk, file_tok (version_dir root m ++ [SInv]) t = Some km
        /\ file_tok (version_dir root m ++ [SSidecar (inv_alg root)]) t = Some sk
        /\ parse_sidecar sk = Some (digest (inv_alg root) km)
        /\ (m = inv_head root -> km = itok)
        /\ (m <> inv_head root -> exists i, parse_inv km = Some i /\ inv_alg i = inv_alg root).
    Proof.
      intros Hm. pose proof (w_versions _ _ _ W m Hm) as H. unfold version_okb in H.
      destruct (file_tok (version_dir root m ++ [SInv]) t) as [km|]; [|discriminate].
      destruct (file_tok (version_dir root m ++ [SSidecar (inv_alg root)]) t) as [sk|]; [|discriminate].
      apply andb_true_iff in H as [H1 H2]. apply opt_eqb_N in H1.
      exists km, sk. repeat split; try assumption.
      - intros ->. rewrite N.eqb_refl in H2. now apply N.eqb_eq.
      - intros Hne. apply N.eqb_neq in Hne. rewrite Hne in H2.
        destruct (parse_inv km) as [i|]; [|discriminate]. exists i. split; [reflexivity|].
        repeat (apply andb_true_iff in H2 as [H2 ?]).
        match goal with X : alg_eqb _ _ = true |- _ => now apply alg_eqb_eq in X end.
    Qed.
  End WithWf.

  (** ** leaves: keys are unique and prefix-free *)

  Lemma leaves_prefix t : leavesb t = true ->
    forall q n p m, In (q, n) t -> In (p, m) t -> is_prefix q p = true -> (q, n) = (p, m).
  Proof.
    induction t as [|[q0 n0] t IH]; intros H q n p m Hq Hp Hpre; [destruct Hq|].
    cbn [leavesb] in H. apply andb_true_iff in H as [H H3]. apply andb_true_iff in H as [H1 H2].
    rewrite forallb_forall in H2.
    destruct Hq as [Eq|Hq], Hp as [Ep|Hp].
    - congruence.
    - injection Eq as <- <-. apply H2 in Hp. cbn in Hp. rewrite Hpre in Hp. discriminate.
    - injection Ep as <- <-. apply H2 in Hq. cbn in Hq. rewrite Hpre in Hq.
      apply andb_true_iff in Hq as [_ Hq]. discriminate.
    - now apply (IH H3 q n p m).
  Qed.

  Lemma leaves_key_nonempty t : leavesb t = true -> forall n, ~ In ([], n) t.
  Proof.
    induction t as [|[q0 n0] t IH]; intros H n Hin; [destruct Hin|].
    cbn [leavesb] in H. apply andb_true_iff in H as [H H3]. apply andb_true_iff in H as [H1 H2].
    destruct Hin as [E|Hin].
    - injection E as -> _. discriminate.
    - now apply (IH H3 n).
  Qed.

  Lemma leaves_lookup t : leavesb t = true -> forall p n, In (p, n) t -> lookup p t = Some n.
  Proof.
    intros H p n Hin. destruct (lookup p t) as [m|] eqn:E.
    - apply lookup_In in E. pose proof (leaves_prefix t H p m p n E Hin (is_prefix_refl p)). congruence.
    - exfalso. now apply (lookup_None_In p t E n).
  Qed.
End Written.

(** ** lookups in edited trees *)

Lemma lookup_filter_key (g : path -> bool) q t :
  lookup q (filter (fun e => g (fst e)) t) = if g q then lookup q t else None.
Proof.
  induction t as [|[p n] t IH]; cbn [filter lookup fst].
  - now destruct (g q).
  - destruct (g p) eqn:Eg; cbn [lookup].
    + destruct (path_eqb p q) eqn:E.
      * apply path_eqb_eq in E. subst. now rewrite Eg.
      * exact IH.
    + destruct (path_eqb p q) eqn:E.
      * apply path_eqb_eq in E. subst. rewrite Eg in *. exact IH.
      * exact IH.
Qed.

Lemma lookup_remove p q t :
  lookup q (remove p t) = if path_eqb q p then None else lookup q t.
Proof.
  unfold remove. rewrite (lookup_filter_key (fun x => negb (path_eqb x p))).
  now destruct (path_eqb q p).
Qed.

Lemma lookup_remove_sub p q t :
  lookup q (remove_sub p t) = if is_prefix p q then None else lookup q t.
Proof.
  unfold remove_sub. rewrite (lookup_filter_key (fun x => negb (is_prefix p x))).
  now destruct (is_prefix p q).
Qed.

Lemma lookup_set p n q t :
  lookup q (set p n t) = if path_eqb p q then Some n else lookup q t.
Proof.
  unfold set. cbn [lookup]. destruct (path_eqb p q) eqn:E; [reflexivity|].
  rewrite lookup_remove. rewrite path_eqb_sym, E. reflexivity.
Qed.

Lemma file_tok_set_other p n q t : p <> q -> file_tok q (set p n t) = file_tok q t.
Proof.
  intros H. unfold file_tok. rewrite lookup_set. apply path_eqb_neq in H. now rewrite H.
Qed.

Lemma file_tok_set_same p k t : file_tok p (set p (File k) t) = Some k.
Proof. unfold file_tok. rewrite lookup_set, path_eqb_refl. reflexivity. Qed.

Lemma In_set e p n t : In e (set p n t) <-> e = (p, n) \/ (In e t /\ fst e <> p).
Proof.
  unfold set, remove. cbn [In]. rewrite filter_In. split.
  - intros [<-|[H1 H2]]; [now left|]. right. split; [assumption|].
    apply negb_true_iff in H2. now apply path_eqb_neq.
  - intros [->|[H1 H2]]; [now left|]. right. split; [assumption|].
    apply negb_true_iff. now apply path_eqb_neq.
Qed.

Lemma In_remove_sub e p t : In e (remove_sub p t) <-> In e t /\ is_prefix p (fst e) = false.
Proof. unfold remove_sub. rewrite filter_In. now rewrite negb_true_iff. Qed.

Lemma lookup_add_leaf q n x t :
  lookup x (add_leaf q n t) =
  if path_eqb q x then Some n else if is_prefix x q then None else lookup x t.
Proof.
  unfold add_leaf. cbn [lookup]. destruct (path_eqb q x); [reflexivity|].
  rewrite (lookup_filter_key (fun y => negb (is_prefix y q))). now destruct (is_prefix x q).
Qed.

Lemma In_add_leaf e q n t :
  In e (add_leaf q n t) <-> e = (q, n) \/ (In e t /\ is_prefix (fst e) q = false).
Proof.
  unfold add_leaf. cbn [In]. rewrite filter_In, negb_true_iff. split.
  - intros [<-|H]; tauto.
  - intros [->|H]; tauto.
Qed.

Lemma In_del_file e p t :
  In e (del_file p t) -> (In e t /\ fst e <> p) \/ (e = (parent p, Dir) /\ parent p <> []).
Proof.
  unfold del_file.
  assert (R : In e (remove p t) -> In e t /\ fst e <> p).
  { unfold remove. rewrite filter_In, negb_true_iff. intros [H1 H2]. split; [assumption|]. now apply path_eqb_neq. }
  destruct (nilb (parent p)) eqn:En; cbn [orb].
  - intros H. left. now apply R.
  - destruct (below (parent p) (remove p t)).
    + intros H. left. now apply R.
    + intros [<-|H]; [right | left; now apply R]. split; [reflexivity|]. now apply nilb_false.
Qed.

Lemma lookup_del_file p q t :
  q <> parent p -> lookup q (del_file p t) = if path_eqb q p then None else lookup q t.
Proof.
  intros Hq. unfold del_file.
  destruct (nilb (parent p) || below (parent p) (remove p t)).
  - apply lookup_remove.
  - cbn [lookup]. assert (E : path_eqb (parent p) q = false) by (apply path_eqb_neq; congruence).
    rewrite E. apply lookup_remove.
Qed.

Lemma parent_app p : p <> [] -> exists s, p = parent p ++ [s].
Proof. intros H. exists (last p SInv). unfold parent. now apply app_removelast_last. Qed.

Lemma parent_snoc d s : parent (d ++ [s]) = d.
Proof. unfold parent. apply removelast_last. Qed.
