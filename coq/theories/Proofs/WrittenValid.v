(** * The model validator accepts what rocfl writes (C06, non-vacuity of the detection theorem)

    [written_valid]: [written_by_rocfl t -> tree_errors true t = []]. *)

From Coq Require Import List NArith Bool Lia.
From Rocfl Require Import Model.ObjTree Model.TreeValidate.
From Rocfl Require Import Proofs.ObjTreeFacts Proofs.TreeValidateFacts Proofs.WrittenFacts.
Import ListNotations.
Open Scope N_scope.

Lemma flat_map_nil_intro {A B} (f : A -> list B) l : (forall x, In x l -> f x = []) -> flat_map f l = [].
Proof. apply flat_map_nil. Qed.

Lemma app_nil_intro {A} (a b : list A) : a = [] -> b = [] -> a ++ b = [].
Proof. now intros -> ->. Qed.

Lemma state_eqb_eq a b : state_eqb a b = true <-> a = b.
Proof.
  unfold state_eqb. apply list_eqb_eq. intros [d p] [d' p']. cbn. split.
  - intros H. apply andb_true_iff in H as [H1 H2]. apply N.eqb_eq in H1. apply lpath_eqb_eq in H2. congruence.
  - intros H. injection H as -> ->. now rewrite N.eqb_refl, lpath_eqb_refl.
Qed.

Lemma nth_state_firstn {A} (l : list (list A)) : forall n cur s, s <= cur -> cur <= n ->
  nth_state (firstn_N n s l) cur s = nth_state l cur s.
Proof.
  induction l as [|x l IH]; intros n cur s H1 H2; cbn [firstn_N nth_state]; [reflexivity|].
  destruct (s <=? n) eqn:E; [|apply N.leb_gt in E; lia].
  cbn [nth_state]. destruct (N.eqb cur s) eqn:Ec; [reflexivity|].
  apply N.eqb_neq in Ec. apply IH; lia.
Qed.

Lemma nlength_firstn {A} (l : list A) : forall n s, s <= N.succ n -> n < s + nlength l ->
  s + nlength (firstn_N n s l) = N.succ n.
Proof.
  induction l as [|x l IH]; intros n s H1 H2; cbn [firstn_N nlength] in *.
  - lia.
  - destruct (s <=? n) eqn:E.
    + apply N.leb_le in E. cbn [nlength]. specialize (IH n (N.succ s)). lia.
    + apply N.leb_gt in E. cbn [nlength]. lia.
Qed.

Lemma nth_state_In {A} (l : list (list A)) : forall n s, nth_state l n s = [] \/ In (nth_state l n s) l.
Proof.
  induction l as [|x l IH]; intros n s; cbn [nth_state]; [now left|].
  destruct (N.eqb n s); [right; now left|]. destruct (IH n (N.succ s)); [now left | right; now right].
Qed.

Lemma sdigest_nodup s p d : nodup_lpathb (map snd s) = true -> In (d, p) s -> sdigest s p = Some d.
Proof.
  induction s as [|[d' q] s IH]; cbn; [tauto|].
  intros H Hin. apply andb_true_iff in H as [H1 H2].
  destruct Hin as [E|Hin].
  - injection E as -> ->. now rewrite lpath_eqb_refl.
  - destruct (lpath_eqb q p) eqn:E.
    + apply lpath_eqb_eq in E. subst q. exfalso.
      apply negb_true_iff in H1. apply (in_map snd) in Hin. cbn in Hin.
      apply mem_lpath_In in Hin. congruence.
    + now apply IH.
Qed.

Lemma mem_pair_In x l : mem_pair x l = true <-> In x l.
Proof.
  unfold mem_pair, pair_eqb. rewrite existsb_exists. destruct x as [d p]. split.
  - intros [[d' p'] [Hin E]]. cbn in E. apply andb_true_iff in E as [E1 E2].
    apply N.eqb_eq in E1. apply path_eqb_eq in E2. now subst.
  - intros H. exists (d, p). split; [assumption|]. cbn. now rewrite N.eqb_refl, path_eqb_refl.
Qed.

Lemma incl_pairs_In a b : incl_pairs a b = true -> forall x, In x a -> In x b.
Proof.
  unfold incl_pairs. rewrite forallb_forall. intros H x Hx. apply mem_pair_In. now apply H.
Qed.

Section Valid.
  Variable digest : alg -> token -> N.
  Variable fdigest : N -> token -> N.
  Variable parse_inv : token -> option inventory.
  Variable parse_sidecar : token -> option N.
  Variable parse_decl : token -> option spec_version.

  Notation errs := (tree_errors digest fdigest parse_inv parse_sidecar parse_decl).
  Notation inv_sc := (inv_and_sidecar digest parse_inv parse_sidecar).
  Notation wf := (wfP digest parse_inv parse_sidecar parse_decl).
  Notation verr := (version_errors digest parse_inv parse_sidecar).
  Notation vloop := (versions_loop digest parse_inv parse_sidecar).

  Ltac paths := unfold version_dir, content_root in *; cbn [app] in *.

  Lemma inv_sc_ok d vnum req maxv t k i sk :
    file_tok (d ++ [SInv]) t = Some k -> parse_inv k = Some i ->
    match req with
    | Some r => r = inv_spec i
    | None => match maxv with Some m => spec_leb (inv_spec i) m = true | None => True end
    end ->
    match vnum with Some n => inv_head i = n | None => True end ->
    file_tok (d ++ [SSidecar (inv_alg i)]) t = Some sk ->
    parse_sidecar sk = Some (digest (inv_alg i) k) ->
    inv_sc d vnum req maxv t = ([], Some i, Some (inv_alg i), Some (digest (inv_alg i) k)).
  Proof.
    intros Hk Hp Hty Hhd Hsk Hps. unfold inv_and_sidecar. rewrite Hk, Hp.
    assert (E1 : match req with
                 | Some r => if spec_eqb r (inv_spec i) then [] else [E038]
                 | None => match maxv with
                           | Some m => if spec_leb (inv_spec i) m then [] else [E103]
                           | None => []
                           end
                 end = []).
    { destruct req as [r|]; [subst; now rewrite spec_eqb_refl|]. destruct maxv as [m|]; [now rewrite Hty|reflexivity]. }
    assert (E2 : match vnum with
                 | Some n => if N.eqb (inv_head i) n then [] else [E040]
                 | None => []
                 end = []).
    { destruct vnum as [n|]; [subst; now rewrite N.eqb_refl|reflexivity]. }
    rewrite E1, E2. cbn [app nilb].
    assert (M : mem_alg (inv_alg i) (sidecar_algs d t) = true).
    { apply mem_alg_In. unfold sidecar_algs. apply filter_In. split.
      - destruct (inv_alg i); cbn; tauto.
      - apply has_file_true. now exists sk. }
    rewrite M, Hsk. unfold sidecar_errors. rewrite Hps, N.eqb_refl. reflexivity.
  Qed.

  Lemma slot_first root s s2 r :
    slot root (s :: s2 :: r) -> exists m, s = SVer (inv_pad root) m /\ in_versions root m = true.
  Proof.
    intros S. remember (s :: s2 :: r) as y eqn:Ey.
    destruct S; paths; try discriminate; injection Ey; intros; subst; eauto.
  Qed.

  Lemma slot_root_level root s :
    slot root [s] -> s = SDecl (inv_spec root) \/ s = SInv \/ s = SSidecar (inv_alg root).
  Proof.
    intros S. remember [s] as y eqn:Ey.
    destruct S; paths; try discriminate; injection Ey; intros; subst; auto.
  Qed.

  Lemma slot_vfile root w m s :
    slot root [SVer w m; s] -> s = SInv \/ s = SSidecar (inv_alg root).
  Proof.
    intros S. remember [SVer w m; s] as y eqn:Ey.
    destruct S; paths; try discriminate; injection Ey; intros; subst; auto.
  Qed.

  Section WithWf.
    Variables (t : tree) (itok : token) (root : inventory).
    Hypothesis W : wf t itok root.

    Let L := w_leaves _ _ _ _ _ _ _ W.

    Lemma wf_file_tok q k : In (q, File k) t -> file_tok q t = Some k.
    Proof. intros H. apply file_tok_lookup. now apply leaves_lookup. Qed.

    Lemma identify_ok : identify_spec t = Some (inv_spec root).
    Proof.
      destruct (w_decl _ _ _ _ _ _ _ W) as (dk & Hdk & _).
      assert (X : forall v, has_file [] (SDecl v) t = true -> v = inv_spec root).
      { intros v Hv. apply has_file_true in Hv as [k Hv]. cbn in Hv.
        destruct (wf_entry _ _ _ _ _ _ _ W _ _ (file_tok_In _ _ _ Hv)) as (_ & _ & S).
        inversion S; subst; reflexivity. }
      assert (Y : has_file [] (SDecl (inv_spec root)) t = true) by (apply has_file_true; now exists dk).
      unfold identify_spec.
      destruct (has_file [] (SDecl V10) t) eqn:E0; [now rewrite (X _ E0)|].
      destruct (has_file [] (SDecl V11) t) eqn:E1; [now rewrite (X _ E1)|].
      destruct (inv_spec root); congruence.
    Qed.

    Lemma namaste_ok : namaste_errors parse_decl t = [].
    Proof.
      unfold namaste_errors. rewrite identify_ok.
      destruct (w_decl _ _ _ _ _ _ _ W) as (dk & -> & ->). cbn. now rewrite spec_eqb_refl.
    Qed.

    Lemma root_inv_sc_ok :
      inv_sc [] None (Some (inv_spec root)) None t
      = ([], Some root, Some (inv_alg root), Some (digest (inv_alg root) itok)).
    Proof.
      destruct (w_inv _ _ _ _ _ _ _ W) as [Hi Hp].
      destruct (w_sidecar _ _ _ _ _ _ _ W) as (sk & Hsk & Hps).
      eapply inv_sc_ok; eauto.
    Qed.

    Lemma root_listing_nonempty : nilb (list_dir [] t) = false.
    Proof.
      destruct (w_inv _ _ _ _ _ _ _ W) as [Hi _]. apply file_tok_In in Hi.
      assert (X : In (KFile, SInv) (list_dir [] t)).
      { apply list_dir_In. exists [SInv], (File itok). split; [assumption|]. right. left. now split. }
      destruct (list_dir [] t); [destruct X | reflexivity].
    Qed.

    Lemma vdir_below m : in_versions root m = true -> below (version_dir root m) t = true.
    Proof.
      intros Hm. destruct (wf_version_files _ _ _ _ _ _ _ W m Hm) as (km & _ & Hkm & _).
      apply below_true. exists (version_dir root m ++ [SInv]), (File km), SInv, [].
      split; [now apply file_tok_In | reflexivity].
    Qed.

    Lemma root_contents_ok :
      root_contents_errors t (Some (inv_spec root)) (Some root) (Some (inv_alg root)) = [].
    Proof.
      unfold root_contents_errors.
      assert (P1 : flat_map (root_entry_errors (Some (inv_spec root)) (Some root) (Some (inv_alg root))) (list_dir [] t) = []).
      { apply flat_map_nil_intro. intros [k s] Hin. apply list_dir_In in Hin as (q & n & Hin & Hc).
        destruct (wf_entry _ _ _ _ _ _ _ W _ _ Hin) as (k0 & -> & S).
        destruct Hc as [(-> & _)|[(-> & ->)|(s2 & r & -> & ->)]].
        - inversion S.
        - cbn [app] in S. unfold root_entry_errors.
          destruct (slot_root_level _ _ S) as [->|[->| ->]]; cbn;
            try (now rewrite spec_eqb_refl); try (now rewrite alg_eqb_refl); reflexivity.
        - cbn [app] in S. unfold root_entry_errors.
          destruct (slot_first _ _ _ _ S) as (m & -> & Hm). cbn. now rewrite N.eqb_refl, Hm. }
      assert (P2 : flat_map (fun n => if has_dir [] (SVer (inv_pad root) n) t then [] else [E010]) (vnums root) = []).
      { apply flat_map_nil_intro. intros m Hm. apply vnums_In in Hm.
        unfold has_dir. cbn [app]. pose proof (vdir_below m Hm) as X. unfold version_dir in X. now rewrite X. }
      assert (P3 : has_dir [] SExt t = false).
      { unfold has_dir. cbn [app]. apply orb_false_iff. split.
        - destruct (below [SExt] t) eqn:E; [|reflexivity].
          apply below_true in E as (q & n & s & r & Hin & ->).
          destruct (wf_entry _ _ _ _ _ _ _ W _ _ Hin) as (_ & _ & S). inversion S.
        - destruct (lookup [SExt] t) as [n|] eqn:E; [|reflexivity].
          apply lookup_In in E. destruct (wf_entry _ _ _ _ _ _ _ W _ _ E) as (_ & _ & S). inversion S. }
      now rewrite P1, P2, P3.
    Qed.

    Lemma content_ok : content_errors root t = [].
    Proof.
      unfold content_errors. apply flat_map_nil_intro. intros m _. apply flat_map_nil_intro.
      intros [k r] Hin. apply list_rec_In in Hin as (n & Hin & -> & _).
      destruct (wf_entry _ _ _ _ _ _ _ W _ _ Hin) as (k0 & -> & _). reflexivity.
    Qed.

    (** content files found on disk are manifest paths *)
    Lemma cfs_in_manifest m p :
      In (m, p) (content_files root t) -> In p (map snd (inv_manifest root)) /\ path_version p = Some m.
    Proof.
      intros H. apply content_files_inv in H as (Hm & r & k & -> & Hin).
      split; [|reflexivity].
      destruct (wf_entry _ _ _ _ _ _ _ W _ _ Hin) as (_ & _ & S).
      remember (content_root root m ++ r) as y eqn:Ey. unfold content_root in Ey. cbn [app] in Ey.
      destruct S; paths; try discriminate; try assumption; injection Ey; intros; subst; discriminate.
    Qed.

    Lemma manifest_shape d p :
      In (d, p) (inv_manifest root) ->
      exists m s r k, in_versions root m = true /\ p = content_root root m ++ s :: r
                      /\ In (p, File k) t /\ digest (inv_alg root) k = d.
    Proof.
      intros H. destruct (wf_manifest_file _ _ _ _ _ _ _ W d p H) as (k & Hk & Hd).
      apply (w_manifest _ _ _ _ _ _ _ W) in H. unfold manifest_entry_okb in H. cbn [fst snd] in H.
      destruct p as [|[] [|[] [|s r]]]; try discriminate.
      repeat (apply andb_true_iff in H as [H ?]). apply N.eqb_eq in H. subst.
      match goal with X : N.eqb _ _ = true |- _ => apply N.eqb_eq in X; subst end.
      exists n, s, r, k. repeat split; try assumption. now apply file_tok_In.
    Qed.

    Lemma manifest_in_cfs d p :
      In (d, p) (inv_manifest root) ->
      exists m, In (m, p) (content_files root t) /\ in_versions root m = true /\ path_version p = Some m.
    Proof.
      intros H. destruct (manifest_shape d p H) as (m & s & r & k & Hm & -> & Hin & _).
      exists m. split; [|split; [assumption|reflexivity]]. eapply content_files_In; eauto.
    Qed.

    Lemma in_versions_le m : in_versions root m = true -> m <= inv_head root.
    Proof. unfold in_versions. intros H. apply andb_true_iff in H as [_ H]. now apply N.leb_le. Qed.

    Lemma manifest_functional d d' p :
      In (d, p) (inv_manifest root) -> In (d', p) (inv_manifest root) -> d = d'.
    Proof.
      intros H1 H2. pose proof (w_nodup _ _ _ _ _ _ _ W) as ND.
      apply (mdigest_nodup _ _ _ ND) in H1. apply (mdigest_nodup _ _ _ ND) in H2. congruence.
    Qed.

    Lemma root_manifest_ok : manifest_errors root (content_files root t) root [] = [].
    Proof.
      unfold manifest_errors. rewrite alg_eqb_refl, (w_fixity _ _ _ _ _ _ _ W). cbn [flat_map]. rewrite app_nil_r.
      apply app_nil_intro.
      - apply flat_map_nil_intro. intros [m p] Hin. apply filter_In in Hin as [Hin _]. cbn [snd].
        destruct (cfs_in_manifest m p Hin) as [Hman _].
        destruct (mdigest (inv_manifest root) p) as [d|] eqn:E.
        + now rewrite N.eqb_refl.
        + apply mdigest_None in E. contradiction.
      - apply flat_map_nil_intro. intros [d p] Hin. cbn [snd].
        destruct (manifest_in_cfs d p Hin) as (m & Hcf & Hm & _).
        assert (X : mem_path p (map snd (filter (fun vp => fst vp <=? inv_head root) (content_files root t))) = true).
        { apply mem_path_In. apply in_map_iff. exists (m, p). split; [reflexivity|]. apply filter_In.
          split; [assumption|]. cbn. apply N.leb_le. now apply in_versions_le. }
        now rewrite X.
    Qed.

    Lemma version_contents_ok m :
      in_versions root m = true ->
      version_contents_errors t (version_dir root m) (inv_cdir root) (inv_alg root) = [].
    Proof.
      intros Hm. unfold version_contents_errors. apply flat_map_nil_intro.
      intros [k s] Hin. apply list_dir_In in Hin as (q & n & Hin & Hc).
      destruct (wf_entry _ _ _ _ _ _ _ W _ _ Hin) as (k0 & -> & S).
      destruct Hc as [(-> & _)|[(-> & ->)|(s2 & r & -> & ->)]].
      - inversion S.
      - unfold version_dir in S. cbn [app] in S.
        destruct (slot_vfile _ _ _ _ S) as [->| ->]; cbn; [reflexivity|]. now rewrite alg_eqb_refl.
      - reflexivity.
    Qed.

    Lemma head_version_ok : head_version_errors digest parse_sidecar t root (digest (inv_alg root) itok) = [].
    Proof.
      pose proof (in_versions_head root (w_versions_ne _ _ _ _ _ _ _ W)) as Hh.
      destruct (wf_version_files _ _ _ _ _ _ _ W _ Hh) as (km & sk & Hkm & Hsk & Hps & Hhead & _).
      unfold head_version_errors. rewrite Hkm, Hsk, (Hhead eq_refl), N.eqb_refl.
      unfold sidecar_errors. rewrite Hps, (Hhead eq_refl), N.eqb_refl. cbn [app].
      now apply version_contents_ok.
    Qed.

    (** *** older versions *)

    Record old_ok (n : N) (i : inventory) : Prop := {
      o_in : in_versions root n = true;
      o_nh : n <> inv_head root;
      o_tok : exists km sk, file_tok (version_dir root n ++ [SInv]) t = Some km /\ parse_inv km = Some i
                /\ file_tok (version_dir root n ++ [SSidecar (inv_alg root)]) t = Some sk
                /\ parse_sidecar sk = Some (digest (inv_alg root) km);
      o_id : inv_id i = inv_id root;
      o_alg : inv_alg i = inv_alg root;
      o_pad : inv_pad i = inv_pad root;
      o_cdir : inv_cdir i = inv_cdir root;
      o_versions : inv_versions i = firstn_N n 1 (inv_versions root);
      o_man1 : forall x, In x (inv_manifest i) -> In x (inv_manifest root) /\ version_le (snd x) n = true;
      o_man2 : forall x, In x (inv_manifest root) -> version_le (snd x) n = true -> In x (inv_manifest i);
      o_fixity : inv_fixity i = [];
      o_spec : exists j, vinv parse_inv t root (N.succ n) = Some j /\ spec_leb (inv_spec i) (inv_spec j) = true
    }.

    Lemma wf_old n : in_versions root n = true -> n <> inv_head root -> exists i, old_ok n i.
    Proof.
      intros Hn Hnh. pose proof (w_versions _ _ _ _ _ _ _ W n Hn) as H. unfold version_okb in H.
      destruct (file_tok (version_dir root n ++ [SInv]) t) as [km|] eqn:Ekm; [|discriminate].
      destruct (file_tok (version_dir root n ++ [SSidecar (inv_alg root)]) t) as [sk|] eqn:Esk; [|discriminate].
      apply andb_true_iff in H as [H1 H2]. apply opt_eqb_N in H1.
      pose proof Hnh as Hnh'. apply N.eqb_neq in Hnh'. rewrite Hnh' in H2.
      destruct (parse_inv km) as [i|] eqn:Ei; [|discriminate].
      repeat (apply andb_true_iff in H2 as [H2 ?]).
      exists i. constructor; try assumption.
      - now exists km, sk.
      - now apply N.eqb_eq.
      - now apply alg_eqb_eq.
      - now apply N.eqb_eq.
      - now apply N.eqb_eq.
      - match goal with X : list_eqb state_eqb _ _ = true |- _ => apply (list_eqb_eq state_eqb state_eqb_eq) in X; exact X end.
      - intros x Hx. match goal with X : incl_pairs (inv_manifest i) _ = true |- _ =>
          pose proof (incl_pairs_In _ _ X x Hx) as Y end. apply filter_In in Y. exact Y.
      - intros x Hx Hv. match goal with X : incl_pairs (filter _ _) (inv_manifest i) = true |- _ =>
          apply (incl_pairs_In _ _ X x) end. apply filter_In. now split.
      - now apply nilb_true.
      - match goal with X : match vinv _ _ _ _ with _ => _ end = true |- _ =>
          destruct (vinv parse_inv t root (N.succ n)) as [j|]; [|discriminate]; now exists j end.
    Qed.

    Lemma old_head n i : old_ok n i -> inv_head i = n.
    Proof.
      intros O. unfold inv_head. rewrite (o_versions _ _ O).
      pose proof (o_in _ _ O) as Hn. unfold in_versions, inv_head in Hn.
      apply andb_true_iff in Hn as [H1 H2]. apply N.leb_le in H1, H2.
      pose proof (nlength_firstn (inv_versions root) n 1). lia.
    Qed.

    Lemma old_get_version n i cur :
      old_ok n i -> 1 <= cur -> cur <= n -> get_version i cur = get_version root cur.
    Proof.
      intros O H1 H2. unfold get_version. rewrite (o_versions _ _ O). now apply nth_state_firstn.
    Qed.

    Lemma consistent_ok n i invs : old_ok n i -> consistent_errors n root i invs = [].
    Proof.
      intros O. unfold consistent_errors. rewrite (o_alg _ _ O), alg_eqb_refl.
      apply flat_map_nil_intro. intros cur Hcur. apply vnums_In in Hcur.
      unfold in_versions in Hcur. rewrite (old_head _ _ O) in Hcur.
      apply andb_true_iff in Hcur as [H1 H2]. apply N.leb_le in H1, H2.
      unfold state_consistent_errors. rewrite (old_get_version n i cur O H1 H2).
      set (st := get_version root cur).
      assert (ND : nodup_lpathb (map snd st) = true).
      { subst st. unfold get_version. destruct (nth_state_In (inv_versions root) cur 1) as [->|Hin]; [reflexivity|].
        now apply (w_states _ _ _ _ _ _ _ W). }
      apply app_nil_intro.
      - apply flat_map_nil_intro. intros [d lp] Hin. cbn [fst snd].
        rewrite (sdigest_nodup _ _ _ ND Hin). now rewrite N.eqb_refl.
      - apply flat_map_nil_intro. intros [d lp] Hin. cbn [snd].
        assert (X : mem_lpath lp (map snd st) = true).
        { apply mem_lpath_In. apply in_map_iff. now exists (d, lp). }
        now rewrite X.
    Qed.

    Lemma old_manifest_ok n i invs :
      old_ok n i -> manifest_errors i (content_files root t) root invs = [].
    Proof.
      intros O. unfold manifest_errors.
      rewrite (o_alg _ _ O), alg_eqb_refl, (o_fixity _ _ O), (old_head _ _ O). cbn [flat_map]. rewrite app_nil_r.
      apply app_nil_intro.
      - apply flat_map_nil_intro. intros [m p] Hin. apply filter_In in Hin as [Hin Hle]. cbn [fst snd] in *.
        destruct (cfs_in_manifest m p Hin) as [Hman Hpv].
        apply in_map_iff in Hman as [[x p'] [E Hman]]. cbn in E. subst p'.
        assert (Hv : version_le p n = true) by (unfold version_le; now rewrite Hpv).
        pose proof (o_man2 _ _ O (x, p) Hman Hv) as Hi.
        destruct (mdigest (inv_manifest i) p) as [d|] eqn:E.
        + apply mdigest_In in E. apply (o_man1 _ _ O) in E as [E _].
          rewrite (mdigest_nodup _ _ _ (w_nodup _ _ _ _ _ _ _ W) Hman).
          rewrite (manifest_functional _ _ _ Hman E). now rewrite N.eqb_refl.
        + apply mdigest_None in E. exfalso. apply E. apply in_map_iff. now exists (x, p).
      - apply flat_map_nil_intro. intros [d p] Hin. cbn [snd].
        apply (o_man1 _ _ O) in Hin as [Hin Hv]. cbn [snd] in Hv.
        destruct (manifest_in_cfs d p Hin) as (m & Hcf & Hm & Hpv).
        unfold version_le in Hv. rewrite Hpv in Hv.
        assert (X : mem_path p (map snd (filter (fun vp => fst vp <=? n) (content_files root t))) = true).
        { apply mem_path_In. apply in_map_iff. exists (m, p). split; [reflexivity|]. apply filter_In.
          split; [assumption|]. exact Hv. }
        now rewrite X.
    Qed.

    Lemma old_version_ok n i invs mx :
      old_ok n i -> spec_leb (inv_spec i) mx = true ->
      verr t root invs (Some mx) (content_files root t) n = ([], Some i).
    Proof.
      intros O Hmx. destruct (o_tok _ _ O) as (km & sk & Hkm & Hpi & Hsk & Hps).
      unfold version_errors.
      assert (Hf : has_file (version_dir root n) SInv t = true) by (apply has_file_true; now exists km).
      rewrite Hf.
      rewrite (inv_sc_ok (version_dir root n) (Some n) None (Some mx) t km i sk Hkm Hpi Hmx (old_head _ _ O)).
      2:{ now rewrite (o_alg _ _ O). }
      2:{ now rewrite (o_alg _ _ O). }
      rewrite (o_id _ _ O), (o_cdir _ _ O), (o_pad _ _ O), !N.eqb_refl.
      rewrite (consistent_ok n i invs O), (old_manifest_ok n i invs O). cbn [app].
      rewrite (o_alg _ _ O), (version_contents_ok n (o_in _ _ O)). reflexivity.
    Qed.

    (** inventories collected by the loop *)
    Definition good_invs (invs : list (alg * inventory)) : Prop :=
      forall a i, In (a, i) invs ->
        a = inv_alg root /\ forall x, In x (inv_manifest i) -> In x (inv_manifest root).

    Lemma spec_min_le a b : spec_leb a b = true -> spec_min a b = a.
    Proof. unfold spec_min. now intros ->. Qed.

    Lemma vinv_old n i : old_ok n i -> vinv parse_inv t root n = Some i.
    Proof.
      intros O. unfold vinv. pose proof (o_nh _ _ O) as H. apply N.eqb_neq in H. rewrite H.
      destruct (o_tok _ _ O) as (km & sk & -> & -> & _). reflexivity.
    Qed.

    Lemma loop_ok (l : list (list (N * lpath))) : forall invs mx,
      nlength l < inv_head root ->
      good_invs invs ->
      (forall i, old_ok (nlength l) i -> spec_leb (inv_spec i) mx = true) ->
      exists invs', vloop t root (content_files root t) (desc l) invs (Some mx) = ([], invs') /\ good_invs invs'.
    Proof.
      induction l as [|x l IH]; intros invs mx Hlen Hg Hmx.
      - exists invs. split; [reflexivity|assumption].
      - cbn [desc nlength] in *. set (n := N.succ (nlength l)) in *.
        assert (Hn : in_versions root n = true).
        { unfold in_versions. apply andb_true_iff. rewrite !N.leb_le. lia. }
        assert (Hnh : n <> inv_head root) by lia.
        destruct (wf_old n Hn Hnh) as [i O].
        cbn [versions_loop]. rewrite (old_version_ok n i invs mx O (Hmx i O)).
        rewrite (spec_min_le _ _ (Hmx i O)).
        set (invs1 := match assoc_alg (inv_alg i) invs with Some _ => invs | None => invs ++ [(inv_alg i, i)] end).
        assert (Hg1 : good_invs invs1).
        { subst invs1. destruct (assoc_alg (inv_alg i) invs); [assumption|].
          intros a j Hin. apply in_app_iff in Hin as [Hin|[Hin|[]]]; [now apply Hg|].
          injection Hin as <- <-. split; [apply (o_alg _ _ O)|]. intros y Hy. now apply (o_man1 _ _ O) in Hy as [Hy _]. }
        destruct (IH invs1 (inv_spec i)) as (invs' & Hl & Hg'); [lia|assumption| |].
        + intros j Oj. destruct (o_spec _ _ Oj) as (j' & Hv & Hle).
          fold n in Hv. rewrite (vinv_old n i O) in Hv. injection Hv as <-. assumption.
        + exists invs'. rewrite Hl. split; [reflexivity|assumption].
    Qed.

    Lemma older_loop_ok :
      exists invs', vloop t root (content_files root t) (older root) [] (Some (inv_spec root)) = ([], invs')
                    /\ good_invs invs'.
    Proof.
      unfold older. pose proof (w_versions_ne _ _ _ _ _ _ _ W) as Hne.
      apply loop_ok.
      - unfold inv_head. destruct (inv_versions root) as [|x l]; [congruence|]. cbn [tl nlength]. lia.
      - intros a i [].
      - intros i O. destruct (o_spec _ _ O) as (j & Hv & Hle).
        assert (E : N.succ (nlength (tl (inv_versions root))) = inv_head root).
        { unfold inv_head. destruct (inv_versions root) as [|x l]; [congruence|]. reflexivity. }
        rewrite E in Hv. unfold vinv in Hv. rewrite N.eqb_refl in Hv. injection Hv as <-. assumption.
    Qed.

    Lemma good_assoc invs a i : good_invs invs -> assoc_alg a invs = Some i ->
      a = inv_alg root /\ forall x, In x (inv_manifest i) -> In x (inv_manifest root).
    Proof. intros Hg H. apply assoc_alg_In in H. now apply Hg. Qed.

    Lemma fixity_ok invs : good_invs invs -> fixity_errors digest fdigest t root invs (content_files root t) = [].
    Proof.
      intros Hg. unfold fixity_errors. apply flat_map_nil_intro. intros [m p] Hin. cbn [snd].
      apply filter_In in Hin as [Hin _].
      destruct (cfs_in_manifest m p Hin) as [Hman _].
      apply content_files_inv in Hin as (_ & r & k & _ & Hk). apply wf_file_tok in Hk.
      pose proof (wf_content_digest _ _ _ _ _ _ _ W p k Hk Hman) as Hd.
      rewrite Hd, Hk, (w_fixity _ _ _ _ _ _ _ W).
      apply app_nil_intro; [|reflexivity].
      apply flat_map_nil_intro. intros a _.
      destruct (assoc_alg a invs) as [i|] eqn:Ea.
      - destruct (good_assoc _ _ _ Hg Ea) as [-> Hsub].
        destruct (mdigest (inv_manifest i) p) as [x|] eqn:Ex.
        + apply mdigest_In in Ex. apply Hsub in Ex.
          apply (mdigest_nodup _ _ _ (w_nodup _ _ _ _ _ _ _ W)) in Ex. rewrite Hd in Ex. injection Ex as <-.
          now rewrite N.eqb_refl.
        + now rewrite alg_eqb_refl, N.eqb_refl.
      - destruct (alg_eqb a (inv_alg root)) eqn:E; [|reflexivity].
        apply alg_eqb_eq in E. subst. now rewrite N.eqb_refl.
    Qed.

    Lemma wf_valid fx : errs fx t = [].
    Proof.
      unfold tree_errors. rewrite root_listing_nonempty, identify_ok, root_inv_sc_ok, namaste_ok. cbn [app nilb].
      rewrite root_contents_ok, content_ok, root_manifest_ok, head_version_ok. cbn [app].
      destruct older_loop_ok as (invs' & -> & Hg).
      destruct fx; [|reflexivity]. now rewrite fixity_ok.
    Qed.
  End WithWf.

  Theorem written_valid_all fx t :
    written_by_rocfl digest parse_inv parse_sidecar parse_decl t -> errs fx t = [].
  Proof.
    intros H. destruct (wf_unfold _ _ _ _ _ H) as (itok & root & W). now apply (wf_valid t itok root W).
  Qed.
End Valid.
