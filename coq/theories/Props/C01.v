(** C01 - every repository state rocfl can produce is a valid OCFL repository
    (inventory-level part: manifest/state algebra of all reachable objects).
    Property theorems only. *)
From Coq Require Import NArith Ascii.
From stdpp Require Import gmap.
From Rocfl Require Import Model.Inventory Model.InvSpec Proofs.InventoryFacts Model.KnownC01 Proofs.KnownC01Facts
  Model.RefusedCommit Proofs.RefusedCommitFacts.

(** every reachable committed inventory is valid and every reachable staged
    inventory satisfies the staged invariant, for all histories of new / cp / mv /
    rm / reset / commit / reset-all / purge and all outcomes of the hash-order
    dependent dedup choice *)
Theorem C01_reachable_valid : ∀ ops : list oop,
  let s := foldl ostep oinit ops in
  (∀ i, o_main s = Some i → InvOK i) ∧ (∀ i, o_staged s = Some i → StagedWF i).
Proof. exact reachable_ok. Qed.
Print Assumptions C01_reachable_valid.

Theorem C01_commit_valid : ∀ pre post, StagedWF pre → dedup_okb pre post = true → InvOK post.
Proof. exact dedup_valid. Qed.
Print Assumptions C01_commit_valid.

Theorem C01_staging_preserves_invariant : ∀ o i, StagedWF i → StagedWF (sapply o i).
Proof. exact sapply_wf. Qed.
Print Assumptions C01_staging_preserves_invariant.

Theorem C01_next_version_staged_from_valid : ∀ i, InvOK i → StagedWF (create_staging_head i).
Proof. exact create_staging_head_wf. Qed.
Print Assumptions C01_next_version_staged_from_valid.

(** each commit keeps at most one new content path per digest, and none for a
    digest the object already held *)
Theorem C01_one_new_file_per_digest : ∀ pre post d,
  StagedWF pre → dedup_okb pre post = true →
  (length (filter (λ c : cpath, is_head_cp pre c) (paths_of (i_manifest post) d)) ≤ 1)%nat ∧
  (committed_copy pre d → filter (λ c : cpath, is_head_cp pre c) (paths_of (i_manifest post) d) = []).
Proof. exact dedup_one_per_digest. Qed.
Print Assumptions C01_one_new_file_per_digest.

(** non-vacuity: a concrete history (two versions, a duplicate, an internal copy
    over a new file - the pre-fix defect e2e0f78 - and a removal) reaches a committed
    two-version object through the canonical dedup *)
Definition ex_a : lpath := [["a"%char]].
Definition ex_b : lpath := [["d"%char]; ["b"%char]].
Definition ex_n : lpath := [["n"%char]].
Definition ex_run : ostate :=
  let s1 := foldl ostep oinit [ONew; OStage (SAdd 1 ex_a); OStage (SAdd 1 ex_b)] in
  let s2 := ostep s1 (OCommit (dedup_canon (default new_inventory (o_staged s1)))) in
  let s3 := foldl ostep s2 [OStage (SAdd 2 ex_n); OStage (SCopyInt 2 ex_a ex_n); OStage (SRemove ex_b)] in
  ostep s3 (OCommit (dedup_canon (default new_inventory (o_staged s3)))).
Example C01_nonvacuous :
  (∃ i, o_main ex_run = Some i ∧ head i = 2%N ∧ size (i_manifest i) = 1%nat) ∧ o_staged ex_run = None.
Proof. split; [eexists; split; [vm_compute; reflexivity|split; vm_compute; reflexivity]|vm_compute; reflexivity]. Qed.

(** Refused commits (repair 890d206 of the former known finding failed-commit-dedup-persisted).  commit_inner
    de-duplicates the staged head before the store can still refuse the commit (no layout and no object root, root
    occupied, version out of sync) or fail; the version then stays staged.  Since the repair the staged files that
    were removed only because another STAGED file has the same content are put back: what stays removed are the head
    content paths whose digest has committed content ([refused_commit], Model/RefusedCommit.v).  That inventory is
    inside the staged invariant, every head path keeps its own file unless committed content backs it, and histories
    with refused commits at any point keep every committed inventory valid and every staged one well formed. *)
Theorem C01_refused_commit_keeps_invariant : ∀ i, StagedWF i → StagedWF (refused_commit i).
Proof. exact refused_commit_wf. Qed.
Print Assumptions C01_refused_commit_keeps_invariant.

Theorem C01_refused_commit_keeps_own_files : ∀ i p d,
  StagedWF i → i_hstate i !! p = Some d → has_nonhead i d = false →
  i_manifest (refused_commit i) !! ncp i p = Some d.
Proof. exact refused_commit_keeps_own_files. Qed.
Print Assumptions C01_refused_commit_keeps_own_files.

Theorem C01_reachable_valid_with_refused_commits : ∀ ops : list oop_r,
  let s := foldl ostep_r oinit ops in
  (∀ i, o_main s = Some i → InvOK i) ∧ (∀ i, o_staged s = Some i → StagedWF i).
Proof. exact reachable_ok_r. Qed.
Print Assumptions C01_reachable_valid_with_refused_commits.

(** historical note: BEFORE the repair the staged inventory after a refused commit was the fully de-duplicated one
    ([post] below), which is outside the invariant ([c01_failed_commit_dedup] = clause I5 fails), and a removal on it
    left a digest without content: there are pre, post = a de-duplication of pre, and a path p such that removing p
    from post leaves a dangling digest while removing it from pre does not *)
Theorem C01_history_failed_commit_dedup_before_fix :
  ∃ pre post p,
    StagedWF pre ∧ dedup_okb pre post = true ∧
    c01_failed_commit_dedup pre = false ∧ c01_failed_commit_dedup post = true ∧
    dangling_digest (sapply (SRemove p) post) = true ∧
    dangling_digest (sapply (SRemove p) pre) = false.
Proof. exact failed_commit_dedup_witness. Qed.
Print Assumptions C01_history_failed_commit_dedup_before_fix.

(** ... and on the same instance the refused commit of the repaired code changes nothing at all *)
Example C01_refused_commit_on_the_historical_instance : refused_commit kf_pre = kf_pre.
Proof. apply (bool_decide_eq_true_1 (refused_commit kf_pre = kf_pre)). vm_compute. reflexivity. Qed.

(** no inventory inside the invariant fails clause I5 *)
Theorem C01_invariant_implies_own_or_committed : ∀ i, StagedWF i → c01_failed_commit_dedup i = false.
Proof. exact staged_wf_outside_class. Qed.
Print Assumptions C01_invariant_implies_own_or_committed.

(** * file-system level: the fault-free commit of the protocol model (Model/FsTree.v, Model/Commit.v) leaves an object
    root that abstracts (Model/CommitAbs.v: [abs]) to a tree satisfying [written_by_rocfl] (Model/ObjTree.v) - every
    version directory with its inventory and sidecar, the head's identical to the root's, content files <=> manifest
    paths <=> used by some state, no empty directory, no stray file - which the transcription of rocfl's validator
    accepts (Props/C06.v, [written_valid]).

    Quantified over: the name abstraction [aseg] (any injective one), the meaning [interp] of inventory bytes, the
    digest function [dg], the algorithm [al]; every configuration, tree and staged inventory satisfying [commit_pre]
    (C04/C05) and [commit_pre_tree] (= [staged_pre]: well-formed tree, token/inventory agreement, the committed inventory
    is the staged one minus the duplicates and is closed, staged version directory = inventory + sidecar + content whose
    manifest files carry the manifest digests, staged inventory extends the object's root inventory; and
    [main_written]: the object in the repository is absent or [written_by_rocfl] with no directory named like a
    declaration).  First versions, further versions, dedup, orphans, emptied directories, delete-only versions and the
    declaration swap of an upgrade are all covered; no bound on sizes. *)
(* Model/Commit.v declares the monad notation "_ ;; _" at another level than stdpp: the file-system models are
   required, not imported, and their names are written qualified *)
From Rocfl Require Model.FsTree Model.Commit Corr.CheckCommit Model.ObjTree Model.TreeValidate.
From Rocfl Require Import Model.FsOps Model.CommitAbs Proofs.CommitAbsMain Proofs.CommitAbsPurge Proofs.CommitAbsWitness.

Theorem C01_commit_yields_written_object :
  forall (aseg : fseg -> oseg), (forall x y, aseg x = aseg y -> x = y) ->
  forall (interp : N -> option oinv) (dg : oalg -> ObjTree.token -> N) (al : oalg),
  forall c t i, Commit.commit_pre c t i -> commit_pre_tree aseg interp dg al c t i ->
    let t' := Commit.run_tree (Commit.commit c) t Commit.NoInj in
    let o' := abs aseg t' (Commit.c_mo c) in
    twf t' /\ written interp dg al o'
    /\ ObjTree.root_inv (parse_inv interp) o' = interp (Commit.c_newk c) /\ interp (Commit.c_newk c) <> None
    /\ main_written aseg interp dg al c t'
    /\ forall fd, TreeValidate.tree_errors dg fd (parse_inv interp) (parse_sidecar dg al) parse_decl true o' = []
                  /\ TreeValidate.tree_errors dg fd (parse_inv interp) (parse_sidecar dg al) parse_decl false o' = [].
Proof. exact commit_yields_written_full. Qed.
Print Assumptions C01_commit_yields_written_object.

(** the same with every hypothesis a boolean: what the correspondence check evaluates on real pre-states *)
Theorem C01_commit_yields_written_object_checkable :
  forall (aseg : fseg -> oseg), (forall x y, aseg x = aseg y -> x = y) ->
  forall (interp : N -> option oinv) (dg : oalg -> ObjTree.token -> N) (al : oalg),
  forall c t i, Commit.commit_pre_b c t i = true -> commit_pre_tree_b aseg interp dg al c t i = true ->
    writtenb interp dg al (abs aseg (Commit.run_tree (Commit.commit c) t Commit.NoInj) (Commit.c_mo c)) = true.
Proof. exact commit_yields_written_checkable. Qed.
Print Assumptions C01_commit_yields_written_object_checkable.

(** histories: from an absent object, any sequence of (anything outside the object root; a commit satisfying
    [commit_pre] and the STAGED part [staged_pre] of the precondition) keeps the object [written_by_rocfl] -
    the part [main_written] of the precondition is an invariant, not an assumption *)
Theorem C01_reachable_tree_valid :
  forall (aseg : fseg -> oseg), (forall x y, aseg x = aseg y -> x = y) ->
  forall (interp : N -> option oinv) (dg : oalg -> ObjTree.token -> N) (al : oalg),
  forall mo t, reach aseg interp dg al mo t ->
    twf t /\ (Commit.none_under t mo = true \/
              (written interp dg al (abs aseg t mo)
               /\ forall fd, TreeValidate.tree_errors dg fd (parse_inv interp) (parse_sidecar dg al) parse_decl true (abs aseg t mo) = []
                             /\ TreeValidate.tree_errors dg fd (parse_inv interp) (parse_sidecar dg al) parse_decl false (abs aseg t mo) = [])).
Proof. exact reachable_valid. Qed.
Print Assumptions C01_reachable_tree_valid.

(** the concrete name abstraction used by the correspondence check is injective *)
Theorem C01_name_abstraction_injective :
  forall inv side a pad vs x y, aseg_tab inv side a pad vs x = aseg_tab inv side a pad vs y -> x = y.
Proof. exact CommitAbsFacts.aseg_tab_inj. Qed.
Print Assumptions C01_name_abstraction_injective.

(** non-vacuity: a first version, then a second version staged on its result (a new file, a duplicate of committed
    content alone in a directory, an orphan in two nested directories of its own) satisfy every hypothesis; the
    history is [reach]able; the second commit leaves exactly v1 + v2 with the one new file *)
Example C01_fs_nonvacuous :
  (Commit.commit_pre_b w_cfg1 w_tree1 w_inv1 = true /\ commit_pre_tree_b w_aseg w_interp dg_id ObjTree.Sha512 w_cfg1 w_tree1 w_inv1 = true)
  /\ (Commit.commit_pre_b w_cfg2 w_tree2 w_inv2 = true /\ commit_pre_tree_b w_aseg w_interp dg_id ObjTree.Sha512 w_cfg2 w_tree2 w_inv2 = true)
  /\ (forall x y, w_aseg x = w_aseg y -> x = y)
  /\ reach w_aseg w_interp dg_id ObjTree.Sha512 CheckCommit.ex_mo w_after2
  /\ writtenb w_interp dg_id ObjTree.Sha512 (abs w_aseg w_after2 CheckCommit.ex_mo) = true
  /\ List.length (abs w_aseg w_after2 CheckCommit.ex_mo) = 9%nat.
Proof.
  split; [exact w_pre1|]. split; [exact w_pre2|]. split; [exact w_aseg_inj|]. split; [exact w_reach|].
  split; [exact w_written2|]. rewrite w_result2. reflexivity.
Qed.

(** purge (fs.rs purge_object of the main store, [purge_main]): it succeeds, nothing is left at or below the object
    root, every ancestor directory that is still there is not empty (the emptied ones are gone), and nothing that is
    neither in the object nor an ancestor of it changes *)
Theorem C01_purge_leaves_nothing :
  forall mo t, twf t -> mo <> [] -> FsTree.lookup t mo = Some FsTree.Dir -> Commit.is_object_rootb t mo = true ->
    let t' := Commit.run_tree (purge_main mo) t Commit.NoInj in
    fst (Commit.run (purge_main mo) t Commit.NoInj) = Commit.ROk tt /\ twf t'
    /\ (forall x, under mo x = true -> FsTree.lookup t' x = None)
    /\ (forall q, q <> [] -> under q (FsTree.parent mo) = true -> FsTree.lookup t' q = Some FsTree.Dir ->
                  FsTree.has_children t' q = true)
    /\ (forall x, under mo x = false -> under x mo = false -> FsTree.lookup t' x = FsTree.lookup t x).
Proof. exact purge_main_spec. Qed.
Print Assumptions C01_purge_leaves_nothing.

(** non-vacuity: the two-version object of the example above is purged; its parent directory, which held nothing
    else, goes with it *)
Example C01_purge_nonvacuous :
  twf_b w_after2 = true /\ FsTree.lookup w_after2 CheckCommit.ex_mo = Some FsTree.Dir
  /\ Commit.is_object_rootb w_after2 CheckCommit.ex_mo = true
  /\ Commit.none_under (Commit.run_tree (purge_main CheckCommit.ex_mo) w_after2 Commit.NoInj) w_rootdir = true.
Proof. vm_compute. repeat split. Qed.
