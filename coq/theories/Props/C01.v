(** C01 - every repository state rocfl can produce is a valid OCFL repository
    (inventory-level part: manifest/state algebra of all reachable objects).
    Property theorems only. *)
From Coq Require Import NArith Ascii.
From stdpp Require Import gmap.
From Rocfl Require Import Model.Inventory Model.InvSpec Proofs.InventoryFacts.

(** every reachable committed inventory is valid and every reachable staged
    inventory satisfies the staged invariant, for all histories of new / cp / mv /
    rm / reset / commit / reset-all / purge and all outcomes of the hash-order
    dependent dedup choice *)
Theorem C01_reachable_valid : ∀ ops : list oop,
  let s := foldl ostep oinit ops in
  (∀ i, o_main s = Some i → InvOK i) ∧ (∀ i, o_staged s = Some i → StagedWF i).
Proof. exact reachable_ok. Qed.
Print Assumptions C01_reachable_valid.

Theorem C01_commit_valid : ∀ pre post, StagedWF pre → dedup_okb pre post = true → InvOK post.
Proof. exact dedup_valid. Qed.
Print Assumptions C01_commit_valid.

Theorem C01_staging_preserves_invariant : ∀ o i, StagedWF i → StagedWF (sapply o i).
Proof. exact sapply_wf. Qed.
Print Assumptions C01_staging_preserves_invariant.

Theorem C01_next_version_staged_from_valid : ∀ i, InvOK i → StagedWF (create_staging_head i).
Proof. exact create_staging_head_wf. Qed.
Print Assumptions C01_next_version_staged_from_valid.

(** each commit keeps at most one new content path per digest, and none for a
    digest the object already held *)
Theorem C01_one_new_file_per_digest : ∀ pre post d,
  StagedWF pre → dedup_okb pre post = true →
  (length (filter (λ c : cpath, is_head_cp pre c) (paths_of (i_manifest post) d)) ≤ 1)%nat ∧
  (committed_copy pre d → filter (λ c : cpath, is_head_cp pre c) (paths_of (i_manifest post) d) = []).
Proof. exact dedup_one_per_digest. Qed.
Print Assumptions C01_one_new_file_per_digest.

(** non-vacuity: a concrete history (two versions, a duplicate, an internal copy
    over a new file - the pre-fix defect e2e0f78 - and a removal) reaches a committed
    two-version object through the canonical dedup *)
Definition ex_a : lpath := [["a"%char]].
Definition ex_b : lpath := [["d"%char]; ["b"%char]].
Definition ex_n : lpath := [["n"%char]].
Definition ex_run : ostate :=
  let s1 := foldl ostep oinit [ONew; OStage (SAdd 1 ex_a); OStage (SAdd 1 ex_b)] in
  let s2 := ostep s1 (OCommit (dedup_canon (default new_inventory (o_staged s1)))) in
  let s3 := foldl ostep s2 [OStage (SAdd 2 ex_n); OStage (SCopyInt 2 ex_a ex_n); OStage (SRemove ex_b)] in
  ostep s3 (OCommit (dedup_canon (default new_inventory (o_staged s3)))).
Example C01_nonvacuous :
  (∃ i, o_main ex_run = Some i ∧ head i = 2%N ∧ size (i_manifest i) = 1%nat) ∧ o_staged ex_run = None.
Proof. split; [eexists; split; [vm_compute; reflexivity|split; vm_compute; reflexivity]|vm_compute; reflexivity]. Qed.
