(** C02 - committed versions return exactly the ingested bytes, forever. *)
From Coq Require Import NArith Ascii.
From stdpp Require Import gmap.
From Rocfl Require Import Model.Inventory Model.InvSpec Proofs.InventoryFacts Proofs.ReadFacts.

(** in a valid inventory every path of every committed version resolves: there is a
    content path of a version <= V for its digest, and every candidate the code may pick
    (it iterates a hash set) carries exactly that digest *)
Theorem C02_resolution_total : ∀ i v st p d,
  InvOK i → (1 <= v <= head i)%N → get_state i v = Some st → st !! p = Some d →
  cpath_candidates i d v ≠ [] ∧ ∀ cp, cp ∈ cpath_candidates i d v → i_manifest i !! cp = Some d.
Proof. exact resolution_total. Qed.
Print Assumptions C02_resolution_total.

(** whatever is staged, committed, reset or upgraded after version V was committed
    (anything but purging the object), V keeps its listing (paths and digests) and the
    set of content paths its reads may resolve to *)
Theorem C02_committed_versions_stable : ∀ ops1 ops2 m m' v,
  Forall (λ o, o ≠ OPurge) ops2 →
  o_main (foldl ostep oinit ops1) = Some m →
  o_main (foldl ostep oinit (ops1 ++ ops2)) = Some m' →
  (1 <= v <= head m)%N →
  get_state m' v = get_state m v ∧
  ∀ d cp, cp ∈ cpath_candidates m' d v ↔ cp ∈ cpath_candidates m d v.
Proof. exact committed_versions_stable. Qed.
Print Assumptions C02_committed_versions_stable.

(** the committed version's state is the staged state at commit time, and the staged
    head starts as a clone of the previous head *)
Theorem C02_commit_keeps_staged_state : ∀ pre post,
  dedup_okb pre post = true → i_hstate post = i_hstate pre ∧ i_prev post = i_prev pre.
Proof. intros pre post H. apply dedup_okb_spec in H as (Hp & Hh & _). done. Qed.
Print Assumptions C02_commit_keeps_staged_state.

Theorem C02_staging_head_clones_previous : ∀ i,
  i_hstate (create_staging_head i) = i_hstate i ∧ i_prev (create_staging_head i) = all_states i.
Proof. done. Qed.
Print Assumptions C02_staging_head_clones_previous.

Example C02_nonvacuous :
  let i := mkInv [{[ [["a"%char]] := 5%N ]}] {[ [["b"%char]] := 5%N ]} {[ (1%N, [["a"%char]]) := 5%N ]} in
  get_state i 2 = Some {[ [["b"%char]] := 5%N ]} ∧ cpath_candidates i 5 2 = [(1%N, [["a"%char]])].
Proof. split; vm_compute; reflexivity. Qed.
