(** C03 - committed version directories are never modified (append-only storage).
    Property theorems only; each closed by [exact] of a lemma from Proofs/Footprint*.v.

    [allowed c s o f]: may operation [o] in configuration [c] and pre-state [s] issue the
    file-system call [f] (Model/Footprint.v; checks/c03.py evaluates it on every traced call of
    the real CLI, also of failing, fault-injected and killed runs).  [in_committed s p]: [p] lies
    inside a version directory of an object of the main repository that exists in [s].
    [allowed] is a predicate on single calls, so everything below holds at every intermediate
    step: for each call of each prefix of a run.  Hypotheses ([env_ok]): the staging root is the
    default one or a user-chosen directory unrelated to the storage root and disjoint from all
    object roots; objects lie strictly inside the storage root and are not nested (what the guard
    [validate_object_root] maintains: C03_invariants_preserved); version directories are named
    v<digits>; the named sources of an external mv contain no symbolic link ([o_csrcs] = [o_srcs]:
    the refusal of sources inside the repository decides on the canonical paths). *)
From Rocfl Require Import Base.Bytes Model.FsOps Generated.Consts Model.Footprint
  Proofs.FootprintFacts Proofs.FootprintPaths Proofs.FootprintGuard Proofs.FootprintCommitted Proofs.FootprintGen
  Proofs.FootprintMain.
Open Scope N_scope.

(** the core: no operation other than purge has a target inside a committed version directory *)
Theorem C03_allowed_disjoint_from_committed : forall c s o f p,
  env_ok c s -> hex_ok (o_hex o) = true -> (o_kind o = KMvExt -> o_csrcs o = o_srcs o) ->
  o_kind o <> KPurge -> (o_kind o = KInit -> p_objs s = []) ->
  allowed c s o f = true -> In p (targets f) -> in_committed s p = false.
Proof. exact allowed_not_in_committed. Qed.
Print Assumptions C03_allowed_disjoint_from_committed.

(** ... and the only entries of an existing object it touches at all are the root inventory,
    its sidecar, a declaration (upgrade) and the version directory that does not exist yet *)
Theorem C03_only_root_entries_touched : forall c s o f m p,
  env_ok c s -> hex_ok (o_hex o) = true -> (o_kind o = KMvExt -> o_csrcs o = o_srcs o) ->
  o_kind o <> KPurge -> (o_kind o = KInit -> p_objs s = []) ->
  allowed c s o f = true -> In m (p_objs s) -> In p (targets f) ->
  below (m_root m) p = true -> exists sg, p = m_root m ++ [sg] /\ root_entry_ok o m sg = true.
Proof. exact allowed_respects_objects. Qed.
Print Assumptions C03_only_root_entries_touched.

(** purge removes the purged object only: the version directories of every other object stay *)
Theorem C03_purge_touches_only_its_object : forall c s o f p m v,
  env_ok c s -> hex_ok (o_hex o) = true -> o_kind o = KPurge ->
  allowed c s o f = true -> In p (targets f) ->
  In m (p_objs s) -> m_root m <> N_o c o -> In v (m_versions m) -> under (m_root m ++ [v]) p = false.
Proof. exact purge_not_in_other_committed. Qed.
Print Assumptions C03_purge_touches_only_its_object.

(** the staging area never overlaps a version directory, and a new object is never placed inside
    or above an existing one: the invariants are kept by every accepted commit of a new object *)
Theorem C03_invariants_preserved : forall c s rel vs,
  env_ok c s -> new_root_ok s (c_root c) rel = true -> (forall v, In v vs -> is_vstr v = true) ->
  env_ok c (mkPre (mkObj (main_root (c_root c) rel) vs :: p_objs s) (p_staged s) (p_occupied s)).
Proof. exact env_ok_preserved. Qed.
Print Assumptions C03_invariants_preserved.

(** the generated traces (model of the fault-free runs): every call of every prefix - the run
    was killed there, or stopped at a failing call - is allowed and outside the committed
    version directories *)
Theorem C03_model_trace_allowed : forall c s o g k,
  gin_ok c s o g = true -> Forall (fun x => allowed c s o (snd x) = true) (firstn k (gen c o g)).
Proof. exact gen_prefix_allowed. Qed.
Print Assumptions C03_model_trace_allowed.

Theorem C03_model_trace_respects_committed : forall c s o g k,
  env_ok c s -> (o_kind o = KMvExt -> o_csrcs o = o_srcs o) -> o_kind o <> KPurge -> (o_kind o = KInit -> p_objs s = []) ->
  gin_ok c s o g = true ->
  Forall (fun x => forall p, In p (targets (snd x)) -> in_committed s p = false) (firstn k (gen c o g)).
Proof. exact gen_not_in_committed. Qed.
Print Assumptions C03_model_trace_respects_committed.

(** an external mv whose named source is part of the repository is refused (fix 128b230): the
    rename of a committed content file is outside the footprint *)
Theorem C03_mv_source_in_repo_refused :
  mv_refused ex_c ex_mv = true /\ in_committed ex_s ex_src = true /\
  allowed ex_c ex_s ex_mv ex_mv_call = false /\
  allowed ex_c ex_s ex_mv (CreateNew (lockf ex_c ex_mv)) = false /\
  allowed ex_c ex_s ex_mv_outside
    (Rename [b "home"; b "u"; b "m.txt"] (S_o ex_c ex_mv ++ [b "v2"; b "content"; b "m.txt"])) = true.
Proof. exact mv_source_in_repo_refused. Qed.
Print Assumptions C03_mv_source_in_repo_refused.

(** non-vacuity: a concrete repository with one object, a commit of its second version and the
    commit of a new object satisfy all hypotheses *)
Example C03_nonvacuous_env : env_ok ex_c ex_s.
Proof. exact ex_env_ok. Qed.

Example C03_nonvacuous_gen :
  gin_ok ex_c ex_s ex_commit ex_gin = true /\ gin_ok ex_c ex_s ex_new ex_gin_new = true
  /\ op_runs ex_c ex_commit = true
  /\ List.length (gen ex_c ex_commit ex_gin) = 35%nat /\ List.length (gen ex_c ex_new ex_gin_new) = 28%nat.
Proof. exact ex_gin_ok. Qed.

Example C03_nonvacuous_committed :
  in_committed ex_s (ex_R ++ [b "a"; b "v1"; b "content"; b "a.txt"]) = true /\
  in_committed ex_s (ex_R ++ [b "a"; b "inventory.json"]) = false /\
  in_committed ex_s (ex_R ++ [b "a"; b "v2"]) = false /\
  allowed ex_c ex_s ex_commit (Rename (S_head ex_c ex_commit) (N_head ex_c ex_commit)) = true /\
  allowed ex_c ex_s ex_commit (Unlink (ex_R ++ [b "a"; b "v1"; b "content"; b "a.txt"])) = false /\
  allowed ex_c ex_s ex_commit (Rename (ex_R ++ [b "a"; b "v1"]) (S_head ex_c ex_commit)) = false.
Proof. repeat split; vm_compute; reflexivity. Qed.
