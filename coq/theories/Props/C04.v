(* temporary: replaced by the property theorems *)
From Rocfl Require Import Model.Commit.
Theorem C04_placeholder : True. Proof. exact I. Qed.
Print Assumptions C04_placeholder.
