(** C04 - a commit is all-or-nothing even when file-system calls fail or a stop request arrives.

    Model: Model/FsTree.v, Model/Commit.v ([Fault k] = the (k+1)-th file-system call of the process
    is not executed and fails, every later call works; [Stop k] = ctrl-c arrives on entering the
    (k+1)-th call: OcflRepo::close).  "new" is the main object of the fault-free run from the same
    tree.  The theorems hold for EVERY position (no bound) and every tree satisfying [commit_pre];
    [same_type] (the commit does not change the inventory type) restricts the theorems to commits
    without declaration swap; the type-changing commit (upgrade of an existing object, rollback of f6ecfaf)
    is covered by the theorems `..._any_type` at the end of this file ([same_type] replaced by the weaker
    [decl_swap_ok], Proofs/CommitUpgradeDefs.v), by the regression Example below and by the correspondence check
    at every position. *)
From Coq Require Import List NArith Bool.
From Rocfl Require Import Base.Bytes Model.FsOps Model.FsTree Model.Commit 
  Proofs.CommitFacts Proofs.CommitPre Proofs.CommitPhases Corr.CheckCommit
  Proofs.CommitUpgradeDefs Proofs.CommitUpgradeInv Proofs.CommitUpgradeRun Proofs.CommitUpgradeWitness.
Import ListNotations.

(** a single fault at any position (j = Fault k), or none (j = NoInj): the main object is old or new;
    success is reported only for new; as long as the new version directory is not in the object the
    object is old and every content file of the staged version is still in the staged object (so a
    retry or a reset finds them) *)
Theorem C04_fault_atomic :
  forall (c : cfg) (t0 : tree) (i0 : invr),
    commit_pre c t0 i0 -> same_type c t0 i0 ->
    forall j : inj, (forall n, j <> Kill n) -> (forall n, j <> Stop n) ->
      let res := run (commit c) t0 j in
      let t' := w_tree (snd res) in
      let tnew := run_tree (commit c) t0 NoInj in
      (same_at (c_mo c) t' t0 \/ same_at (c_mo c) t' tnew) /\
      (is_ok (fst res) = true -> same_at (c_mo c) t' tnew) /\
      (lookup t' (c_mo c ++ [head_of i0]) = None ->
         same_at (c_mo c) t' t0 /\
         forall d, In d (i_man (committed_inv c i0)) -> lookup t' (c_so c ++ d) = lookup t0 (c_so c ++ d)).
Proof. exact commit_fault_atomic. Qed.
Print Assumptions C04_fault_atomic.

(** a stop request at any position, for an object that exists: old or new, the command returns (it is
    not killed); when nothing was installed the staged content is kept *)
Theorem C04_stop_atomic :
  forall (c : cfg) (t0 : tree) (i0 : invr),
    commit_pre c t0 i0 -> same_type c t0 i0 ->
    forall k : nat, i_vs i0 <> [head_of i0] ->
      let res := run (commit c) t0 (Stop k) in
      let t' := w_tree (snd res) in
      let tnew := run_tree (commit c) t0 NoInj in
      (same_at (c_mo c) t' t0 \/ same_at (c_mo c) t' tnew) /\
      is_killed (fst res) = false /\
      (lookup t' (c_mo c ++ [head_of i0]) = None ->
         same_at (c_mo c) t' t0 /\
         forall d, In d (i_man (committed_inv c i0)) -> lookup t' (c_so c ++ d) = lookup t0 (c_so c ++ d)).
Proof. exact commit_stop_atomic. Qed.
Print Assumptions C04_stop_atomic.

(** runs in which the injected event has not happened yet are runs of the fault-free world: the state in
    which an event strikes is a state of the fault-free run (used to define "new") *)
Theorem C04_unfired_is_fault_free :
  forall c : cfg, nice (commit c).
Proof. exact nice_commit. Qed.
Print Assumptions C04_unfired_is_fault_free.

(** non-vacuity: the hypotheses hold for a concrete second-version commit, and among its fault positions
    are old + error (0,1), new + error (1,1: a fault while the staged object is removed) and new + ok (1,0) *)
Example C04_nonvacuous :
  commit_pre_b ex_cfg (ex_tree ex_d10) (ex_inv ex_d10) = true /\
  same_type_b ex_cfg (ex_tree ex_d10) (ex_inv ex_d10) = true /\
  sweep (commit ex_cfg) ex_cfg (ex_tree ex_d10) Fault 32 =
    [(0,1); (0,1); (0,1); (0,1); (0,1); (0,1); (0,1); (0,1); (0,1); (0,1); (0,1); (0,1); (0,1); (0,1); (0,1); (0,1);
     (0,1); (0,1); (0,1); (0,1); (0,1); (0,1); (0,1); (0,1); (0,1); (0,1); (1,1); (1,1); (1,1); (1,1); (1,0); (1,0)]%N.
Proof. vm_compute. repeat split. Qed.

(** * regression witnesses of the repaired findings (9d3a720, 7857f07 + 9f4b67d, f6ecfaf): on the concrete instances
    the retried command now yields the fault-free result at EVERY fault position that left the old object
    and a parseable staged inventory *)

(** a fault anywhere in the commit of the instance with a duplicate alone in its directory (position 16 is the
    rmdir of clean_dirs_up that used to leave an empty directory): the retried commit gives the fault-free
    main object, without empty directories *)
Example C04_retry_after_cleanup_fault :
  forallb (fun k =>
             let t1 := run_tree (commit ex_cfg) (ex_tree ex_d10) (Fault k) in
             negb (same_underb ex_mo t1 (ex_tree ex_d10)) || negb (staged_inv_ok ex_cfg t1)
             || (N.eqb (res_code (fst (run (commit ex_cfg) t1 NoInj))) 0
                 && same_underb ex_mo (run_tree (commit ex_cfg) t1 NoInj) (run_tree (commit ex_cfg) (ex_tree ex_d10) NoInj)
                 && no_empty_dirb (run_tree (commit ex_cfg) t1 NoInj) ex_mo))
          (List.seq 0 40) = true.
Proof. vm_compute. reflexivity. Qed.

(** upgrade of a never committed object: after a fault at any position that left the main repository untouched,
    the retried upgrade - or, when that is refused because the staged inventory already carries the new type,
    the retried commit - installs the valid fault-free object *)
Example C04_retry_after_staged_declaration_fault :
  forallb (fun k =>
             let t1 := run_tree (upgrade_object ex_cfg) (ex1_tree ex_d10) (Fault k) in
             negb (same_underb ex_mo t1 (ex1_tree ex_d10)) || negb (staged_inv_ok ex_cfg t1)
             || (N.eqb (res_code (fst (run (retry_upgrade ex_cfg) t1 NoInj))) 0
                 && same_underb ex_mo (run_tree (retry_upgrade ex_cfg) t1 NoInj)
                                      (run_tree (upgrade_object ex_cfg) (ex1_tree ex_d10) NoInj)
                 && obj_validb ex_cfg (run_tree (retry_upgrade ex_cfg) t1 NoInj) ex_mo))
          (List.seq 0 40) = true.
Proof. vm_compute. reflexivity. Qed.

(** the commit that completes the upgrade of an existing object (the staged inventory requires 0=ocfl_object_1.1,
    the object declares 1.0): at EVERY fault position the main object is old or new (class 0 or 1) - in particular
    at the creation (26), the write (27) of the new declaration and the removal of the old one (28) - and after a
    fault that left the old object and a parseable staged inventory the retried commit yields the valid
    fault-free object *)
Example C04_upgrade_existing_object_atomic :
  commit_pre_b ex_cfg (ex_tree ex_d11) (ex_inv ex_d11) = true /\
  forallb (fun k =>
             let r := predict PCommit ex_cfg (ex_tree ex_d11) (Fault k) in
             (N.eqb (fst r) 0 || N.eqb (fst r) 1)
             && (let t1 := run_tree (commit ex_cfg) (ex_tree ex_d11) (Fault k) in
                 negb (same_underb ex_mo t1 (ex_tree ex_d11)) || negb (staged_inv_ok ex_cfg t1)
                 || (N.eqb (res_code (fst (run (commit ex_cfg) t1 NoInj))) 0
                     && same_underb ex_mo (run_tree (commit ex_cfg) t1 NoInj) (run_tree (commit ex_cfg) (ex_tree ex_d11) NoInj)
                     && obj_validb ex_cfg (run_tree (commit ex_cfg) t1 NoInj) ex_mo)))
          (List.seq 0 50) = true.
Proof. vm_compute. split; reflexivity. Qed.

(** * commits that change the inventory type as well (the tail of upgrade_object on an existing object)

    write_new_version then swaps the declaration inside its protected closure (fs.rs:521-532): create the new
    0=ocfl_object_X.Y (open O_CREAT|O_EXCL, then the write), unlink the old declaration(s) found BEFORE the rename
    (fs.rs:514-517); when anything in the closure fails the rollback (fs.rs:534-553) unlinks the new declaration,
    writes the saved root inventory and sidecar back and renames the version directory back.  "old" / "new" compare
    the whole object subtree ([same_at (c_mo c)]), declaration files included.

    [same_type] is replaced by [decl_swap_ok c t0 i0] =
      same_type c t0 i0  \/  (no version directory name of the staged inventory is a declaration file name
                              /\ the object root lists no declaration file twice).
    Both conjuncts hold for every real repository (version directories are named "v<digits>"; read_dir yields a
    name once) and both are needed by the model: [C05_hypothesis_plain_versions_needed],
    [C04_hypothesis_nodup_decls_needed].  No position of the type-changing commit violates the statement. *)
Theorem C04_fault_atomic_any_type :
  forall (c : cfg) (t0 : tree) (i0 : invr),
    commit_pre c t0 i0 -> decl_swap_ok c t0 i0 ->
    forall j : inj, (forall n, j <> Kill n) -> (forall n, j <> Stop n) ->
      let res := run (commit c) t0 j in
      let t' := w_tree (snd res) in
      let tnew := run_tree (commit c) t0 NoInj in
      (same_at (c_mo c) t' t0 \/ same_at (c_mo c) t' tnew) /\
      (is_ok (fst res) = true -> same_at (c_mo c) t' tnew) /\
      (lookup t' (c_mo c ++ [head_of i0]) = None ->
         same_at (c_mo c) t' t0 /\
         forall d, In d (i_man (committed_inv c i0)) -> lookup t' (c_so c ++ d) = lookup t0 (c_so c ++ d)).
Proof. exact commit_fault_atomic_any_type. Qed.
Print Assumptions C04_fault_atomic_any_type.

Theorem C04_stop_atomic_any_type :
  forall (c : cfg) (t0 : tree) (i0 : invr),
    commit_pre c t0 i0 -> decl_swap_ok c t0 i0 ->
    forall k : nat, i_vs i0 <> [head_of i0] ->
      let res := run (commit c) t0 (Stop k) in
      let t' := w_tree (snd res) in
      let tnew := run_tree (commit c) t0 NoInj in
      (same_at (c_mo c) t' t0 \/ same_at (c_mo c) t' tnew) /\
      is_killed (fst res) = false /\
      (lookup t' (c_mo c ++ [head_of i0]) = None ->
         same_at (c_mo c) t' t0 /\
         forall d, In d (i_man (committed_inv c i0)) -> lookup t' (c_so c ++ d) = lookup t0 (c_so c ++ d)).
Proof. exact commit_stop_atomic_any_type. Qed.
Print Assumptions C04_stop_atomic_any_type.

(** the hypothesis is decidable by evaluation, and implied by [same_type] *)
Theorem C04_swap_hypothesis_checkable :
  forall c t i, decl_swap_ok_b c t i = true -> decl_swap_ok c t i.
Proof. exact decl_swap_ok_b_sound. Qed.
Print Assumptions C04_swap_hypothesis_checkable.

(** without the second conjunct of [decl_swap_ok] the fault clause fails in the model (a tree that binds the old
    declaration twice, fault at the second unlink) *)
Theorem C04_hypothesis_nodup_decls_needed :
  exists c t i k,
    commit_pre c t i /\ plain_versions i /\
    let t' := run_tree (commit c) t (Fault k) in
    let tnew := run_tree (commit c) t NoInj in
    ~ (same_at (c_mo c) t' t \/ same_at (c_mo c) t' tnew).
Proof. exact C04_any_type_needs_nodup_decls. Qed.
Print Assumptions C04_hypothesis_nodup_decls_needed.

(** non-vacuity: the hypotheses hold for the commit that completes the upgrade 1.0 -> 1.1 of an existing object
    ([same_type] does not); its 34 calls: positions 0-28 old + error (26 / 27 creation / write of the new declaration,
    28 removal of the old one: the rollback restores the old object), 29-32 new + error (a fault while the staged
    object is removed), then new + ok; a stop request yields old + ok (0-16: the "last chance" check) or new + ok *)
Example C04_any_type_nonvacuous :
  commit_pre_b ex_cfg (ex_tree ex_d11) (ex_inv ex_d11) = true /\
  same_type_b ex_cfg (ex_tree ex_d11) (ex_inv ex_d11) = false /\
  decl_swap_ok_b ex_cfg (ex_tree ex_d11) (ex_inv ex_d11) = true /\
  sweep (commit ex_cfg) ex_cfg (ex_tree ex_d11) Fault 36 =
    [(0,1); (0,1); (0,1); (0,1); (0,1); (0,1); (0,1); (0,1); (0,1); (0,1); (0,1); (0,1); (0,1); (0,1); (0,1); (0,1);
     (0,1); (0,1); (0,1); (0,1); (0,1); (0,1); (0,1); (0,1); (0,1); (0,1); (0,1); (0,1); (0,1); (1,1); (1,1); (1,1);
     (1,1); (1,0); (1,0); (1,0)]%N /\
  sweep (commit ex_cfg) ex_cfg (ex_tree ex_d11) Stop 36 =
    [(0,0); (0,0); (0,0); (0,0); (0,0); (0,0); (0,0); (0,0); (0,0); (0,0); (0,0); (0,0); (0,0); (0,0); (0,0); (0,0);
     (0,0); (1,0); (1,0); (1,0); (1,0); (1,0); (1,0); (1,0); (1,0); (1,0); (1,0); (1,0); (1,0); (1,0); (1,0); (1,0);
     (1,0); (1,0); (1,0); (1,0)]%N.
Proof. vm_compute. repeat split. Qed.
