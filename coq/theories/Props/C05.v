(* temporary: replaced by the property theorems *)
From Rocfl Require Import Model.Commit.
Theorem C05_placeholder : True. Proof. exact I. Qed.
Print Assumptions C05_placeholder.
