(** C05 - a kill during commit loses nothing and never yields a silently wrong object.

    Model: Model/FsTree.v (abstract file tree), Model/Commit.v (the commit protocol of repo.rs /
    store/fs.rs / lock.rs / util.rs as monadic programs; [Kill k] = the process dies on entering
    its (k+1)-th file-system call).  [commit_pre] is the tree-level StagedWF of DESIGN.md Appendix D
    plus a sane configuration and a valid main object; [same_type] excludes the declaration swap
    of an upgrade (see Props/C04.v for that known finding).  The theorems hold for EVERY position
    k (no bound) and every tree. *)
From Coq Require Import List NArith Bool.
From Rocfl Require Import Base.Bytes Model.FsOps Model.FsTree Model.Commit Model.KnownC04
  Proofs.CommitPre Proofs.CommitPhases Corr.CheckCommit.
Import ListNotations.

(** (i) every version directory committed before is unchanged (content and inventory copy),
    (ii) every content file of the version being committed is complete in the staged object or in
    the object, (iii) the main object is the old one, the new one (= the fault-free result), or
    rejected by the validator [obj_validb] *)
Theorem C05_kill_safe :
  forall (c : cfg) (t0 : tree) (i0 : invr),
    commit_pre c t0 i0 -> same_type c t0 i0 ->
    forall k : nat,
      let t' := run_tree (commit c) t0 (Kill k) in
      let tnew := run_tree (commit c) t0 NoInj in
      versions_intact c (earlier_versions i0) t0 t' /\ content_somewhere c i0 t0 t' /\
      (same_at (c_mo c) t' t0 \/ same_at (c_mo c) t' tnew \/ obj_validb c t' (c_mo c) = false).
Proof. exact commit_kill_safe. Qed.
Print Assumptions C05_kill_safe.

(** the precondition is decidable by evaluation: the correspondence check evaluates [commit_pre_b] on
    the abstracted pre-state of every real scenario *)
Theorem C05_precondition_checkable :
  forall c t i, commit_pre_b c t i = true -> commit_pre c t i.
Proof. exact commit_pre_b_sound. Qed.
Print Assumptions C05_precondition_checkable.

(** non-vacuity: the hypotheses hold for a concrete second-version commit (one new file, one duplicate
    in its own directory), and all three classes of clause (iii) occur among its kill positions:
    old (0), rejected by the validator (2), new (1) *)
Example C05_nonvacuous :
  commit_pre_b ex_cfg (ex_tree ex_d10) (ex_inv ex_d10) = true /\
  same_type_b ex_cfg (ex_tree ex_d10) (ex_inv ex_d10) = true /\
  map fst (sweep (commit ex_cfg) ex_cfg (ex_tree ex_d10) Kill 32) =
    [0; 0; 0; 0; 0; 0; 0; 0; 0; 0; 0; 0; 0; 0; 0; 0; 0; 0; 2; 2; 2; 2; 2; 2; 2; 1; 1; 1; 1; 1; 1; 1]%N.
Proof. vm_compute. repeat split. Qed.
