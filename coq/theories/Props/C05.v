(** C05 - a kill during commit loses nothing and never yields a silently wrong object.

    Model: Model/FsTree.v (abstract file tree), Model/Commit.v (the commit protocol of repo.rs /
    store/fs.rs / lock.rs / util.rs as monadic programs; [Kill k] = the process dies on entering
    its (k+1)-th file-system call).  [commit_pre] is the tree-level StagedWF of DESIGN.md Appendix D
    plus a sane configuration and a valid main object; [same_type] excludes the declaration swap
    of an upgrade; [C05_kill_safe_any_type] at the end of this file covers it as well.  The theorems hold for EVERY position
    k (no bound) and every tree. *)
From Coq Require Import List NArith Bool.
From Rocfl Require Import Base.Bytes Model.FsOps Model.FsTree Model.Commit 
  Proofs.CommitPre Proofs.CommitPhases Corr.CheckCommit
  Proofs.CommitUpgradeDefs Proofs.CommitUpgradeInv Proofs.CommitUpgradeRun Proofs.CommitUpgradeWitness.
Import ListNotations.

(** (i) every version directory committed before is unchanged (content and inventory copy),
    (ii) every content file of the version being committed is complete in the staged object or in
    the object, (iii) the main object is the old one, the new one (= the fault-free result), or
    rejected by the validator [obj_validb] *)
Theorem C05_kill_safe :
  forall (c : cfg) (t0 : tree) (i0 : invr),
    commit_pre c t0 i0 -> same_type c t0 i0 ->
    forall k : nat,
      let t' := run_tree (commit c) t0 (Kill k) in
      let tnew := run_tree (commit c) t0 NoInj in
      versions_intact c (earlier_versions i0) t0 t' /\ content_somewhere c i0 t0 t' /\
      (same_at (c_mo c) t' t0 \/ same_at (c_mo c) t' tnew \/ obj_validb c t' (c_mo c) = false).
Proof. exact commit_kill_safe. Qed.
Print Assumptions C05_kill_safe.

(** the precondition is decidable by evaluation: the correspondence check evaluates [commit_pre_b] on
    the abstracted pre-state of every real scenario *)
Theorem C05_precondition_checkable :
  forall c t i, commit_pre_b c t i = true -> commit_pre c t i.
Proof. exact commit_pre_b_sound. Qed.
Print Assumptions C05_precondition_checkable.

(** non-vacuity: the hypotheses hold for a concrete second-version commit (one new file, one duplicate
    in its own directory), and all three classes of clause (iii) occur among its kill positions:
    old (0), rejected by the validator (2), new (1) *)
Example C05_nonvacuous :
  commit_pre_b ex_cfg (ex_tree ex_d10) (ex_inv ex_d10) = true /\
  same_type_b ex_cfg (ex_tree ex_d10) (ex_inv ex_d10) = true /\
  map fst (sweep (commit ex_cfg) ex_cfg (ex_tree ex_d10) Kill 32) =
    [0; 0; 0; 0; 0; 0; 0; 0; 0; 0; 0; 0; 0; 0; 0; 0; 0; 0; 2; 2; 2; 2; 2; 2; 2; 1; 1; 1; 1; 1; 1; 1]%N.
Proof. vm_compute. repeat split. Qed.

(** recovery after a kill: at EVERY kill position of the instance with five identical new files (and of the instance
    with a duplicate of committed content) the staged inventory on disk, when complete, lists only content files that
    exist in the staged object or in the object - so the retried commit's dedup never keeps a deleted copy - and the
    commit retried from the killed tree either fails or yields the valid fault-free object *)
Example C05_staged_inventory_refs_exist :
  commit_pre_b ex_cfg exm_tree exm_inv = true /\
  kill_refs_ok PCommit ex_cfg exm_tree = true /\
  kill_refs_ok PCommit ex_cfg (ex_tree ex_d10) = true /\
  forallb (fun k =>
             let t1 := remove (lockp ex_cfg) (run_tree (commit ex_cfg) exm_tree (Kill k)) in
             let r := run (commit ex_cfg) t1 NoInj in
             negb (N.eqb (res_code (fst r)) 0)
             || (obj_validb ex_cfg (w_tree (snd r)) ex_mo
                 && same_underb ex_mo (w_tree (snd r)) (run_tree (commit ex_cfg) exm_tree NoInj)))
          (List.seq 0 45) = true.
Proof. vm_compute. repeat split. Qed.

(** * commits that change the inventory type as well (the tail of upgrade_object on an existing object)

    After the version directory is installed and the root inventory pair copied, write_new_version creates the new
    declaration (open O_CREAT|O_EXCL, write) and unlinks the old one (fs.rs:524-529).  A kill can therefore also
    leave: the new inventory without its declaration, with an empty declaration, or with BOTH declarations - all
    three rejected by the validator (E003 / E007 declaration missing or wrong, E001 unexpected file in the object
    root); after the unlink the object is the new one.  [decl_swap_ok] (Proofs/CommitUpgradeDefs.v) replaces
    [same_type]: see Props/C04.v. *)
Theorem C05_kill_safe_any_type :
  forall (c : cfg) (t0 : tree) (i0 : invr),
    commit_pre c t0 i0 -> decl_swap_ok c t0 i0 ->
    forall k : nat,
      let t' := run_tree (commit c) t0 (Kill k) in
      let tnew := run_tree (commit c) t0 NoInj in
      versions_intact c (earlier_versions i0) t0 t' /\ content_somewhere c i0 t0 t' /\
      (same_at (c_mo c) t' t0 \/ same_at (c_mo c) t' tnew \/ obj_validb c t' (c_mo c) = false).
Proof. exact commit_kill_safe_any_type. Qed.
Print Assumptions C05_kill_safe_any_type.

(** without the first conjunct of [decl_swap_ok] clause (iii) fails in the model (a version directory named like a
    declaration file: the fault-free commit itself fails on it after removing the old declaration) *)
Theorem C05_hypothesis_plain_versions_needed :
  exists c t i k,
    commit_pre c t i /\ NoDup (find_decls t (c_mo c)) /\
    let t' := run_tree (commit c) t (Kill k) in
    let tnew := run_tree (commit c) t NoInj in
    ~ (same_at (c_mo c) t' t \/ same_at (c_mo c) t' tnew \/ obj_validb c t' (c_mo c) = false).
Proof. exact C05_any_type_needs_plain_versions. Qed.
Print Assumptions C05_hypothesis_plain_versions_needed.

(** non-vacuity: the hypotheses hold for the commit that completes the upgrade 1.0 -> 1.1 of an existing object
    ([same_type] does not), and all three classes of clause (iii) occur among its kill positions: old (0-17),
    rejected by the validator (18-28: 18 the version directory moved, 19-24 during the two inventory copies, 25-26 the
    new inventory pair without its declaration, 27 the new declaration still empty, 28 both declarations), new (29-) *)
Example C05_any_type_nonvacuous :
  commit_pre_b ex_cfg (ex_tree ex_d11) (ex_inv ex_d11) = true /\
  same_type_b ex_cfg (ex_tree ex_d11) (ex_inv ex_d11) = false /\
  decl_swap_ok_b ex_cfg (ex_tree ex_d11) (ex_inv ex_d11) = true /\
  map fst (sweep (commit ex_cfg) ex_cfg (ex_tree ex_d11) Kill 36) =
    [0; 0; 0; 0; 0; 0; 0; 0; 0; 0; 0; 0; 0; 0; 0; 0; 0; 0; 2; 2; 2; 2; 2; 2; 2; 2; 2; 2; 2; 1; 1; 1; 1; 1; 1; 1]%N.
Proof. vm_compute. repeat split. Qed.
