(** C06 - validate reports every single corruption of an object rocfl wrote.
    Property theorems only; each closed by [exact] of a lemma from Proofs/.

    Model: Model/ObjTree.v (stored object as a tree of leaves; what rocfl writes),
    Model/TreeValidate.v (transcription of Validator::validate_object), Model/Corrupt.v
    (the corruption kinds), Model/KnownC06.v (the two classes the validator lets pass).
    The digest function, the inventory parser (serde::parse), the sidecar and declaration
    readers are universally quantified; the only assumption is that the digest of each
    algorithm is injective on file contents (no collision).  [apply_corruption] is defined
    only for corruptions that really change the object (Model/Corrupt.v), so no
    "t' <> t" side condition is needed. *)
From Coq Require Import List NArith.
From Rocfl Require Import Model.ObjTree Model.TreeValidate Model.Corrupt Model.KnownC06.
From Rocfl Require Import Proofs.CorruptFacts Proofs.C06Witness.
Import ListNotations.
Open Scope N_scope.

(** the model validator accepts what rocfl writes, with and without fixity checking *)
Theorem written_valid :
  forall digest fdigest parse_inv parse_sidecar parse_decl t,
    written_by_rocfl digest parse_inv parse_sidecar parse_decl t ->
    tree_errors digest fdigest parse_inv parse_sidecar parse_decl true t = []
    /\ tree_errors digest fdigest parse_inv parse_sidecar parse_decl false t = [].
Proof. exact written_valid_lemma. Qed.
Print Assumptions written_valid.

(** every corruption kind, every file, every object: an error is reported with fixity checking *)
Theorem corruption_detected :
  forall digest fdigest parse_inv parse_sidecar parse_decl,
    (forall a k k', digest a k = digest a k' -> k = k') ->
    forall c t t',
      written_by_rocfl digest parse_inv parse_sidecar parse_decl t ->
      apply_corruption parse_inv parse_sidecar parse_decl c t = Some t' ->
      known c t = false ->
      tree_errors digest fdigest parse_inv parse_sidecar parse_decl true t' <> [].
Proof. exact corruption_detected_lemma. Qed.
Print Assumptions corruption_detected.

(** anything but the bytes inside a content file is reported without fixity checking as well *)
Theorem structural_detected_without_fixity :
  forall digest fdigest parse_inv parse_sidecar parse_decl,
    (forall a k k', digest a k = digest a k' -> k = k') ->
    forall c t t',
      written_by_rocfl digest parse_inv parse_sidecar parse_decl t ->
      apply_corruption parse_inv parse_sidecar parse_decl c t = Some t' ->
      known c t = false ->
      is_structural c = true ->
      tree_errors digest fdigest parse_inv parse_sidecar parse_decl false t' <> [].
Proof. exact structural_detected_lemma. Qed.
Print Assumptions structural_detected_without_fixity.

(** the excluded classes are real: inside them the validator reports nothing (known findings) *)
Theorem c06_contentless_version_dir_refuted :
  exists digest fdigest parse_inv parse_sidecar parse_decl t c t',
    (forall a k k', digest a k = digest a k' -> k = k')
    /\ written_by_rocfl digest parse_inv parse_sidecar parse_decl t
    /\ apply_corruption parse_inv parse_sidecar parse_decl c t = Some t'
    /\ is_structural c = true
    /\ c06_contentless_version_dir c t = true
    /\ tree_errors digest fdigest parse_inv parse_sidecar parse_decl true t' = [].
Proof. exact contentless_version_dir_undetected. Qed.
Print Assumptions c06_contentless_version_dir_refuted.

Theorem c06_version_inventory_dropped_refuted :
  exists digest fdigest parse_inv parse_sidecar parse_decl t c1 t1 c2 t2,
    (forall a k k', digest a k = digest a k' -> k = k')
    /\ written_by_rocfl digest parse_inv parse_sidecar parse_decl t
    /\ apply_corruption parse_inv parse_sidecar parse_decl c1 t = Some t1
    /\ apply_corruption parse_inv parse_sidecar parse_decl c2 t = Some t2
    /\ c06_version_inventory_dropped c1 t = true /\ c06_version_inventory_dropped c2 t = true
    /\ tree_errors digest fdigest parse_inv parse_sidecar parse_decl true t1 = []
    /\ tree_errors digest fdigest parse_inv parse_sidecar parse_decl true t2 = [].
Proof. exact version_inventory_dropped_undetected. Qed.
Print Assumptions c06_version_inventory_dropped_refuted.

(** Non-vacuity: a concrete two-version object (v1 under spec 1.0, upgraded to 1.1 in v2,
    deduplicated manifest) satisfies [written_by_rocfl], validates cleanly, a changed
    content byte is caught by the fixity check only, a changed inventory byte without it. *)
Example C06_nonvacuous :
  written_by_rocfl ex_digest ex_parse_inv ex_parse_sidecar ex_parse_decl ex_tree
  /\ (forall a k k', ex_digest a k = ex_digest a k' -> k = k')
  /\ tree_errors ex_digest ex_fdigest ex_parse_inv ex_parse_sidecar ex_parse_decl true ex_tree = []
  /\ (exists t', apply_corruption ex_parse_inv ex_parse_sidecar ex_parse_decl (ChangeContent ex_cA 99) ex_tree = Some t'
        /\ known (ChangeContent ex_cA 99) ex_tree = false
        /\ tree_errors ex_digest ex_fdigest ex_parse_inv ex_parse_sidecar ex_parse_decl true t' = [E092]
        /\ tree_errors ex_digest ex_fdigest ex_parse_inv ex_parse_sidecar ex_parse_decl false t' = [])
  /\ (exists t', apply_corruption ex_parse_inv ex_parse_sidecar ex_parse_decl (ChangeInventoryByte [SVer 0 1; SInv] 77) ex_tree = Some t'
        /\ known (ChangeInventoryByte [SVer 0 1; SInv] 77) ex_tree = false
        /\ is_structural (ChangeInventoryByte [SVer 0 1; SInv] 77) = true
        /\ tree_errors ex_digest ex_fdigest ex_parse_inv ex_parse_sidecar ex_parse_decl false t' = [E034]).
Proof.
  split; [exact ex_written|]. split; [exact ex_digest_inj|]. split; [exact ex_valid|].
  split; [exact ex_content_change_detected | exact ex_structural_detected].
Qed.
