(** C07 - validate's verdict equals an independent reading of the OCFL specification.
    Property theorems only; each closed by [exact] of a lemma from Proofs/.

    Model/Validate.v      the independent validator (layer 1 [inv_errors], layer 3 [object_errors])
    Model/ValidateSpec.v  the MUST clauses about one inventory, declaratively ([InvSpecOK])
    Model/JsonValue.v     JSON values, parser, printer
    Model/ValidateReader.v rocfl validate's reader of string tokens (now, and before fix 2f36fc5)
    No known-finding class is left for this property. *)
From Rocfl Require Import Base.Bytes Model.Json Model.JsonValue Model.Validate Model.ValidateSpec Model.ValidateReader
  Proofs.JsonFacts Proofs.JsonValueFacts Proofs.ValidateSound Proofs.ValidatePerm Proofs.ValidateMain.
From Coq Require Import Permutation.
Open Scope N_scope.

(** * the checker accepts exactly the inventories that satisfy every clause (all 31 clauses, all JSON values) *)
Theorem C07_validator_sound_complete : forall sv j, inv_errors sv j = [] <-> InvSpecOK sv j.
Proof. exact inv_errors_sound_complete. Qed.
Print Assumptions C07_validator_sound_complete.

(** * member order: objects reordered at any depth give the same error list; duplicates not assumed away *)
Theorem C07_verdict_key_order : forall sv j j', jv_perm j j' -> inv_errors sv j = inv_errors sv j'.
Proof. exact inv_errors_perm. Qed.
Print Assumptions C07_verdict_key_order.

Theorem C07_verdict_key_order_top : forall sv m m', Permutation m m' -> inv_errors sv (JObj m) = inv_errors sv (JObj m').
Proof. exact key_order_top. Qed.
Print Assumptions C07_verdict_key_order_top.

(** versions / manifest / fixity (depth 1); a version block or a fixity block (depth 2); state, user (depth 3) *)
Theorem C07_verdict_key_order_block : forall sv m1 k m m' m2, Permutation m m' ->
  inv_errors sv (JObj (m1 ++ (k, JObj m) :: m2)) = inv_errors sv (JObj (m1 ++ (k, JObj m') :: m2)).
Proof. exact key_order_block. Qed.
Print Assumptions C07_verdict_key_order_block.

Theorem C07_verdict_key_order_version : forall sv m1 k n1 k2 m m' n2 m2, Permutation m m' ->
  inv_errors sv (JObj (m1 ++ (k, JObj (n1 ++ (k2, JObj m) :: n2)) :: m2))
  = inv_errors sv (JObj (m1 ++ (k, JObj (n1 ++ (k2, JObj m') :: n2)) :: m2)).
Proof. exact key_order_block2. Qed.
Print Assumptions C07_verdict_key_order_version.

Theorem C07_verdict_key_order_state_user : forall sv m1 k n1 k2 o1 k3 m m' o2 n2 m2, Permutation m m' ->
  inv_errors sv (JObj (m1 ++ (k, JObj (n1 ++ (k2, JObj (o1 ++ (k3, JObj m) :: o2)) :: n2)) :: m2))
  = inv_errors sv (JObj (m1 ++ (k, JObj (n1 ++ (k2, JObj (o1 ++ (k3, JObj m') :: o2)) :: n2)) :: m2)).
Proof. exact key_order_block3. Qed.
Print Assumptions C07_verdict_key_order_state_user.

Theorem C07_spec_key_order : forall sv j j', jv_perm j j' -> (InvSpecOK sv j <-> InvSpecOK sv j').
Proof. exact spec_key_order. Qed.
Print Assumptions C07_spec_key_order.

(** * spelling: the verdict is a function of the parsed value ... *)
Theorem C07_verdict_respelling : forall sv s1 s2,
  parse_json s1 = parse_json s2 -> inv_errors_bytes sv s1 = inv_errors_bytes sv s2.
Proof. exact verdict_same_value. Qed.
Print Assumptions C07_verdict_respelling.

(** ... and every legal spelling of a string (RFC 8259 section 7: raw, two-character escapes,
    four-hex-digit escapes in either case, surrogate pairs) decodes to the string, also in a member/value position *)
Theorem C07_any_spelling_decodes : forall t s,
  spells t s -> utf8_valid s = true -> decode_string (DQ :: t ++ [DQ]) = Some s.
Proof. exact decode_any_spelling. Qed.
Print Assumptions C07_any_spelling_decodes.

Theorem C07_any_spelling_parses : forall t s rest,
  spells t s -> utf8_valid s = true -> parse_string_with decode_string DQ (t ++ DQ :: rest) = Some (s, rest).
Proof. exact parse_string_any_spelling. Qed.
Print Assumptions C07_any_spelling_parses.

Theorem C07_serde_escaping_is_a_spelling : forall s, spells (esc_contents s) s.
Proof. exact serde_is_spelling. Qed.
Print Assumptions C07_serde_escaping_is_a_spelling.

Theorem C07_u_escape_everything_decodes : forall s,
  forallb (fun c => code c <? 128) s = true -> decode_string (DQ :: esc_u_all s ++ [DQ]) = Some s.
Proof. exact u_escape_all_decodes. Qed.
Print Assumptions C07_u_escape_everything_decodes.

Theorem C07_slash_escape_decodes : forall s,
  utf8_valid s = true -> decode_string (DQ :: esc_slash s ++ [DQ]) = Some s.
Proof. exact slash_escape_decodes. Qed.
Print Assumptions C07_slash_escape_decodes.

(** * parser and printer *)
Theorem C07_parse_print : forall v, jv_wf v = true -> parse_json (print_json v) = Some v.
Proof. exact parse_print. Qed.
Print Assumptions C07_parse_print.

Theorem C07_verdict_reprint : forall sv s j,
  parse_json s = Some j -> jv_wf j = true -> inv_errors_bytes sv (print_json j) = inv_errors_bytes sv s.
Proof. exact verdict_reprint. Qed.
Print Assumptions C07_verdict_reprint.

Theorem C07_parse_fuel_monotone : forall f f' s r,
  parse_val decode_string f s = Some r -> (f <= f')%nat -> parse_val decode_string f' s = Some r.
Proof. exact parse_fuel_mono. Qed.
Print Assumptions C07_parse_fuel_monotone.

(** * rocfl validate's reader of string tokens (src/ocfl/validate/serde.rs after 2f36fc5: Cow<str> / String
      at every position): unconditionally, every legal spelling of a string is read as that string *)
Theorem C07_validator_reads_every_spelling : forall t s,
  spells t s -> utf8_valid s = true -> validator_read (DQ :: t ++ [DQ]) = Some s.
Proof. exact validator_reads_every_spelling. Qed.
Print Assumptions C07_validator_reads_every_spelling.

Theorem C07_validator_reads_serde_escape : forall s, utf8_valid s = true -> validator_read (serde_escape s) = Some s.
Proof. exact validator_reads_serde_escape. Qed.
Print Assumptions C07_validator_reads_serde_escape.

Theorem C07_validator_read_conforming : forall t, validator_read t = decode_string t.
Proof. exact validator_read_conforming. Qed.
Print Assumptions C07_validator_read_conforming.

(** historical note about the separate definition [validator_read_before_fix] (borrowed &str):
    it refused every token with a backslash, so it violated the statement above *)
Theorem C07_validator_read_before_fix_refused : forall t, has_escape t = true -> validator_read_before_fix t = None.
Proof. exact validator_read_before_fix_refused. Qed.
Print Assumptions C07_validator_read_before_fix_refused.

Theorem C07_validator_read_before_fix_witness :
  exists t s, spells t s /\ utf8_valid s = true /\ validator_read (DQ :: t ++ [DQ]) = Some s
              /\ validator_read_before_fix (DQ :: t ++ [DQ]) = None.
Proof. exact validator_read_before_fix_witness. Qed.
Print Assumptions C07_validator_read_before_fix_witness.

(** * non-vacuity: official fixtures, byte for byte *)

(** official-1.0/valid/minimal_one_version_one_file/inventory.json *)
Definition fx_minimal : bytes := (b "{
  ""digestAlgorithm"": ""sha512"",
  ""head"": ""v1"",
  ""id"": ""ark:123/abc"",
  ""manifest"": {
    ""43a43fe8a8a082d3b5343dfaf2fd0c8b8e370675b1f376e92e9994612c33ea255b11298269d72f797399ebb94edeefe53df243643676548f584fb8603ca53a0f"": [
      ""v1/content/a_file.txt""
    ]
  },
  ""type"": ""https://ocfl.io/1.0/spec/#inventory"",
  ""versions"": {
    ""v1"": {
      ""created"": ""2019-01-01T02:03:04Z"",
      ""message"": ""An version with one file"",
      ""state"": {
        ""43a43fe8a8a082d3b5343dfaf2fd0c8b8e370675b1f376e92e9994612c33ea255b11298269d72f797399ebb94edeefe53df243643676548f584fb8603ca53a0f"": [
          ""a_file.txt""
        ]
      },
      ""user"": {
        ""address"": ""mailto:a_person@example.org"",
        ""name"": ""A Person""
      }
    }
  }
}
").
(** official-1.0/error/E050_file_in_manifest_not_used/inventory.json *)
Definition fx_unused_digest : bytes := (b "{
    ""digestAlgorithm"": ""sha512"",
    ""head"": ""v1"",
    ""id"": ""info:bad07"",
    ""manifest"": {
	""e7c22b994c59d9cf2b48e549b1e24666636045930d3da7c1acb299d1c3b7f931f94aae41edda2c2b207a36e10f8bcb8d45223e54878f5b316e7ce3b6bc019629"": [
	    ""v1/content/file.txt""
	],
        ""dfe9a0bbfdaab7173036571a1d9e34e2465b1e3a52e8b707bbf6dea9239a9a55b0fc9e511fc24882d7f493cd950a9dbef1de13e08a007909b21cd5ba54dc4888"": [
	    ""v1/content/file2.txt""
        ]
    },
    ""type"": ""https://ocfl.io/1.0/spec/#inventory"",
    ""versions"": {
	""v1"": {
	    ""created"": ""2018-10-31T12:54:57.688459Z"",
	    ""message"": """",
	    ""state"": {
		""e7c22b994c59d9cf2b48e549b1e24666636045930d3da7c1acb299d1c3b7f931f94aae41edda2c2b207a36e10f8bcb8d45223e54878f5b316e7ce3b6bc019629"": [
		    ""file.txt""
                ]
	    },
	    ""user"": {
		""address"": ""somewhere"",
		""name"": ""someone""
	    }
	}
    }
}
").
(** the first one with the slash of its id spelled as the two-character escape *)
Definition fx_minimal_escaped : bytes := (b "{
  ""digestAlgorithm"": ""sha512"",
  ""head"": ""v1"",
  ""id"": ""ark:123\/abc"",
  ""manifest"": {
    ""43a43fe8a8a082d3b5343dfaf2fd0c8b8e370675b1f376e92e9994612c33ea255b11298269d72f797399ebb94edeefe53df243643676548f584fb8603ca53a0f"": [
      ""v1/content/a_file.txt""
    ]
  },
  ""type"": ""https://ocfl.io/1.0/spec/#inventory"",
  ""versions"": {
    ""v1"": {
      ""created"": ""2019-01-01T02:03:04Z"",
      ""message"": ""An version with one file"",
      ""state"": {
        ""43a43fe8a8a082d3b5343dfaf2fd0c8b8e370675b1f376e92e9994612c33ea255b11298269d72f797399ebb94edeefe53df243643676548f584fb8603ca53a0f"": [
          ""a_file.txt""
        ]
      },
      ""user"": {
        ""address"": ""mailto:a_person@example.org"",
        ""name"": ""A Person""
      }
    }
  }
}
").
(** the object root official-1.0/valid/minimal_one_version_one_file as a listing *)
Definition fx_minimal_object : node := (NDir [((b "0=ocfl_object_1.0"), (NFile [(b "sha256", b "e0686361e5d0d02978ad76da661b0d11f589870bf2651ab35a2f3ac2c0782e4a"); (b "sha512", b "f2d82d5b8ef10ca997fcadf894ee14e9183386256c723816813113f0bc1c161f0b63eb83144806cbd85e484ec36a6b6bc5812b0b6fd8ac91e2a08373b8c9d564")] (Some ((b "ocfl_object_1.0") ++ (bs [10]))))); ((b "inventory.json"), (NFile [(b "sha256", b "90f3711b22af60c56ac1f65a58df4ae982428dfce8385074a3e710d71994a970"); (b "sha512", b "f889cd4ba8cfd5b52c5f8c9ca99cb404586e60ee5d5b9b5508338f296776bf613719175253d9027c7e166ede7182785889b5ca59e19e441e47cde56b5bc20949")] (Some (((((((b "{") ++ (bs [10])) ++ ((b "  ""digestAlgorithm"": ""sha512"",") ++ (bs [10]))) ++ (((b "  ""head"": ""v1"",") ++ (bs [10])) ++ ((b "  ""id"": ""ark:123/abc"",") ++ (bs [10])))) ++ ((((b "  ""manifest"": {") ++ (bs [10])) ++ ((b "    ""43a43fe8a8a082d3b5343dfaf2fd0c8b8e370675b1f376e92e9994612c33ea255b11298269d72f797399ebb94edeefe53df243643676548f584fb8603ca53a0f"": [") ++ (bs [10]))) ++ (((b "      ""v1/content/a_file.txt""") ++ (bs [10])) ++ ((b "    ]") ++ (bs [10]))))) ++ (((((b "  },") ++ (bs [10])) ++ ((b "  ""type"": ""https://ocfl.io/1.0/spec/#inventory"",") ++ (bs [10]))) ++ (((b "  ""versions"": {") ++ (bs [10])) ++ ((b "    ""v1"": {") ++ (bs [10])))) ++ ((((b "      ""created"": ""2019-01-01T02:03:04Z"",") ++ (bs [10])) ++ ((b "      ""message"": ""An version with one file"",") ++ (bs [10]))) ++ (((b "      ""state"": {") ++ (bs [10])) ++ ((b "        ""43a43fe8a8a082d3b5343dfaf2fd0c8b8e370675b1f376e92e9994612c33ea255b11298269d72f797399ebb94edeefe53df243643676548f584fb8603ca53a0f"": [") ++ (bs [10])))))) ++ ((((((b "          ""a_file.txt""") ++ (bs [10])) ++ ((b "        ]") ++ (bs [10]))) ++ (((b "      },") ++ (bs [10])) ++ ((b "      ""user"": {") ++ (bs [10])))) ++ ((((b "        ""address"": ""mailto:a_person@example.org"",") ++ (bs [10])) ++ ((b "        ""name"": ""A Person""") ++ (bs [10]))) ++ (((b "      }") ++ (bs [10])) ++ ((b "    }") ++ (bs [10]))))) ++ (((b "  }") ++ (bs [10])) ++ ((b "}") ++ (bs [10])))))))); ((b "inventory.json.sha512"), (NFile [(b "sha256", b "bc8fde8b975427f912858142640e81416867286d48fdddee51777603578d1e0b"); (b "sha512", b "479e2863c3e5e67a87d1694be24a2f9446fa577bff53797ab85c978c752c4f6dbc0227782e7b6dbb89bba7253f99b6d4956ef75180077b1d92229fecdf2a7587")] (Some ((b "f889cd4ba8cfd5b52c5f8c9ca99cb404586e60ee5d5b9b5508338f296776bf613719175253d9027c7e166ede7182785889b5ca59e19e441e47cde56b5bc20949 inventory.json") ++ (bs [10]))))); ((b "v1"), (NDir [((b "content"), (NDir [((b "a_file.txt"), (NFile [(b "sha256", b "af9a8763eac0ff815ff634c65f9d82374a0659a86290338b6dc45960e393a3c9"); (b "sha512", b "43a43fe8a8a082d3b5343dfaf2fd0c8b8e370675b1f376e92e9994612c33ea255b11298269d72f797399ebb94edeefe53df243643676548f584fb8603ca53a0f")] None))])); ((b "inventory.json"), (NFile [(b "sha256", b "90f3711b22af60c56ac1f65a58df4ae982428dfce8385074a3e710d71994a970"); (b "sha512", b "f889cd4ba8cfd5b52c5f8c9ca99cb404586e60ee5d5b9b5508338f296776bf613719175253d9027c7e166ede7182785889b5ca59e19e441e47cde56b5bc20949")] (Some (((((((b "{") ++ (bs [10])) ++ ((b "  ""digestAlgorithm"": ""sha512"",") ++ (bs [10]))) ++ (((b "  ""head"": ""v1"",") ++ (bs [10])) ++ ((b "  ""id"": ""ark:123/abc"",") ++ (bs [10])))) ++ ((((b "  ""manifest"": {") ++ (bs [10])) ++ ((b "    ""43a43fe8a8a082d3b5343dfaf2fd0c8b8e370675b1f376e92e9994612c33ea255b11298269d72f797399ebb94edeefe53df243643676548f584fb8603ca53a0f"": [") ++ (bs [10]))) ++ (((b "      ""v1/content/a_file.txt""") ++ (bs [10])) ++ ((b "    ]") ++ (bs [10]))))) ++ (((((b "  },") ++ (bs [10])) ++ ((b "  ""type"": ""https://ocfl.io/1.0/spec/#inventory"",") ++ (bs [10]))) ++ (((b "  ""versions"": {") ++ (bs [10])) ++ ((b "    ""v1"": {") ++ (bs [10])))) ++ ((((b "      ""created"": ""2019-01-01T02:03:04Z"",") ++ (bs [10])) ++ ((b "      ""message"": ""An version with one file"",") ++ (bs [10]))) ++ (((b "      ""state"": {") ++ (bs [10])) ++ ((b "        ""43a43fe8a8a082d3b5343dfaf2fd0c8b8e370675b1f376e92e9994612c33ea255b11298269d72f797399ebb94edeefe53df243643676548f584fb8603ca53a0f"": [") ++ (bs [10])))))) ++ ((((((b "          ""a_file.txt""") ++ (bs [10])) ++ ((b "        ]") ++ (bs [10]))) ++ (((b "      },") ++ (bs [10])) ++ ((b "      ""user"": {") ++ (bs [10])))) ++ ((((b "        ""address"": ""mailto:a_person@example.org"",") ++ (bs [10])) ++ ((b "        ""name"": ""A Person""") ++ (bs [10]))) ++ (((b "      }") ++ (bs [10])) ++ ((b "    }") ++ (bs [10]))))) ++ (((b "  }") ++ (bs [10])) ++ ((b "}") ++ (bs [10])))))))); ((b "inventory.json.sha512"), (NFile [(b "sha256", b "bc8fde8b975427f912858142640e81416867286d48fdddee51777603578d1e0b"); (b "sha512", b "479e2863c3e5e67a87d1694be24a2f9446fa577bff53797ab85c978c752c4f6dbc0227782e7b6dbb89bba7253f99b6d4956ef75180077b1d92229fecdf2a7587")] (Some ((b "f889cd4ba8cfd5b52c5f8c9ca99cb404586e60ee5d5b9b5508338f296776bf613719175253d9027c7e166ede7182785889b5ca59e19e441e47cde56b5bc20949 inventory.json") ++ (bs [10])))))]))]).
(** official-1.0/error/E023_extra_file *)
Definition fx_extra_file_object : node := (NDir [((b "0=ocfl_object_1.0"), (NFile [(b "sha256", b "e0686361e5d0d02978ad76da661b0d11f589870bf2651ab35a2f3ac2c0782e4a"); (b "sha512", b "f2d82d5b8ef10ca997fcadf894ee14e9183386256c723816813113f0bc1c161f0b63eb83144806cbd85e484ec36a6b6bc5812b0b6fd8ac91e2a08373b8c9d564")] (Some ((b "ocfl_object_1.0") ++ (bs [10]))))); ((b "inventory.json"), (NFile [(b "sha256", b "c1516d52a6bb5f7fee6a6807a54e421a02f5989a601c44f9cfbd76d91d093b6c"); (b "sha512", b "2dc052dae21c0557782a0d669ed759b623c63ba5c40da90d821f258d7ff614bdce572783a5e424bedd1d9d46d904ecb381f40ec26a0df01e91169177744438d4")] (Some (((((((b "{") ++ (bs [10])) ++ ((b "    ""digestAlgorithm"": ""sha512"",") ++ (bs [10]))) ++ (((b "    ""head"": ""v1"",") ++ (bs [10])) ++ ((b "    ""id"": ""info:bad05"",") ++ (bs [10])))) ++ ((((b "    ""manifest"": {") ++ (bs [10; 9])) ++ ((b """e7c22b994c59d9cf2b48e549b1e24666636045930d3da7c1acb299d1c3b7f931f94aae41edda2c2b207a36e10f8bcb8d45223e54878f5b316e7ce3b6bc019629"": [") ++ (bs [10; 9]))) ++ (((b "    ""v1/content/file.txt""") ++ (bs [10])) ++ ((b "        ]") ++ (bs [10]))))) ++ (((((b "    },") ++ (bs [10])) ++ ((b "    ""type"": ""https://ocfl.io/1.0/spec/#inventory"",") ++ (bs [10]))) ++ (((b "    ""versions"": {") ++ (bs [10; 9])) ++ ((b """v1"": {") ++ (bs [10; 9])))) ++ ((((b "    ""created"": ""2018-10-31T12:54:57.688459Z"",") ++ (bs [10; 9])) ++ ((b "    ""message"": """",") ++ (bs [10; 9]))) ++ (((b "    ""state"": {") ++ (bs [10; 9; 9])) ++ ((b """e7c22b994c59d9cf2b48e549b1e24666636045930d3da7c1acb299d1c3b7f931f94aae41edda2c2b207a36e10f8bcb8d45223e54878f5b316e7ce3b6bc019629"": [") ++ (bs [10; 9; 9])))))) ++ ((((((b "    ""file.txt""") ++ (bs [10])) ++ ((b "                ]") ++ (bs [10; 9]))) ++ (((b "    },") ++ (bs [10; 9])) ++ ((b "    ""user"": {") ++ (bs [10; 9; 9])))) ++ ((((b """address"": ""somewhere"",") ++ (bs [10; 9; 9])) ++ ((b """name"": ""someone""") ++ (bs [10; 9]))) ++ (((b "    }") ++ (bs [10; 9])) ++ ((b "}") ++ (bs [10]))))) ++ (((b "    }") ++ (bs [10])) ++ ((b "}") ++ (bs [10])))))))); ((b "inventory.json.sha512"), (NFile [(b "sha256", b "aac7770db2160704e51177864b623cb05c7606b0fb228f69e9fa7b7c4b2adaa4"); (b "sha512", b "7a1ea838e897395fd54f01ea03145a241065827e3802408be04071ed735880a506cedfbd79d7358cca33650e4c936e5bfd1f7c336e265f0b2fe66c94977b7e04")] (Some ((b "2dc052dae21c0557782a0d669ed759b623c63ba5c40da90d821f258d7ff614bdce572783a5e424bedd1d9d46d904ecb381f40ec26a0df01e91169177744438d4  inventory.json") ++ (bs [10]))))); ((b "v1"), (NDir [((b "content"), (NDir [((b "file.txt"), (NFile [(b "sha256", b "5891b5b522d5df086d0ff0b110fbd9d21bb4fc7163af34d08286a2e846f6be03"); (b "sha512", b "e7c22b994c59d9cf2b48e549b1e24666636045930d3da7c1acb299d1c3b7f931f94aae41edda2c2b207a36e10f8bcb8d45223e54878f5b316e7ce3b6bc019629")] None)); ((b "file2.txt"), (NFile [(b "sha256", b "d9a4c6676a62cb3b8ca0b8459ab341837cdba8543316c8574b454ccc24d4c690"); (b "sha512", b "dfe9a0bbfdaab7173036571a1d9e34e2465b1e3a52e8b707bbf6dea9239a9a55b0fc9e511fc24882d7f493cd950a9dbef1de13e08a007909b21cd5ba54dc4888")] None))])); ((b "inventory.json"), (NFile [(b "sha256", b "c1516d52a6bb5f7fee6a6807a54e421a02f5989a601c44f9cfbd76d91d093b6c"); (b "sha512", b "2dc052dae21c0557782a0d669ed759b623c63ba5c40da90d821f258d7ff614bdce572783a5e424bedd1d9d46d904ecb381f40ec26a0df01e91169177744438d4")] (Some (((((((b "{") ++ (bs [10])) ++ ((b "    ""digestAlgorithm"": ""sha512"",") ++ (bs [10]))) ++ (((b "    ""head"": ""v1"",") ++ (bs [10])) ++ ((b "    ""id"": ""info:bad05"",") ++ (bs [10])))) ++ ((((b "    ""manifest"": {") ++ (bs [10; 9])) ++ ((b """e7c22b994c59d9cf2b48e549b1e24666636045930d3da7c1acb299d1c3b7f931f94aae41edda2c2b207a36e10f8bcb8d45223e54878f5b316e7ce3b6bc019629"": [") ++ (bs [10; 9]))) ++ (((b "    ""v1/content/file.txt""") ++ (bs [10])) ++ ((b "        ]") ++ (bs [10]))))) ++ (((((b "    },") ++ (bs [10])) ++ ((b "    ""type"": ""https://ocfl.io/1.0/spec/#inventory"",") ++ (bs [10]))) ++ (((b "    ""versions"": {") ++ (bs [10; 9])) ++ ((b """v1"": {") ++ (bs [10; 9])))) ++ ((((b "    ""created"": ""2018-10-31T12:54:57.688459Z"",") ++ (bs [10; 9])) ++ ((b "    ""message"": """",") ++ (bs [10; 9]))) ++ (((b "    ""state"": {") ++ (bs [10; 9; 9])) ++ ((b """e7c22b994c59d9cf2b48e549b1e24666636045930d3da7c1acb299d1c3b7f931f94aae41edda2c2b207a36e10f8bcb8d45223e54878f5b316e7ce3b6bc019629"": [") ++ (bs [10; 9; 9])))))) ++ ((((((b "    ""file.txt""") ++ (bs [10])) ++ ((b "                ]") ++ (bs [10; 9]))) ++ (((b "    },") ++ (bs [10; 9])) ++ ((b "    ""user"": {") ++ (bs [10; 9; 9])))) ++ ((((b """address"": ""somewhere"",") ++ (bs [10; 9; 9])) ++ ((b """name"": ""someone""") ++ (bs [10; 9]))) ++ (((b "    }") ++ (bs [10; 9])) ++ ((b "}") ++ (bs [10]))))) ++ (((b "    }") ++ (bs [10])) ++ ((b "}") ++ (bs [10])))))))); ((b "inventory.json.sha512"), (NFile [(b "sha256", b "aac7770db2160704e51177864b623cb05c7606b0fb228f69e9fa7b7c4b2adaa4"); (b "sha512", b "7a1ea838e897395fd54f01ea03145a241065827e3802408be04071ed735880a506cedfbd79d7358cca33650e4c936e5bfd1f7c336e265f0b2fe66c94977b7e04")] (Some ((b "2dc052dae21c0557782a0d669ed759b623c63ba5c40da90d821f258d7ff614bdce572783a5e424bedd1d9d46d904ecb381f40ec26a0df01e91169177744438d4  inventory.json") ++ (bs [10])))))]))]).

Example C07_fixture_valid : inv_errors_bytes V10 fx_minimal = [].
Proof. vm_compute. reflexivity. Qed.

Example C07_fixture_satisfies_spec : exists j, parse_json fx_minimal = Some j /\ InvSpecOK V10 j.
Proof.
  destruct (parse_json fx_minimal) as [j|] eqn:E; [|vm_compute in E; discriminate E].
  exists j. split; [reflexivity|]. apply inv_errors_sound_complete.
  assert (H : inv_errors_bytes V10 fx_minimal = []) by (vm_compute; reflexivity).
  unfold inv_errors_bytes in H. rewrite E in H. exact H.
Qed.

Example C07_fixture_wrong_declared_version : inv_errors_bytes V11 fx_minimal = [38].
Proof. vm_compute. reflexivity. Qed.

Example C07_fixture_invalid : inv_errors_bytes V10 fx_unused_digest = [107].
Proof. vm_compute. reflexivity. Qed.

Example C07_fixture_object_valid : object_errors true fx_minimal_object = [] /\ object_errors false fx_minimal_object = [].
Proof. vm_compute. split; reflexivity. Qed.

Example C07_fixture_object_invalid : object_errors true fx_extra_file_object = [23].
Proof. vm_compute. reflexivity. Qed.

(** the escaped spelling is a different text with the same value and the same (empty) error list *)
Example C07_escaped_same_document :
  fx_minimal_escaped <> fx_minimal /\ parse_json fx_minimal_escaped = parse_json fx_minimal
  /\ inv_errors_bytes V10 fx_minimal_escaped = [].
Proof. split; [intros H; vm_compute in H; discriminate H | vm_compute; split; reflexivity]. Qed.

Example C07_key_order_nonvacuous :
  jv_perm (JObj [(b "a", JStr (b "1")); (b "b", JObj [(b "x", JNull); (b "y", JNull)])])
          (JObj [(b "b", JObj [(b "y", JNull); (b "x", JNull)]); (b "a", JStr (b "1"))]).
Proof.
  apply jp_obj. eapply pr_trans; [apply pr_swap|]. apply pr_skip; [|apply pr_skip; [split; [reflexivity | apply jp_refl] | apply pr_nil]].
  split; [reflexivity|]. apply jp_obj. apply pr_swap.
Qed.

Example C07_spelling_nonvacuous :
  spells (b "a" ++ [BSL; SL] ++ BSL :: b "u00e9") (b "a/" ++ [ascii_of_N 195; ascii_of_N 169]).
Proof.
  apply (spells_app [ascii_of_N 97] [ascii_of_N 97]); [apply sp_raw; vm_compute; try discriminate; intros H; discriminate H|].
  apply (spells_app [BSL; SL] [SL]); [apply sp_simple; reflexivity|].
  apply (spells_app (BSL :: b "u00e9") [ascii_of_N 195; ascii_of_N 169] [] []); [|apply spells_nil].
  apply (sp_u4 "0"%char "0"%char "e"%char "9"%char 233); [reflexivity | left; reflexivity].
Qed.
