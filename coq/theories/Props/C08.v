(** C08 - staged changes and other objects never touch committed data (model level:
    objects as independent life cycles; the byte-level half is decided by the
    snapshot comparison of the check). *)
From Coq Require Import NArith Ascii.
From stdpp Require Import gmap.
From Rocfl Require Import Model.Inventory Model.InvSpec Model.Repo Proofs.RepoFacts.

Theorem C08_other_objects_untouched : ∀ r x o y, y ≠ x → rstep r (x, o) !! y = r !! y.
Proof. exact rstep_frame_raw. Qed.
Print Assumptions C08_other_objects_untouched.

Theorem C08_staging_never_changes_committed : ∀ s o,
  is_staging_op o = true → o_main (ostep s o) = o_main s.
Proof. exact staging_keeps_main. Qed.
Print Assumptions C08_staging_never_changes_committed.

Theorem C08_reads_ignore_staging : ∀ r x o, is_staging_op o = true →
  ∀ y v d, read_listing (rstep r (x, o)) y v = read_listing r y v ∧
           read_candidates (rstep r (x, o)) y v d = read_candidates r y v d.
Proof. exact reads_ignore_staging. Qed.
Print Assumptions C08_reads_ignore_staging.

Theorem C08_reset_all_leaves_no_trace : ∀ s ops,
  o_staged s = None → Forall (λ o, ∃ op, o = OStage op) ops →
  ostep (foldl ostep s ops) OResetAll = s.
Proof. exact reset_all_no_trace. Qed.
Print Assumptions C08_reset_all_leaves_no_trace.

Theorem C08_purge_removes_exactly_the_object : ∀ r x, rstep r (x, OPurge) = <[x := oinit]> r.
Proof. exact purge_exact. Qed.
Print Assumptions C08_purge_removes_exactly_the_object.

Example C08_nonvacuous :
  let r := foldl rstep (∅ : repo) [(["a"%char], ONew); (["b"%char], ONew); (["a"%char], OStage (SAdd 1 [["f"%char]]))] in
  o_staged (oget (rstep r (["a"%char], OResetAll)) ["a"%char]) = None ∧
  o_staged (oget (rstep r (["a"%char], OResetAll)) ["b"%char]) = Some new_inventory.
Proof. split; vm_compute; reflexivity. Qed.
