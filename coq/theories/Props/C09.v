(** C09 - the staged view equals the last version plus the staged operations. *)
From Coq Require Import NArith Ascii.
From stdpp Require Import gmap.
From Rocfl Require Import Model.Inventory Model.InvSpec Model.Staging
  Proofs.InventoryFacts Proofs.StagingFacts.

(** the logical view after any resolved cp / mv / rm / reset equals the abstract
    cp/mv/rm/reset specification applied to the previous view: manifest
    bookkeeping and the staged-or-committed decision never influence it *)
Theorem C09_staged_view_is_spec : ∀ o i,
  i_hstate (sapply o i) = spec_apply o (i_hstate i) (get_state i) (head i).
Proof. exact sapply_view. Qed.
Print Assumptions C09_staged_view_is_spec.

(** in every reachable staged object every logical path is backed by bytes: its own
    staged content path, or content of a committed version *)
Theorem C09_staged_paths_readable : ∀ (ops : list oop) i p d,
  o_staged (foldl ostep oinit ops) = Some i → i_hstate i !! p = Some d →
  i_manifest i !! ncp i p = Some d ∨ committed_copy i d.
Proof.
  intros ops i p d Hs. apply staged_readable. by apply (proj2 (reachable_ok ops)).
Qed.
Print Assumptions C09_staged_paths_readable.

(** a path can never be both a file and a directory *)
Theorem C09_no_file_dir_conflict : ∀ (ops : list oop) i,
  o_staged (foldl ostep oinit ops) = Some i → NoConflict (i_hstate i).
Proof. intros ops i Hs. apply sw_noconf. by apply (proj2 (reachable_ok ops)). Qed.
Print Assumptions C09_no_file_dir_conflict.

Theorem C09_removed_paths_absent : ∀ p i, i_hstate (sapply (SRemove p) i) !! p = None.
Proof. exact removed_absent. Qed.
Print Assumptions C09_removed_paths_absent.

Theorem C09_reset_restores_previous_entry : ∀ p i pst d,
  (head i ≠ 1)%N → get_state i (head i - 1) = Some pst → pst !! p = Some d →
  conflictb (delete p (i_hstate i)) p = false →
  i_hstate (sapply (SResetPrev p) i) !! p = Some d.
Proof. exact reset_restores. Qed.
Print Assumptions C09_reset_restores_previous_entry.

(** a source that fails contributes an error and no change; the object stays well formed
    (hence committable: C01_commit_valid) *)
Theorem C09_failing_source_changes_nothing : ∀ o i,
  (∀ p, o ≠ SResetPrev p) → sop_fails o i = true → sapply o i = i.
Proof. exact sop_fails_unchanged. Qed.
Print Assumptions C09_failing_source_changes_nothing.

Theorem C09_staged_object_stays_wellformed : ∀ o i, StagedWF i → StagedWF (sapply o i).
Proof. exact sapply_wf. Qed.
Print Assumptions C09_staged_object_stays_wellformed.

(** reset of several paths: whether or not it reports a failure, the result is the fold of the single-path
    resets over ALL named paths - a path that cannot be restored is skipped (C09_failing_source..., or for
    SResetPrev: [sapply] leaves it absent), the others are restored (C09_reset_restores_previous_entry) - and the
    staged object stays well formed, hence readable and committable (fix 9f7da71: before it the call stopped at the
    first blocked path without re-staging the inventory) *)
Theorem C09_reset_applies_all_named_paths : ∀ paths recursive order i,
  let hps := remove_dups (concat (map (fun g => resolve_glob (i_hstate i) g recursive) paths)) in
  let pps := match last (i_prev i) with
             | Some pst => remove_dups (concat (map (fun g => resolve_glob pst g recursive) paths))
             | None => []
             end in
  let adds := filter (fun p => negb (bool_decide (p ∈ pps))) hps in
  fst (reset_apply paths recursive order i) =
  foldl (fun a o => sapply o a) i (map SRemove adds ++ map SResetPrev (order pps)).
Proof. exact reset_apply_result. Qed.
Print Assumptions C09_reset_applies_all_named_paths.

Theorem C09_reset_leaves_object_wellformed : ∀ paths recursive order i,
  StagedWF i → StagedWF (fst (reset_apply paths recursive order i)).
Proof. exact reset_apply_wf. Qed.
Print Assumptions C09_reset_leaves_object_wellformed.

Example C09_nonvacuous :
  let i := sapply (SAdd 7 [["x"%char]]) new_inventory in
  i_hstate (sapply (SMoveInt [["x"%char]] [["y"%char]]) i) !! [["y"%char]] = Some 7%N ∧
  sop_fails (SAdd 8 [["x"%char]; ["z"%char]]) i = true.
Proof. split; vm_compute; reflexivity. Qed.
