(** C10 - whatever rocfl accepts and writes to an inventory it can read back unchanged.
    Property theorems only; each closed by [exact] of a lemma from Proofs/Json*.v.
    [serde_escape] is serde_json's writer, [decode_string] its (RFC 8259) reader,
    [read_borrowed] the reader behind a borrowed-only type, [rocfl_read_pos] rocfl's
    reader for one inventory position, [KnownC10.*] the recorded defect classes. *)
From Rocfl Require Import Base.Bytes Model.VersionNum Model.Json Model.KnownC10
  Proofs.JsonFacts Proofs.JsonPathFacts Proofs.JsonPosFacts.
Open Scope N_scope.

(** ** any conforming parser reads back what was written (all byte strings) *)
Theorem C10_bytes_roundtrip : forall s, decode_raw (serde_escape s) = Some s.
Proof. exact decode_raw_escape. Qed.
Print Assumptions C10_bytes_roundtrip.

Theorem C10_string_roundtrip : forall s, utf8_valid s = true -> decode_string (serde_escape s) = Some s.
Proof. exact decode_string_escape. Qed.
Print Assumptions C10_string_roundtrip.

Theorem C10_escape_is_valid_json_string : forall s, json_string_token (serde_escape s) = true.
Proof. exact escape_is_token. Qed.
Print Assumptions C10_escape_is_valid_json_string.

Theorem C10_escape_has_no_raw_control_byte : forall s, forallb (fun x => 32 <=? code x) (serde_escape s) = true.
Proof. exact escape_no_raw_control. Qed.
Print Assumptions C10_escape_has_no_raw_control_byte.

Theorem C10_escape_injective : forall s1 s2, serde_escape s1 = serde_escape s2 -> s1 = s2.
Proof. exact serde_escape_injective. Qed.
Print Assumptions C10_escape_injective.

(** ** borrowed strings *)
Theorem C10_token_has_escape_iff_needed : forall s, has_escape (serde_escape s) = needs_escape s.
Proof. exact has_escape_serde. Qed.
Print Assumptions C10_token_has_escape_iff_needed.

Theorem C10_borrowed_iff_no_escape : forall s, utf8_valid s = true ->
  (read_borrowed (serde_escape s) = Some s <-> needs_escape s = false).
Proof. exact borrowed_iff. Qed.
Print Assumptions C10_borrowed_iff_no_escape.

Theorem C10_borrowed_fails_on_escape : forall s, needs_escape s = true -> read_borrowed (serde_escape s) = None.
Proof. exact read_borrowed_escaped. Qed.
Print Assumptions C10_borrowed_fails_on_escape.

Theorem C10_borrowed_agrees_with_owned : forall t s, read_borrowed t = Some s -> decode_string t = Some s.
Proof. exact read_borrowed_decode. Qed.
Print Assumptions C10_borrowed_agrees_with_owned.

(** ** rocfl's reader, position by position *)
Theorem C10_rocfl_read_roundtrip : forall p s,
  utf8_valid s = true -> pos_value_ok p s = true -> c10_needs_json_escape p s = false ->
  rocfl_read_pos p (serde_escape s) = Some s.
Proof. exact rocfl_read_roundtrip. Qed.
Print Assumptions C10_rocfl_read_roundtrip.

Theorem C10_rocfl_read_fails_exactly_in_known_class : forall p s,
  utf8_valid s = true -> pos_value_ok p s = true ->
  (rocfl_read_pos p (serde_escape s) = Some s <-> c10_needs_json_escape p s = false).
Proof. exact rocfl_read_iff. Qed.
Print Assumptions C10_rocfl_read_fails_exactly_in_known_class.

(** id, contentDirectory, message, user name, user address: unconditional *)
Theorem C10_owned_text_roundtrip : forall p s,
  free_text p = true -> pos_borrowed p = false -> utf8_valid s = true ->
  rocfl_read_pos p (serde_escape s) = Some s.
Proof. exact owned_text_roundtrip. Qed.
Print Assumptions C10_owned_text_roundtrip.

Theorem C10_validator_read_roundtrip : forall p s,
  utf8_valid s = true -> c10_validator_needs_json_escape p s = false ->
  validator_read_pos p (serde_escape s) = Some s.
Proof. exact validator_read_roundtrip. Qed.
Print Assumptions C10_validator_read_roundtrip.

(** ** accepted operations never wedge the object outside the known classes *)
Theorem C10_cp_no_wedge : forall dst src lp,
  cp_logical_path dst src = Ok lp -> utf8_valid lp = true ->
  c10_needs_json_escape PLogicalPath lp = false ->
  rocfl_read_pos PLogicalPath (serde_escape lp) = Some lp.
Proof. exact cp_no_wedge. Qed.
Print Assumptions C10_cp_no_wedge.

Theorem C10_content_path_roundtrip : forall v cdir lp,
  vwf v = true -> vfits v = true ->
  validate_content_dir cdir = true -> c10_cdir_empty cdir = false ->
  lpath_try_from lp = Ok lp -> is_empty lp = false ->
  utf8_valid cdir = true -> utf8_valid lp = true ->
  rocfl_read_pos PContentPath (serde_escape (content_path v cdir lp)) = Some (content_path v cdir lp).
Proof. exact content_path_roundtrip. Qed.
Print Assumptions C10_content_path_roundtrip.

Theorem C10_object_id_stored_as_given : forall id t,
  create_object_id id = Ok t -> c10_id_trimmed id = false -> t = id.
Proof. exact create_object_id_same. Qed.
Print Assumptions C10_object_id_stored_as_given.

(** ** the excluded classes are genuine defects of the modelled code *)
Theorem C10_rocfl_roundtrip_refuted : exists dst src lp,
  cp_logical_path dst src = Ok lp /\ utf8_valid lp = true /\
  rocfl_read_pos PLogicalPath (serde_escape lp) = None /\
  decode_string (serde_escape lp) = Some lp.
Proof.
  exists (bs [100; 47; 97; 34; 98; 46; 116; 120; 116]), (b "src.txt"), (bs [100; 47; 97; 34; 98; 46; 116; 120; 116]).
  repeat split; vm_compute; reflexivity.
Qed.
Print Assumptions C10_rocfl_roundtrip_refuted.

Theorem C10_known_escape_class_always_wedges : forall dst src lp,
  cp_logical_path dst src = Ok lp -> c10_needs_json_escape PLogicalPath lp = true ->
  rocfl_read_pos PLogicalPath (serde_escape lp) = None.
Proof. exact cp_wedge. Qed.
Print Assumptions C10_known_escape_class_always_wedges.

Theorem C10_known_empty_content_dir_refuted : forall v lp,
  validate_content_dir [] = true /\
  rocfl_read_pos PContentPath (serde_escape (content_path v [] lp)) = None.
Proof. intros v lp. split; [reflexivity|exact (content_path_empty_cdir_wedge v lp)]. Qed.
Print Assumptions C10_known_empty_content_dir_refuted.

Theorem C10_known_id_trimmed_refuted : forall id t,
  create_object_id id = Ok t -> c10_id_trimmed id = true -> t <> id.
Proof. exact create_object_id_differs. Qed.
Print Assumptions C10_known_id_trimmed_refuted.

Theorem C10_known_validator_escape_refuted : forall p s,
  c10_validator_needs_json_escape p s = true -> validator_read_pos p (serde_escape s) = None.
Proof. exact validator_read_fails. Qed.
Print Assumptions C10_known_validator_escape_refuted.

(** ** Non-vacuity: the hypotheses are met by concrete inputs *)
Example C10_nonvacuous_strings :
  utf8_valid (bs [97; 34; 92; 10; 1; 127; 240; 159; 152; 128]) = true /\
  needs_escape (bs [97; 34; 92; 10; 1; 127; 240; 159; 152; 128]) = true /\
  decode_string (serde_escape (bs [97; 34; 92; 10; 1; 127; 240; 159; 152; 128]))
    = Some (bs [97; 34; 92; 10; 1; 127; 240; 159; 152; 128]) /\
  needs_escape (bs [97; 127; 240; 159; 152; 128; 37; 32]) = false /\
  read_borrowed (serde_escape (bs [97; 127; 240; 159; 152; 128; 37; 32]))
    = Some (bs [97; 127; 240; 159; 152; 128; 37; 32]) /\
  utf8_valid (bs [237; 160; 128]) = false /\
  decode_string (bs [34; 92; 117; 100; 56; 51; 100; 92; 117; 100; 101; 48; 48; 34]) = Some (bs [240; 159; 152; 128]).
Proof. repeat split; vm_compute; reflexivity. Qed.

Example C10_nonvacuous_positions :
  (* a plain file name goes through cp and reads back *)
  cp_logical_path (b "d/x y.txt") (b "src.txt") = Ok (b "d/x y.txt") /\
  c10_needs_json_escape PLogicalPath (b "d/x y.txt") = false /\
  rocfl_read_pos PLogicalPath (serde_escape (b "d/x y.txt")) = Some (b "d/x y.txt") /\
  (* an object id with a quote is an owned String: fine in the main reader, not in the validator *)
  create_object_id (bs [97; 34; 98]) = Ok (bs [97; 34; 98]) /\ c10_id_trimmed (bs [97; 34; 98]) = false /\
  rocfl_read_pos PId (serde_escape (bs [97; 34; 98])) = Some (bs [97; 34; 98]) /\
  validator_read_pos PId (serde_escape (bs [97; 34; 98])) = None /\
  (* trimmed id *)
  create_object_id (b " ab ") = Ok (b "ab") /\ c10_id_trimmed (b " ab ") = true /\
  (* content paths *)
  rocfl_read_pos PContentPath (serde_escape (content_path (mkV 1 0) (b "content") (b "d/f.txt")))
    = Some (b "v1/content/d/f.txt") /\
  vwf (mkV 1 0) = true /\ vfits (mkV 1 0) = true /\ validate_content_dir (b "content") = true /\
  c10_cdir_collides_with_inventory (b "inventory.json.sha512") (b "sha512") = true /\
  validate_content_dir (b "inventory.json") = true /\ validate_content_dir (b "a/b") = false.
Proof. repeat split; vm_compute; reflexivity. Qed.
