(** C10 - whatever rocfl accepts and writes to an inventory it can read back unchanged.
    Property theorems only; each closed by [exact] of a lemma from Proofs/Json*.v.
    [serde_escape] is serde_json's writer, [decode_string] its (RFC 8259) reader,
    [read_borrowed] the reader behind a borrowed-only type, [main_read_pos] / [val_read_pos]
    rocfl's CURRENT readers (main reader src/ocfl/serde.rs after bb69bb9, rocfl validate
    src/ocfl/validate/serde.rs after 2f36fc5) for one inventory position, [create_object_cdir]
    the content directory names create_object accepts.  No known-finding class is left: the
    five recorded classes were repaired in /repo (d88c1da, 031a721, bb69bb9, 2f36fc5) and every
    theorem below is unconditional.  [main_read_pos_before_fix] / [val_read_pos_before_fix] are the HISTORICAL
    readers and occur only in the `C10_before_fix_...` notes.
    [escaped_version_name_token] is not a defect class of C10: it names the tokens (an escaped
    spelling of head / a version key, which rocfl never writes) on which the main reader still
    differs from a conforming decoder; it appears as a hypothesis of the theorems about
    inventories written by other software. *)
From Rocfl Require Import Base.Bytes Model.VersionNum Model.Json Generated.Consts
  Proofs.JsonFacts Proofs.JsonPathFacts Proofs.JsonPosFacts.
Open Scope N_scope.

(** ** any conforming parser reads back what was written (all byte strings) *)
Theorem C10_bytes_roundtrip : forall s, decode_raw (serde_escape s) = Some s.
Proof. exact decode_raw_escape. Qed.
Print Assumptions C10_bytes_roundtrip.

Theorem C10_string_roundtrip : forall s, utf8_valid s = true -> decode_string (serde_escape s) = Some s.
Proof. exact decode_string_escape. Qed.
Print Assumptions C10_string_roundtrip.

Theorem C10_escape_is_valid_json_string : forall s, json_string_token (serde_escape s) = true.
Proof. exact escape_is_token. Qed.
Print Assumptions C10_escape_is_valid_json_string.

Theorem C10_escape_has_no_raw_control_byte : forall s, forallb (fun x => 32 <=? code x) (serde_escape s) = true.
Proof. exact escape_no_raw_control. Qed.
Print Assumptions C10_escape_has_no_raw_control_byte.

Theorem C10_escape_injective : forall s1 s2, serde_escape s1 = serde_escape s2 -> s1 = s2.
Proof. exact serde_escape_injective. Qed.
Print Assumptions C10_escape_injective.

(** ** borrowed strings *)
Theorem C10_token_has_escape_iff_needed : forall s, has_escape (serde_escape s) = needs_escape s.
Proof. exact has_escape_serde. Qed.
Print Assumptions C10_token_has_escape_iff_needed.

Theorem C10_borrowed_iff_no_escape : forall s, utf8_valid s = true ->
  (read_borrowed (serde_escape s) = Some s <-> needs_escape s = false).
Proof. exact borrowed_iff. Qed.
Print Assumptions C10_borrowed_iff_no_escape.

Theorem C10_borrowed_fails_on_escape : forall s, needs_escape s = true -> read_borrowed (serde_escape s) = None.
Proof. exact read_borrowed_escaped. Qed.
Print Assumptions C10_borrowed_fails_on_escape.

Theorem C10_borrowed_agrees_with_owned : forall t s, read_borrowed t = Some s -> decode_string t = Some s.
Proof. exact read_borrowed_decode. Qed.
Print Assumptions C10_borrowed_agrees_with_owned.

(** ** rocfl's CURRENT readers, position by position: everything rocfl writes is read back *)
Theorem C10_main_read_roundtrip : forall p s,
  utf8_valid s = true -> pos_value_ok p s = true ->
  main_read_pos p (serde_escape s) = Some s.
Proof. exact main_read_roundtrip. Qed.
Print Assumptions C10_main_read_roundtrip.

(** id, contentDirectory, message, user name, user address, digests: whatever they contain *)
Theorem C10_owned_text_roundtrip : forall p s,
  free_text p = true -> utf8_valid s = true ->
  main_read_pos p (serde_escape s) = Some s.
Proof. exact owned_text_roundtrip. Qed.
Print Assumptions C10_owned_text_roundtrip.

Theorem C10_validator_read_roundtrip : forall p s,
  utf8_valid s = true -> val_read_pos p (serde_escape s) = Some s.
Proof. exact val_read_roundtrip. Qed.
Print Assumptions C10_validator_read_roundtrip.

(** on ARBITRARY tokens: the validator's reader is the conforming decoder at every position ... *)
Theorem C10_validator_reader_is_conforming : forall p t, val_read_pos p t = decode_string t.
Proof. exact val_read_conforming. Qed.
Print Assumptions C10_validator_reader_is_conforming.

(** ... the main reader is the conforming decoder followed by the position's visitor at every
    position except head and the version keys (VersionNum, #[serde(try_from = "&str")]) ... *)
Theorem C10_main_reader_is_conforming : forall p t,
  escaped_version_name_token p t = false ->
  main_read_pos p t = match decode_string t with Some s => post_visit p s | None => None end.
Proof. exact main_read_conforming. Qed.
Print Assumptions C10_main_reader_is_conforming.

Theorem C10_main_reader_is_conforming_outside_versions : forall p t,
  main_pos_borrowed p = false ->
  main_read_pos p t = match decode_string t with Some s => post_visit p s | None => None end.
Proof. exact main_read_conforming_outside_versions. Qed.
Print Assumptions C10_main_reader_is_conforming_outside_versions.

(** ... where an escaped spelling is refused; rocfl never writes one (a version name has no
    byte serde_json escapes), so this only concerns inventories written by other software *)
Theorem C10_escaped_version_name_refused_by_main_reader : forall p t,
  escaped_version_name_token p t = true -> main_read_pos p t = None.
Proof. exact main_read_escaped_version_name_refused. Qed.
Print Assumptions C10_escaped_version_name_refused_by_main_reader.

Theorem C10_rocfl_never_writes_escaped_version_name : forall p s,
  pos_value_ok p s = true -> escaped_version_name_token p (serde_escape s) = false.
Proof. exact written_token_not_escaped_version_name. Qed.
Print Assumptions C10_rocfl_never_writes_escaped_version_name.

(** ** accepted operations never wedge the object (no exception any more) *)
Theorem C10_cp_no_wedge : forall dst src lp,
  cp_logical_path dst src = Ok lp -> utf8_valid lp = true ->
  main_read_pos PLogicalPath (serde_escape lp) = Some lp /\
  val_read_pos PLogicalPath (serde_escape lp) = Some lp.
Proof. exact cp_no_wedge. Qed.
Print Assumptions C10_cp_no_wedge.

(** create_object's acceptance of a content directory (repo.rs:579-599, after fixes d88c1da and 29bc659):
    validate_content_dir and not blank, not `inventory.json`, not beginning with `inventory.json.`,
    at most 255 bytes and without NUL *)
Theorem C10_create_object_content_dir_accepts_exactly : forall cdir,
  create_object_cdir cdir = true <->
  validate_content_dir cdir = true /\ is_empty cdir = false /\
  bytes_eqb cdir K_INVENTORY_FILE = false /\ starts_with K_INVENTORY_SIDECAR_PREFIX cdir = false /\
  cdir_not_a_file_name cdir = false.
Proof. exact create_object_cdir_iff. Qed.
Print Assumptions C10_create_object_content_dir_accepts_exactly.

(** every accepted content directory (no exception any more): the manifest entry of the
    first cp is read back unchanged *)
Theorem C10_content_path_roundtrip : forall v cdir lp,
  vwf v = true -> vfits v = true ->
  create_object_cdir cdir = true ->
  lpath_try_from lp = Ok lp -> is_empty lp = false ->
  utf8_valid cdir = true -> utf8_valid lp = true ->
  main_read_pos PContentPath (serde_escape (content_path v cdir lp)) = Some (content_path v cdir lp).
Proof. exact content_path_roundtrip. Qed.
Print Assumptions C10_content_path_roundtrip.

(** every accepted content directory: it never takes the place of inventory.json or of the
    sidecar in the version directory, whatever the object's digest algorithm *)
Theorem C10_accepted_content_dir_never_collides : forall cdir alg,
  create_object_cdir cdir = true -> cdir_collides cdir alg = false.
Proof. exact accepted_cdir_no_collision. Qed.
Print Assumptions C10_accepted_content_dir_never_collides.

(** every accepted content directory can be the name of a directory (no NUL, at most 255 bytes) *)
Theorem C10_accepted_content_dir_is_a_file_name : forall cdir,
  create_object_cdir cdir = true -> fs_name_ok cdir = true.
Proof. exact accepted_cdir_is_file_name. Qed.
Print Assumptions C10_accepted_content_dir_is_a_file_name.

Theorem C10_colliding_content_dir_refused : forall cdir alg,
  cdir_collides cdir alg = true -> create_object_cdir cdir = false.
Proof. exact collision_refused. Qed.
Print Assumptions C10_colliding_content_dir_refused.

(** create_object + first cp + commit with an accepted content directory never wedge the object *)
Theorem C10_content_dir_no_wedge : forall v cdir lp alg,
  vwf v = true -> vfits v = true ->
  create_object_cdir cdir = true ->
  lpath_try_from lp = Ok lp -> is_empty lp = false ->
  utf8_valid cdir = true -> utf8_valid lp = true ->
  main_read_pos PContentDir (serde_escape cdir) = Some cdir /\
  main_read_pos PContentPath (serde_escape (content_path v cdir lp)) = Some (content_path v cdir lp) /\
  cdir_collides cdir alg = false /\ fs_name_ok cdir = true.
Proof. exact accepted_cdir_no_wedge. Qed.
Print Assumptions C10_content_dir_no_wedge.

(** create_object's id (repo.rs:551-557, after fix 031a721): every accepted id is stored
    exactly as given (no exception any more) ... *)
Theorem C10_object_id_stored_as_given : forall id t,
  create_object_id id = Ok t -> t = id.
Proof. exact create_object_id_same. Qed.
Print Assumptions C10_object_id_stored_as_given.

(** ... an id is accepted exactly when it is not blank after trimming Unicode white space,
    and refused (nothing stored) otherwise ... *)
Theorem C10_object_id_accepted_iff_not_blank : forall id,
  (is_empty (rust_trim id) = false /\ create_object_id id = Ok id) \/
  (is_empty (rust_trim id) = true /\ create_object_id id = Err).
Proof. exact create_object_id_total. Qed.
Print Assumptions C10_object_id_accepted_iff_not_blank.

(** ... and every later command reads back the very string that was given *)
Theorem C10_object_id_roundtrip : forall id t,
  create_object_id id = Ok t -> utf8_valid id = true ->
  t = id /\ main_read_pos PId (serde_escape t) = Some id /\ val_read_pos PId (serde_escape t) = Some id.
Proof. exact create_object_id_roundtrip. Qed.
Print Assumptions C10_object_id_roundtrip.

(** ** historical notes: the readers BEFORE fixes bb69bb9 / 2f36fc5 ([main_read_pos_before_fix],
    [val_read_pos_before_fix]: digests and paths, resp. nearly every position, behind a
    borrowed-only type) violated the property; the same inputs are read back by the current
    readers (theorems above) *)
Theorem C10_before_fix_escaped_file_name_wedged : exists dst src lp,
  cp_logical_path dst src = Ok lp /\ utf8_valid lp = true /\
  main_read_pos_before_fix PLogicalPath (serde_escape lp) = None /\
  decode_string (serde_escape lp) = Some lp /\
  main_read_pos PLogicalPath (serde_escape lp) = Some lp.
Proof.
  exists (bs [100; 47; 97; 34; 98; 46; 116; 120; 116]), (b "src.txt"), (bs [100; 47; 97; 34; 98; 46; 116; 120; 116]).
  repeat split; vm_compute; reflexivity.
Qed.
Print Assumptions C10_before_fix_escaped_file_name_wedged.

Theorem C10_before_fix_escape_class_always_wedged : forall dst src lp,
  cp_logical_path dst src = Ok lp -> needs_escape lp = true ->
  main_read_pos_before_fix PLogicalPath (serde_escape lp) = None.
Proof. exact cp_wedge_before_fix. Qed.
Print Assumptions C10_before_fix_escape_class_always_wedged.

Theorem C10_before_fix_validator_refused_escaped_strings : forall p s,
  (val_pos_borrowed_before_fix p && needs_escape s) = true -> val_read_pos_before_fix p (serde_escape s) = None.
Proof. exact validator_read_fails_before_fix. Qed.
Print Assumptions C10_before_fix_validator_refused_escaped_strings.

(** historical notes: the acceptance BEFORE fix d88c1da ([create_object_cdir_before_fix] =
    validate_content_dir alone) violated the property; the current model refuses these names *)
Theorem C10_before_fix_empty_content_dir_wedged : forall v lp,
  create_object_cdir_before_fix [] = true /\
  main_read_pos PContentPath (serde_escape (content_path v [] lp)) = None /\
  create_object_cdir [] = false.
Proof. intros v lp. split; [reflexivity|split; [exact (content_path_empty_cdir_wedge v lp)|reflexivity]]. Qed.
Print Assumptions C10_before_fix_empty_content_dir_wedged.

Theorem C10_before_fix_inventory_names_accepted : forall alg,
  create_object_cdir_before_fix [] = true /\
  create_object_cdir_before_fix K_INVENTORY_FILE = true /\ cdir_collides K_INVENTORY_FILE alg = true /\
  (existsb (fun x => code x =? 47) alg = false ->
   create_object_cdir_before_fix (K_INVENTORY_SIDECAR_PREFIX ++ alg) = true /\
   cdir_collides (K_INVENTORY_SIDECAR_PREFIX ++ alg) alg = true).
Proof. exact before_fix_accepted_blank_and_inventory_names. Qed.
Print Assumptions C10_before_fix_inventory_names_accepted.

Theorem C10_before_fix_object_id_trimmed : forall id t,
  create_object_id_before_fix id = Ok t -> rust_trim id <> id -> t <> id.
Proof. exact create_object_id_before_fix_differs. Qed.
Print Assumptions C10_before_fix_object_id_trimmed.

(** ** Non-vacuity: the hypotheses are met by concrete inputs *)
Example C10_nonvacuous_strings :
  utf8_valid (bs [97; 34; 92; 10; 1; 127; 240; 159; 152; 128]) = true /\
  needs_escape (bs [97; 34; 92; 10; 1; 127; 240; 159; 152; 128]) = true /\
  decode_string (serde_escape (bs [97; 34; 92; 10; 1; 127; 240; 159; 152; 128]))
    = Some (bs [97; 34; 92; 10; 1; 127; 240; 159; 152; 128]) /\
  needs_escape (bs [97; 127; 240; 159; 152; 128; 37; 32]) = false /\
  read_borrowed (serde_escape (bs [97; 127; 240; 159; 152; 128; 37; 32]))
    = Some (bs [97; 127; 240; 159; 152; 128; 37; 32]) /\
  utf8_valid (bs [237; 160; 128]) = false /\
  decode_string (bs [34; 92; 117; 100; 56; 51; 100; 92; 117; 100; 101; 48; 48; 34]) = Some (bs [240; 159; 152; 128]).
Proof. repeat split; vm_compute; reflexivity. Qed.

Example C10_nonvacuous_positions :
  (* a plain file name goes through cp and reads back *)
  cp_logical_path (b "d/x y.txt") (b "src.txt") = Ok (b "d/x y.txt") /\
  main_read_pos PLogicalPath (serde_escape (b "d/x y.txt")) = Some (b "d/x y.txt") /\
  (* a file name with quote, backslash, newline and a control character: cp accepts it, both readers read it back *)
  cp_logical_path (b "d/") (bs [97; 34; 92; 10; 1; 46; 116]) = Ok (bs [100; 47; 97; 34; 92; 10; 1; 46; 116]) /\
  main_read_pos PLogicalPath (serde_escape (bs [100; 47; 97; 34; 92; 10; 1; 46; 116])) = Some (bs [100; 47; 97; 34; 92; 10; 1; 46; 116]) /\
  val_read_pos PLogicalPath (serde_escape (bs [100; 47; 97; 34; 92; 10; 1; 46; 116])) = Some (bs [100; 47; 97; 34; 92; 10; 1; 46; 116]) /\
  main_read_pos_before_fix PLogicalPath (serde_escape (bs [100; 47; 97; 34; 92; 10; 1; 46; 116])) = None /\
  (* an object id with a quote: fine in the main reader and (since 2f36fc5) in the validator *)
  create_object_id (bs [97; 34; 98]) = Ok (bs [97; 34; 98]) /\
  main_read_pos PId (serde_escape (bs [97; 34; 98])) = Some (bs [97; 34; 98]) /\
  val_read_pos PId (serde_escape (bs [97; 34; 98])) = Some (bs [97; 34; 98]) /\
  val_read_pos_before_fix PId (serde_escape (bs [97; 34; 98])) = None /\
  (* head / version keys: what rocfl writes is read; the escaped spelling "v" backslash "u0031" (other software) is
     refused by the main reader only; the hypothesis of C10_escaped_version_name_refused_by_main_reader is satisfiable *)
  pos_value_ok PHead (b "v1") = true /\ pos_value_ok PVersionKey (b "v0012") = true /\
  main_read_pos PHead (serde_escape (b "v1")) = Some (b "v1") /\
  main_read_pos PVersionKey (serde_escape (b "v0012")) = Some (b "v0012") /\
  decode_string (bs [34; 118; 92; 117; 48; 48; 51; 49; 34]) = Some (b "v1") /\
  escaped_version_name_token PHead (bs [34; 118; 92; 117; 48; 48; 51; 49; 34]) = true /\
  main_read_pos PHead (bs [34; 118; 92; 117; 48; 48; 51; 49; 34]) = None /\
  val_read_pos PHead (bs [34; 118; 92; 117; 48; 48; 51; 49; 34]) = Some (b "v1") /\
  (* an escaped spelling elsewhere (a logical path written a backslash u0041) is read by the main reader *)
  main_read_pos PLogicalPath (bs [34; 92; 117; 48; 48; 52; 49; 34]) = Some (b "A") /\
  main_read_pos PStateDigest (bs [34; 92; 117; 48; 48; 52; 49; 34]) = Some (b "A") /\
  (* ids with outer white space (blank, tab, newline, NBSP, U+3000) are stored as given; blank ids are refused *)
  create_object_id (b " ab ") = Ok (b " ab ") /\ create_object_id_before_fix (b " ab ") = Ok (b "ab") /\
  create_object_id (bs [9; 97; 10]) = Ok (bs [9; 97; 10]) /\
  create_object_id (bs [194; 160; 97; 227; 128; 128]) = Ok (bs [194; 160; 97; 227; 128; 128]) /\
  main_read_pos PId (serde_escape (bs [9; 97; 10])) = Some (bs [9; 97; 10]) /\
  create_object_id [] = Err /\ create_object_id (b "   ") = Err /\ create_object_id (bs [9; 10; 11; 12; 13; 32]) = Err /\
  create_object_id (bs [194; 160]) = Err /\ create_object_id (bs [226; 128; 168; 227; 128; 128; 194; 133]) = Err /\
  (* U+200B ZERO WIDTH SPACE and 0x1F are not White_Space *)
  create_object_id (bs [226; 128; 139]) = Ok (bs [226; 128; 139]) /\ create_object_id (bs [31]) = Ok (bs [31]) /\
  (* content paths *)
  main_read_pos PContentPath (serde_escape (content_path (mkV 1 0) (b "content") (b "d/f.txt")))
    = Some (b "v1/content/d/f.txt") /\
  vwf (mkV 1 0) = true /\ vfits (mkV 1 0) = true /\ validate_content_dir (b "content") = true /\
  validate_content_dir (b "inventory.json") = true /\ validate_content_dir (b "a/b") = false /\
  (* create_object's content directory: accepted names, and the refused ones with their neighbours *)
  create_object_cdir (b "content") = true /\ create_object_cdir (bs [97; 34; 92; 98]) = true /\
  create_object_cdir (b "inventory.jso") = true /\ create_object_cdir (b "inventory.jsonx") = true /\
  create_object_cdir (b "Inventory.json") = true /\ create_object_cdir (b " inventory.json") = true /\
  create_object_cdir [] = false /\ create_object_cdir (b "inventory.json") = false /\
  create_object_cdir (b "inventory.json.") = false /\ create_object_cdir (b "inventory.json.sha512") = false /\
  create_object_cdir (b "inventory.json.md5") = false /\ create_object_cdir (b "inventory.json.x y") = false /\
  create_object_cdir (b ".") = false /\ create_object_cdir (b "..") = false /\ create_object_cdir (b "a/b") = false /\
  (* NUL and the 255 / 256 byte boundary *)
  create_object_cdir (bs [97; 0; 98]) = false /\ create_object_cdir (bs [0]) = false /\
  create_object_cdir (replicate 255 "x"%char) = true /\ create_object_cdir (replicate 256 "x"%char) = false /\
  cdir_collides (b "inventory.json.sha512") (b "sha512") = true /\
  cdir_collides (b "inventory.json.sha512") (b "sha256") = false /\
  main_read_pos PContentDir (serde_escape (b "content")) = Some (b "content").
Proof. repeat split; vm_compute; reflexivity. Qed.
