(** C11 - objects are stored exactly where the declared layout extension prescribes.
    Layout.v is the code (src/ocfl/store/layout.rs) as written; LayoutSpec.v is the
    transcription of the five extension documents.  Property theorems only; each is
    closed by [exact] of a lemma from Proofs/Layout*.v.

    No theorem carries a known-finding hypothesis: the seven classes that used to be
    excluded were repaired in /repo (e1de1bb, 970818d, d1aca14, a91c61b, 91d5aeb, dec6d3f,
    8478633) and Model/KnownC11.v holds no classifier.

    Inputs that are external to rocfl are arguments constrained by boolean conditions:
    [inputs_ok c id dg]: id and delimiter are well-formed UTF-8 (Rust str), dg is a
    lower-case hex string of the algorithm's length, and - for 0006/0007 only - the case
    information that comes with delimiter and id ([ustr]: char::to_lowercase of every
    character, str::to_lowercase/to_uppercase of the string) obeys [unicode_ok], four
    facts about Unicode and the Rust standard library (Model/Layout.v); [raw_wf r]:
    well-formed strings in a config.json.  The check evaluates these conditions on
    every generated input and reports an input that fails one. *)
From Rocfl Require Import Base.Bytes Generated.Consts Model.Layout Model.LayoutSpec
  Proofs.LayoutFacts Proofs.LayoutMapFacts Proofs.LayoutPrefixFacts Proofs.LayoutCaseFacts Proofs.LayoutOmitFacts
  Proofs.LayoutCfgFacts Proofs.LayoutMain Proofs.LayoutWitness.
Open Scope N_scope.

(** ** the object root is the path the extension document prescribes *)

Theorem C11_0002 : forall c id dg, c_ext c = E0002 ->
  refusal (Layout.map c id dg) = LayoutSpec.map c id dg.
Proof. exact map_0002_correct. Qed.
Print Assumptions C11_0002.

(** (also for tupleSize = numberOfTuples = 0, a known finding until fix e1de1bb) *)
Theorem C11_0003 : forall c id dg, c_ext c = E0003 -> cfg_ok c = true -> digest_ok c dg = true ->
  ustr_wf id = true ->
  refusal (Layout.map c id dg) = LayoutSpec.map c id dg.
Proof. exact map_0003_correct. Qed.
Print Assumptions C11_0003.

Theorem C11_0004 : forall c id dg, c_ext c = E0004 -> cfg_ok c = true -> digest_ok c dg = true ->
  refusal (Layout.map c id dg) = LayoutSpec.map c id dg.
Proof. exact map_0004_correct. Qed.
Print Assumptions C11_0004.

(** (for every id, also where lower-casing changes the length of a character or depends
    on the position in a word: known finding c11-casefold-index until fix 91d5aeb) *)
Theorem C11_0006 : forall c id dg, c_ext c = E0006 -> cfg_ok c = true ->
  ustr_wf id = true -> ustr_wf (c_delim c) = true -> unicode_ok (c_delim c) id = true ->
  refusal (Layout.map c id dg) = LayoutSpec.map c id dg.
Proof. exact map_0006_correct. Qed.
Print Assumptions C11_0006.

(** the path of 0006 said without an algorithm ([occurs_at d s p k]: the k characters of
    the id from position p on have the lower-case form of the delimiter): the id itself
    when the delimiter does not occur; else what follows the RIGHT-MOST occurrence IN THE
    ORIGINAL ID, which is not empty; a panic only for an id that ends with that
    occurrence; never an error value *)
Theorem C11_0006_meaning : forall c id dg, c_ext c = E0006 -> cfg_ok c = true ->
  ustr_wf id = true -> ustr_wf (c_delim c) = true -> unicode_ok (c_delim c) id = true ->
  let d := us_chars (c_delim c) in let s := us_chars id in
  match Layout.map c id dg with
  | Ok r => (r = us_bytes id /\ forall p k, ~ occurs_at d s p k) \/
            (exists p k, occurs_at d s p k /\ r = text (skipn (p + k) s) /\ skipn (p + k) s <> [] /\
                         (forall p' k', occurs_at d s p' k' -> (p' <= p)%nat) /\
                         (forall k', occurs_at d s p k' -> (k <= k')%nat))
  | Panic => exists p k, occurs_at d s p k /\ (p + k)%nat = List.length s /\
                         (forall p' k', occurs_at d s p' k' -> (p' <= p)%nat)
  | Err => False
  end.
Proof. exact map_0006_meaning. Qed.
Print Assumptions C11_0006_meaning.

(** (also for ids with control characters, a known finding until fix 970818d) *)
Theorem C11_0007 : forall c id dg, c_ext c = E0007 -> cfg_ok c = true ->
  ustr_wf id = true -> ustr_wf (c_delim c) = true ->
  unicode_ok (c_delim c) id = true ->
  refusal (Layout.map c id dg) = LayoutSpec.map c id dg.
Proof. exact map_0007_correct. Qed.
Print Assumptions C11_0007.

(** all five at once: for every validated configuration and EVERY id the code returns
    the documented path, or refuses exactly the ids the documents cannot map *)
Theorem C11_map_is_spec : forall c id dg,
  cfg_ok c = true -> inputs_ok c id dg = true ->
  refusal (Layout.map c id dg) = LayoutSpec.map c id dg.
Proof. exact map_is_spec. Qed.
Print Assumptions C11_map_is_spec.

Theorem C11_unmappable_never_mapped : forall c id dg,
  cfg_ok c = true -> inputs_ok c id dg = true ->
  LayoutSpec.map c id dg = Err -> forall p, Layout.map c id dg <> Ok p.
Proof. exact unmappable_refused. Qed.
Print Assumptions C11_unmappable_never_mapped.

Theorem C11_mappable_mapped : forall c id dg p,
  cfg_ok c = true -> inputs_ok c id dg = true ->
  LayoutSpec.map c id dg = Ok p -> Layout.map c id dg = Ok p.
Proof. exact mappable_mapped. Qed.
Print Assumptions C11_mappable_mapped.

(** map_object_id has no error channel: an id is mapped or the call panics *)
Theorem C11_map_never_err : forall c id dg, Layout.map c id dg <> Err.
Proof. exact map_never_err. Qed.
Print Assumptions C11_map_never_err.

(** ** the helpers *)

(** lower_percent_escape lowers exactly the two bytes after each '%' that starts an
    escape and nothing else ([render]: literal bytes other than '%' and escapes %xy) *)
Theorem C11_lower_percent_escape : forall ts, forallb lit_ok ts = true ->
  lower_percent_escape (render ts) = render (List.map lower_tok ts).
Proof. exact lower_percent_escape_tokens. Qed.
Print Assumptions C11_lower_percent_escape.

(** on the encoder's output it yields the lower-case percent-encoding *)
Theorem C11_lower_percent_escape_encode : forall s,
  lower_percent_escape (percent_encode_upper s) = percent_encode_lower s.
Proof. exact lower_percent_escape_encode. Qed.
Print Assumptions C11_lower_percent_escape_encode.

Theorem C11_to_tuples : forall v size n, is_ascii v = true -> n * size <= blen v ->
  exists segs, to_tuples v size n = Ok (slashed segs) /\
    List.length segs = N.to_nat n /\
    Forall (fun t => List.length t = N.to_nat size) segs /\
    List.concat segs = firstn (N.to_nat (n * size)) v.
Proof. exact to_tuples_spec. Qed.
Print Assumptions C11_to_tuples.

Theorem C11_to_tuples_short_value_panics : forall v size n,
  0 < size -> blen v < n * size -> to_tuples v size n = Panic.
Proof. exact to_tuples_too_short. Qed.
Print Assumptions C11_to_tuples_short_value_panics.

(** 0003: truncation of the encapsulation directory at 100 characters *)
Theorem C11_0003_truncation : forall id dg,
  let enc := flat_map encode_char id in
  ((List.length enc <= 100)%nat -> encapsulation id dg = enc) /\
  ((100 < List.length enc)%nat ->
     encapsulation id dg = firstn 100 enc ++ "-"%char :: dg /\
     List.length (encapsulation id dg) = (101 + List.length dg)%nat).
Proof. exact truncation_0003. Qed.
Print Assumptions C11_0003_truncation.

Theorem C11_0003_code_truncates : forall id dg, ustr_wf id = true -> is_ascii dg = true ->
  let lower := lower_percent_escape (percent_encode_upper (us_bytes id)) in
  (if blen lower <=? K_MAX_0003_ENCAPSULATION_LENGTH then Ok lower
   else res_bind (str_to lower K_MAX_0003_ENCAPSULATION_LENGTH) (fun head => Ok (head ++ "-"%char :: dg)))
  = Ok (encapsulation (us_chars id) dg).
Proof. exact encapsulation_code. Qed.
Print Assumptions C11_0003_code_truncates.

(** ** the prefix removal of 0006/0007 *)

(** 0006 with a delimiter that has case: rfind_ignore_case (layout.rs:798-812, fix 91d5aeb)
    is the documents' right-most occurrence ignoring case for EVERY id and delimiter, with
    no condition on the case information except a non-empty lower-case form of the
    delimiter *)
Theorem C11_strip_prefix_0006_cased : forall d id,
  ustr_wf id = true -> case_matters d = true -> lower_text (us_chars d) <> [] ->
  refusal (strip_prefix_0006 d id) = omitted d id.
Proof. exact strip_prefix_0006_cased. Qed.
Print Assumptions C11_strip_prefix_0006_cased.

Theorem C11_strip_prefix_0006 : forall d id,
  ustr_wf d = true -> ustr_wf id = true -> us_chars d <> [] -> unicode_ok d id = true ->
  refusal (strip_prefix_0006 d id) = omitted d id.
Proof. exact strip_prefix_0006_correct. Qed.
Print Assumptions C11_strip_prefix_0006.

(** 0007 (ids of the documented range 0x20-0x7F): the byte index found in the lower-cased
    id is the character position in the id *)
Theorem C11_strip_prefix_0007 : forall d id,
  ustr_wf d = true -> ustr_wf id = true -> us_chars d <> [] -> unicode_ok d id = true ->
  forallb in_range (us_chars id) = true ->
  refusal (strip_prefix d id) = omitted d id.
Proof. exact strip_prefix_correct. Qed.
Print Assumptions C11_strip_prefix_0007.

(** what the documents' prefix removal (LayoutSpec.omit_prefix) means, without an algorithm *)
Theorem C11_omit_prefix_meaning : forall d s,
  match omit_prefix d s with
  | Ok r => (r = s /\ forall p k, ~ occurs_at d s p k) \/
            (exists p k, occurs_at d s p k /\ r = skipn (p + k) s /\ r <> [] /\
                         (forall p' k', occurs_at d s p' k' -> (p' <= p)%nat) /\
                         (forall k', occurs_at d s p k' -> (k <= k')%nat))
  | Err => exists p k, occurs_at d s p k /\ (p + k)%nat = List.length s /\
                       (forall p' k', occurs_at d s p' k' -> (p' <= p)%nat) /\
                       (forall k', occurs_at d s p k' -> (k <= k')%nat)
  | Panic => False
  end.
Proof. exact omit_prefix_meaning. Qed.
Print Assumptions C11_omit_prefix_meaning.

(** the documents say "case-insensitive" and no more.  LayoutSpec.v reads: same lower-case
    form.  The narrower reading, character against character, gives the same remainder
    whenever every lower-case form is one character (in Unicode all but U+0130) *)
Theorem C11_case_readings_agree : forall d s, d <> [] ->
  Forall (fun u => wf_char (u_low u) = true) d -> Forall (fun u => wf_char (u_low u) = true) s ->
  after_last (lower_text d) s = after_last_simple d s.
Proof. exact readings_agree. Qed.
Print Assumptions C11_case_readings_agree.

(** ** configurations: StorageLayout::new accepts exactly what the documents allow
    (extension name, tupleSize/numberOfTuples both zero or both non-zero, product <=
    digest length, bounds, non-empty delimiter, shortObjectRoot constraint, parameter
    types and defaults) and reads the documented parameter values, for every form of
    config.json: object, array (refused, fix 8478633), none (the defaults, for 0007 since
    fix dec6d3f), not JSON.  [cfg_determined] is no finding: the documents do not say
    whether the key extensionName may be left out, rocfl wants it for 0006/0007 *)
Theorem C11_config : forall dbg e r,
  raw_wf r = true -> cfg_determined e r = true ->
  new_agrees (new dbg e r) (LayoutSpec.parse e r).
Proof. exact new_correct. Qed.
Print Assumptions C11_config.

Theorem C11_config_accepts_iff_allowed : forall dbg e r,
  raw_wf r = true -> cfg_determined e r = true ->
  (exists c, new dbg e r = Ok c) <-> LayoutSpec.allowed e r = true.
Proof. exact new_accepts_iff_allowed. Qed.
Print Assumptions C11_config_accepts_iff_allowed.

(** for EVERY configuration, with no side condition: new
    never panics, debug and release arithmetic agree (the product of two numbers <= 32
    cannot overflow), and an accepted 0003/0004 configuration obeys the documents' rules
    on the numbers *)
Theorem C11_config_total : forall dbg e r, new dbg e r <> Panic.
Proof. exact new_total. Qed.
Print Assumptions C11_config_total.

Theorem C11_config_release_is_debug : forall e r, new false e r = new true e r.
Proof. exact new_dbg_irrelevant. Qed.
Print Assumptions C11_config_release_is_debug.

Theorem C11_config_hashed_rules : forall dbg e r c, e = E0003 \/ e = E0004 -> new dbg e r = Ok c ->
  c_ts c <= 32 /\ c_nt c <= 32 /\
  tuple_rules (c_alg c) (c_ts c) (c_nt c) (match e with E0004 => c_short c | _ => false end) = true.
Proof. exact accepted_hashed_rules. Qed.
Print Assumptions C11_config_hashed_rules.

(** an accepted configuration satisfies the hypothesis of the mapping theorems *)
Theorem C11_accepted_config_is_ok : forall e r c, new true e r = Ok c -> cfg_ok c = true /\ c_ext c = e.
Proof. exact new_ok_cfg_ok. Qed.
Print Assumptions C11_accepted_config_is_ok.

(** ** the three classes repaired last (regression examples): the former witnesses of
    c11-casefold-index, c11-cfg-0007-defaults, c11-cfg-array are agreements *)
Example C11_fixed_casefold :
  both (cfg6 (au (b "edu/"))) kelvin_id [] = (Ok (b "x"), Ok (b "x")) /\
  both (cfg6 sigma_delim) sigma_id [] = (Ok (b "x"), Ok (b "x")) /\
  both (cfg6 sharp_delim) sharp_id [] = (Ok (b "b"), Ok (b "b")) /\
  both (cfg6 (au (b "edu/"))) idot_id [] = (Ok (b "xyz"), Ok (b "xyz")) /\
  side (cfg6 (au (b "edu/"))) kelvin_id sha256_object_01 = (true, true) /\
  side (cfg6 sigma_delim) sigma_id sha256_object_01 = (true, true) /\
  side (cfg6 sharp_delim) sharp_id sha256_object_01 = (true, true) /\
  side (cfg6 (au (b "edu/"))) idot_id sha256_object_01 = (true, true).
Proof. exact fixed_casefold. Qed.

(** where the two readings of "case-insensitive" part (delimiter U+0130, id "x" "i" U+0307 "y") *)
Example C11_case_readings_part :
  both (cfg6 idot_delim) i_dot_id [] = (Ok (b "y"), Ok (b "y")) /\
  side (cfg6 idot_delim) i_dot_id sha256_object_01 = (true, true) /\
  after_last_simple (us_chars idot_delim) (us_chars i_dot_id) = None.
Proof. exact readings_part_at_idot. Qed.

(** historical note: layout 0006 BEFORE fix 91d5aeb (a separate definition, not the model) *)
Example C11_history_casefold_before_fix :
  map_0006_before_fix (cfg6 (au (b "edu/"))) kelvin_id = Ok (b "u/x") /\
  map_0006_before_fix (cfg6 sigma_delim) sigma_id = Ok (bs [97; 206; 163; 47; 120]) /\
  map_0006_before_fix (cfg6 sharp_delim) sharp_id = Panic /\
  LayoutSpec.map (cfg6 (au (b "edu/"))) kelvin_id [] = Ok (b "x") /\
  LayoutSpec.map (cfg6 sigma_delim) sigma_id [] = Ok (b "x") /\
  LayoutSpec.map (cfg6 sharp_delim) sharp_id [] = Ok (b "b").
Proof. exact history_casefold_before_fix. Qed.

Example C11_fixed_cfg_0007_defaults :
  new_params_agree (new true E0007 RawNone) (parse E0007 RawNone) = true /\
  allowed E0007 RawNone = true /\
  new_params_agree (new true E0007 (obj (JStr (au (ext_name E0007))) JAbsent JAbsent JAbsent JAbsent JAbsent JAbsent JAbsent))
                   (parse E0007 (obj (JStr (au (ext_name E0007))) JAbsent JAbsent JAbsent JAbsent JAbsent JAbsent JAbsent)) = true /\
  allowed E0007 (obj (JStr (au (ext_name E0007))) JAbsent JAbsent JAbsent JAbsent JAbsent JAbsent JAbsent) = true /\
  path_under (new true E0007 RawNone) (au (b "ns:12")) = Ok (b "000/000/012/12") /\
  path_under (new true E0007 (obj (JStr (au (ext_name E0007))) JAbsent (JNum 2) JAbsent JAbsent JAbsent JAbsent JAbsent)) (au (b "urn:uuid:12345")) =
    Ok (b "01/23/45/12345") /\
  new true E0006 RawNone = Err /\ allowed E0006 RawNone = false /\
  new true E0006 (obj (JStr (au (ext_name E0006))) JAbsent JAbsent JAbsent JAbsent JAbsent JAbsent JAbsent) = Err /\
  allowed E0006 (obj (JStr (au (ext_name E0006))) JAbsent JAbsent JAbsent JAbsent JAbsent JAbsent JAbsent) = false.
Proof. exact fixed_cfg_0007_defaults. Qed.

Example C11_fixed_cfg_array :
  new true E0004 (RawSeq [JStr (au (ext_name E0004)); JStr (au (b "md5")); JNum 2; JNum 2]) = Err /\
  allowed E0004 (RawSeq [JStr (au (ext_name E0004)); JStr (au (b "md5")); JNum 2; JNum 2]) = false /\
  new true E0002 (RawSeq [JStr (au (ext_name E0002))]) = Err /\
  new true E0003 (RawSeq [JStr (au (ext_name E0003)); JStr (au (b "md5")); JNum 2; JNum 2]) = Err /\
  new true E0006 (RawSeq [JStr (au (ext_name E0006)); JStr (au (b ":"))]) = Err /\
  new true E0007 (RawSeq [JStr (au (ext_name E0007)); JStr (au (b ":")); JNum 2; JNum 2]) = Err /\
  new true E0007 (RawSeq []) = Err /\
  is_accepted (new true E0004 (obj (JStr (au (ext_name E0004))) (JStr (au (b "md5"))) (JNum 2) (JNum 2) JAbsent JAbsent JAbsent JAbsent)) = true.
Proof. exact fixed_cfg_array. Qed.

(** ** the four classes repaired earlier (regression examples): code model and documents
    agree on the former witnesses, and the neighbouring allowed inputs are still accepted *)
Example C11_fixed_0003_zero_tuples :
  both (cfg3 Sha256 0 0) (au (b "object-01")) sha256_object_01 = (Ok (b "object-01"), Ok (b "object-01")) /\
  both (cfg3 Sha256 0 0) horrible sha256_horrible =
    (Ok (b "%2e%2ehor%2frib%3ale-%24id"), Ok (b "%2e%2ehor%2frib%3ale-%24id")) /\
  both (cfg3 Sha256 0 0) long101 sha256_long101 =
    (Ok (b "abcdefghijabcdefghijabcdefghijabcdefghijabcdefghijabcdefghijabcdefghijabcdefghijabcdefghijabcdefghij-5cc73e648fbcff136510e330871180922ddacf193b68fdeff855683a01464220"),
     Ok (b "abcdefghijabcdefghijabcdefghijabcdefghijabcdefghijabcdefghijabcdefghijabcdefghijabcdefghijabcdefghij-5cc73e648fbcff136510e330871180922ddacf193b68fdeff855683a01464220")) /\
  side (cfg3 Sha256 0 0) (au (b "object-01")) sha256_object_01 = (true, true).
Proof. exact fixed_0003_zero_tuples. Qed.

Example C11_fixed_0007_control_chars :
  both (cfg7 (au (b ":")) 3 3 true false) ctrl_id [] = (Panic, Err) /\
  both (cfg7 (au (b ":")) 3 3 true false) (au (bs [31])) [] = (Panic, Err) /\
  both (cfg7 (au (b ":")) 3 3 true false) (au (bs [0; 58; 97])) [] = (Panic, Err) /\
  both (cfg7 (au (b ":")) 2 2 true false) edge_id [] =
    (Ok (bs [48; 48; 47; 32; 127; 47; 32; 127]), Ok (bs [48; 48; 47; 32; 127; 47; 32; 127])) /\
  side (cfg7 (au (b ":")) 3 3 true false) ctrl_id sha256_object_01 = (true, true).
Proof. exact fixed_0007_ctrl. Qed.

Example C11_fixed_cfg_bounds :
  new true E0004 (obj JAbsent JAbsent (JNum 33) (JNum 1) JAbsent JAbsent JAbsent JAbsent) = Err /\
  allowed E0004 (obj JAbsent JAbsent (JNum 33) (JNum 1) JAbsent JAbsent JAbsent JAbsent) = false /\
  new true E0003 (obj JAbsent JAbsent (JNum 1) (JNum 64) JAbsent JAbsent JAbsent JAbsent) = Err /\
  allowed E0003 (obj JAbsent JAbsent (JNum 1) (JNum 64) JAbsent JAbsent JAbsent JAbsent) = false /\
  new true E0004 (obj JAbsent JAbsent (JNum 4294967296) (JNum 4294967296) JAbsent JAbsent JAbsent JAbsent) = Err /\
  new false E0004 (obj JAbsent JAbsent (JNum 4294967296) (JNum 4294967296) JAbsent JAbsent JAbsent JAbsent) = Err /\
  new true E0003 (obj JAbsent JAbsent (JNum usize_max) (JNum usize_max) JAbsent JAbsent JAbsent JAbsent) = Err /\
  new false E0003 (obj JAbsent JAbsent (JNum 0) (JNum usize_max) JAbsent JAbsent JAbsent JAbsent) = Err /\
  is_accepted (new true E0004 (obj JAbsent (JStr (au (b "sha512"))) (JNum 32) (JNum 4) JAbsent JAbsent JAbsent JAbsent)) = true /\
  allowed E0004 (obj JAbsent (JStr (au (b "sha512"))) (JNum 32) (JNum 4) JAbsent JAbsent JAbsent JAbsent) = true /\
  is_accepted (new true E0003 (obj JAbsent (JStr (au (b "md5"))) (JNum 1) (JNum 32) JAbsent JAbsent JAbsent JAbsent)) = true.
Proof. exact fixed_cfg_bounds. Qed.

Example C11_fixed_cfg_short_root :
  new true E0004 (obj JAbsent JAbsent (JNum 4) (JNum 16) (JBool true) JAbsent JAbsent JAbsent) = Err /\
  allowed E0004 (obj JAbsent JAbsent (JNum 4) (JNum 16) (JBool true) JAbsent JAbsent JAbsent) = false /\
  is_accepted (new true E0004 (obj JAbsent JAbsent (JNum 4) (JNum 16) (JBool false) JAbsent JAbsent JAbsent)) = true /\
  allowed E0004 (obj JAbsent JAbsent (JNum 4) (JNum 16) (JBool false) JAbsent JAbsent JAbsent) = true /\
  is_accepted (new true E0004 (obj JAbsent JAbsent (JNum 7) (JNum 9) (JBool true) JAbsent JAbsent JAbsent)) = true /\
  allowed E0004 (obj JAbsent JAbsent (JNum 7) (JNum 9) (JBool true) JAbsent JAbsent JAbsent) = true /\
  both (cfg4 Sha256 7 9 true) (au (b "object-01")) sha256_object_01 =
    (Ok (b "3c0ff42/40c1e11/6dba14c/7627f23/19b58aa/3d77606/d0d90df/c616160/8ac987d/4"),
     Ok (b "3c0ff42/40c1e11/6dba14c/7627f23/19b58aa/3d77606/d0d90df/c616160/8ac987d/4")) /\
  new true E0004 (obj (JStr (au (ext_name E0004))) (JStr (au (b "md5"))) (JNum 2) (JNum 16) (JBool true) JAbsent JAbsent JAbsent) = Err.
Proof. exact fixed_cfg_short_root. Qed.

(** ** non-vacuity: the hypotheses are met by the documents' own examples, on which the
    code model and the transcription both give the documented path *)
Example C11_nonvacuous_0002 :
  both cfg2 (au (b "object-01")) sha256_object_01 = (Ok (b "object-01"), Ok (b "object-01")).
Proof. exact doc_0002. Qed.

Example C11_nonvacuous_0003 :
  both (cfg3 Sha256 3 3) horrible sha256_horrible =
    (Ok (b "487/326/d8c/%2e%2ehor%2frib%3ale-%24id"), Ok (b "487/326/d8c/%2e%2ehor%2frib%3ale-%24id")) /\
  side (cfg3 Sha256 3 3) horrible sha256_horrible = (true, true).
Proof. exact doc_0003_ex1. Qed.

Example C11_nonvacuous_0003_truncated :
  both (cfg3 Sha256 3 3) long101 sha256_long101 =
    (Ok (b "5cc/73e/648/abcdefghijabcdefghijabcdefghijabcdefghijabcdefghijabcdefghijabcdefghijabcdefghijabcdefghijabcdefghij-5cc73e648fbcff136510e330871180922ddacf193b68fdeff855683a01464220"),
     Ok (b "5cc/73e/648/abcdefghijabcdefghijabcdefghijabcdefghijabcdefghijabcdefghijabcdefghijabcdefghijabcdefghijabcdefghij-5cc73e648fbcff136510e330871180922ddacf193b68fdeff855683a01464220")).
Proof. exact doc_0003_long. Qed.

Example C11_nonvacuous_0004 :
  both (cfg4 Md5 2 15 true) horrible md5_horrible =
    (Ok (b "08/31/97/66/fb/6c/29/35/dd/17/5b/94/26/77/17/e0"), Ok (b "08/31/97/66/fb/6c/29/35/dd/17/5b/94/26/77/17/e0")) /\
  side (cfg4 Md5 2 15 true) horrible md5_horrible = (true, true).
Proof. exact doc_0004_ex2. Qed.

Example C11_nonvacuous_0006 :
  both (cfg6 (au (b "edu/"))) (au (b "https://institution.edu/abc/edu/f8.05v")) [] = (Ok (b "f8.05v"), Ok (b "f8.05v")) /\
  both (cfg6 (au (b ":"))) (au (b "urn:uuid:6e8bc430-9c3a-11d9-9669-0800200c9a66")) [] =
    (Ok (b "6e8bc430-9c3a-11d9-9669-0800200c9a66"), Ok (b "6e8bc430-9c3a-11d9-9669-0800200c9a66")) /\
  both (cfg6 (au (b "info:"))) (au (b "https://example.org/info:/12345/x54xz321/s3/f8.05v")) [] =
    (Ok (b "/12345/x54xz321/s3/f8.05v"), Ok (b "/12345/x54xz321/s3/f8.05v")) /\
  both (cfg6 (au (b "edu/"))) (au (b "https://institution.EDU/3448793")) [] = (Ok (b "3448793"), Ok (b "3448793")) /\
  both (cfg6 (au (b ":"))) (au (b "urn:uuid:")) [] = (Panic, Err) /\
  side (cfg6 (au (b "edu/"))) (au (b "https://institution.EDU/3448793")) sha256_object_01 = (true, true).
Proof. exact doc_0006. Qed.

Example C11_nonvacuous_0007 :
  both (cfg7 (au (b ":")) 4 2 true true) (au (b "namespace:12887296")) [] = (Ok (b "6927/8821/12887296"), Ok (b "6927/8821/12887296")) /\
  both (cfg7 (au (b ":")) 4 2 true true) (au (b "urn:uuid:6e8bc430-9c3a-11d9-9669-0800200c9a66")) [] =
    (Ok (b "66a9/c002/6e8bc430-9c3a-11d9-9669-0800200c9a66"), Ok (b "66a9/c002/6e8bc430-9c3a-11d9-9669-0800200c9a66")) /\
  both (cfg7 (au (b ":")) 4 2 true true) (au (b "abc123")) [] = (Ok (b "321c/ba00/abc123"), Ok (b "321c/ba00/abc123")) /\
  both (cfg7 (au (b "edu/")) 3 3 false false) (au (b "https://institution.edu/3448793")) [] = (Ok (b "344/879/300/3448793"), Ok (b "344/879/300/3448793")) /\
  both (cfg7 (au (b "edu/")) 3 3 false false) (au (b "https://institution.edu/abc/edu/f8.05v")) [] = (Ok (b "f8./05v/000/f8.05v"), Ok (b "f8./05v/000/f8.05v")) /\
  both (cfg7 (au (b ":")) 3 3 true false) (au (b "urn:")) [] = (Panic, Err) /\
  both (cfg7 (au (b ":")) 3 3 true false) (mkS [mkU (bs [195; 169]) (bs [195; 169])] (bs [195; 169]) (bs [195; 137])) [] = (Panic, Err) /\
  side (cfg7 (au (b "edu/")) 3 3 false false) (au (b "https://institution.edu/abc/edu/f8.05v")) sha256_object_01 = (true, true).
Proof. exact doc_0007. Qed.

Example C11_nonvacuous_config :
  is_accepted (new true E0004 (obj (JStr (au (ext_name E0004))) (JStr (au (b "md5"))) (JNum 2) (JNum 15) (JBool true) JAbsent JAbsent JAbsent)) = true /\
  allowed E0004 (obj (JStr (au (ext_name E0004))) (JStr (au (b "md5"))) (JNum 2) (JNum 15) (JBool true) JAbsent JAbsent JAbsent) = true /\
  new true E0004 (obj (JStr (au (ext_name E0004))) (JStr (au (b "md5"))) (JNum 2) (JNum 17) JAbsent JAbsent JAbsent JAbsent) = Err /\
  allowed E0004 (obj (JStr (au (ext_name E0004))) (JStr (au (b "md5"))) (JNum 2) (JNum 17) JAbsent JAbsent JAbsent JAbsent) = false /\
  new true E0003 (obj JAbsent JAbsent (JNum 3) (JNum 0) JAbsent JAbsent JAbsent JAbsent) = Err /\
  new true E0006 (obj (JStr (au (ext_name E0006))) JAbsent JAbsent JAbsent JAbsent (JStr (au [])) JAbsent JAbsent) = Err /\
  is_accepted (new true E0007 (obj (JStr (au (ext_name E0007))) JAbsent (JNum 32) (JNum 32) JAbsent (JStr (au (b "edu/"))) (JStr (au (b "right"))) (JBool true))) = true /\
  new true E0007 (obj (JStr (au (ext_name E0007))) JAbsent (JNum 33) (JNum 1) JAbsent (JStr (au (b ":"))) JAbsent JAbsent) = Err /\
  new true E0007 (obj (JStr (au (ext_name E0007))) JAbsent (JNum 0) (JNum 1) JAbsent (JStr (au (b ":"))) JAbsent JAbsent) = Err.
Proof. exact cfg_examples. Qed.
