(** C11 - objects are stored exactly where the declared layout extension prescribes.
    Layout.v is the code (src/ocfl/store/layout.rs) as written; LayoutSpec.v is the
    transcription of the five extension documents.  Property theorems only; each is
    closed by [exact] of a lemma from Proofs/Layout*.v.

    Inputs that are external to rocfl are arguments constrained by boolean conditions:
    [inputs_ok c id dg]: id and delimiter are well-formed UTF-8 (Rust str), dg is a
    lower-case hex string of the algorithm's length; [raw_wf r]: the same for the
    strings of a config.json.  Unicode case mapping is part of [ustr]. *)
From Rocfl Require Import Base.Bytes Generated.Consts Model.Layout Model.LayoutSpec Model.KnownC11
  Proofs.LayoutFacts Proofs.LayoutMapFacts Proofs.LayoutPrefixFacts Proofs.LayoutOmitFacts
  Proofs.LayoutCfgFacts Proofs.LayoutMain Proofs.LayoutWitness.
Open Scope N_scope.

(** ** the object root is the path the extension document prescribes *)

Theorem C11_0002 : forall c id dg, c_ext c = E0002 ->
  refusal (Layout.map c id dg) = LayoutSpec.map c id dg.
Proof. exact map_0002_correct. Qed.
Print Assumptions C11_0002.

(** (also for tupleSize = numberOfTuples = 0, a known finding until fix e1de1bb) *)
Theorem C11_0003 : forall c id dg, c_ext c = E0003 -> cfg_ok c = true -> digest_ok c dg = true ->
  ustr_wf id = true ->
  refusal (Layout.map c id dg) = LayoutSpec.map c id dg.
Proof. exact map_0003_correct. Qed.
Print Assumptions C11_0003.

Theorem C11_0004 : forall c id dg, c_ext c = E0004 -> cfg_ok c = true -> digest_ok c dg = true ->
  refusal (Layout.map c id dg) = LayoutSpec.map c id dg.
Proof. exact map_0004_correct. Qed.
Print Assumptions C11_0004.

Theorem C11_0006 : forall c id dg, c_ext c = E0006 -> cfg_ok c = true ->
  ustr_wf id = true -> ustr_wf (c_delim c) = true -> c11_casefold c id = false ->
  refusal (Layout.map c id dg) = LayoutSpec.map c id dg.
Proof. exact map_0006_correct. Qed.
Print Assumptions C11_0006.

(** (also for ids with control characters, a known finding until fix 970818d) *)
Theorem C11_0007 : forall c id dg, c_ext c = E0007 -> cfg_ok c = true ->
  ustr_wf id = true -> ustr_wf (c_delim c) = true ->
  c11_casefold c id = false ->
  refusal (Layout.map c id dg) = LayoutSpec.map c id dg.
Proof. exact map_0007_correct. Qed.
Print Assumptions C11_0007.

(** all five at once: for every validated configuration and every id outside the known
    class (known_c11 = c11_casefold: 0006/0007 with a case mapping that changes UTF-8
    lengths) the code returns the documented path, or refuses exactly the ids the
    documents cannot map *)
Theorem C11_map_is_spec : forall c id dg,
  cfg_ok c = true -> inputs_ok c id dg = true -> known_c11 c id = false ->
  refusal (Layout.map c id dg) = LayoutSpec.map c id dg.
Proof. exact map_correct. Qed.
Print Assumptions C11_map_is_spec.

Theorem C11_unmappable_never_mapped : forall c id dg,
  cfg_ok c = true -> inputs_ok c id dg = true -> known_c11 c id = false ->
  LayoutSpec.map c id dg = Err -> forall p, Layout.map c id dg <> Ok p.
Proof. exact unmappable_refused. Qed.
Print Assumptions C11_unmappable_never_mapped.

Theorem C11_mappable_mapped : forall c id dg p,
  cfg_ok c = true -> inputs_ok c id dg = true -> known_c11 c id = false ->
  LayoutSpec.map c id dg = Ok p -> Layout.map c id dg = Ok p.
Proof. exact mappable_mapped. Qed.
Print Assumptions C11_mappable_mapped.

(** ** the helpers *)

(** lower_percent_escape lowers exactly the two bytes after each '%' that starts an
    escape and nothing else ([render]: literal bytes other than '%' and escapes %xy) *)
Theorem C11_lower_percent_escape : forall ts, forallb lit_ok ts = true ->
  lower_percent_escape (render ts) = render (List.map lower_tok ts).
Proof. exact lower_percent_escape_tokens. Qed.
Print Assumptions C11_lower_percent_escape.

(** on the encoder's output it yields the lower-case percent-encoding *)
Theorem C11_lower_percent_escape_encode : forall s,
  lower_percent_escape (percent_encode_upper s) = percent_encode_lower s.
Proof. exact lower_percent_escape_encode. Qed.
Print Assumptions C11_lower_percent_escape_encode.

Theorem C11_to_tuples : forall v size n, is_ascii v = true -> n * size <= blen v ->
  exists segs, to_tuples v size n = Ok (slashed segs) /\
    List.length segs = N.to_nat n /\
    Forall (fun t => List.length t = N.to_nat size) segs /\
    List.concat segs = firstn (N.to_nat (n * size)) v.
Proof. exact to_tuples_spec. Qed.
Print Assumptions C11_to_tuples.

Theorem C11_to_tuples_short_value_panics : forall v size n,
  0 < size -> blen v < n * size -> to_tuples v size n = Panic.
Proof. exact to_tuples_too_short. Qed.
Print Assumptions C11_to_tuples_short_value_panics.

(** 0003: truncation of the encapsulation directory at 100 characters *)
Theorem C11_0003_truncation : forall id dg,
  let enc := flat_map encode_char id in
  ((List.length enc <= 100)%nat -> encapsulation id dg = enc) /\
  ((100 < List.length enc)%nat ->
     encapsulation id dg = firstn 100 enc ++ "-"%char :: dg /\
     List.length (encapsulation id dg) = (101 + List.length dg)%nat).
Proof. exact truncation_0003. Qed.
Print Assumptions C11_0003_truncation.

Theorem C11_0003_code_truncates : forall id dg, ustr_wf id = true -> is_ascii dg = true ->
  let lower := lower_percent_escape (percent_encode_upper (us_bytes id)) in
  (if blen lower <=? K_MAX_0003_ENCAPSULATION_LENGTH then Ok lower
   else res_bind (str_to lower K_MAX_0003_ENCAPSULATION_LENGTH) (fun head => Ok (head ++ "-"%char :: dg)))
  = Ok (encapsulation (us_chars id) dg).
Proof. exact encapsulation_code. Qed.
Print Assumptions C11_0003_code_truncates.

(** the prefix removal of 0006/0007: byte-index code = character-level document *)
Theorem C11_strip_prefix : forall d id,
  ustr_wf d = true -> ustr_wf id = true -> us_chars d <> [] -> case_regular d id = true ->
  refusal (strip_prefix d id) = omitted d id.
Proof. exact strip_prefix_correct. Qed.
Print Assumptions C11_strip_prefix.

(** ** configurations: StorageLayout::new accepts exactly what the documents allow
    (extension name, tupleSize/numberOfTuples both zero or both non-zero, product <=
    digest length, bounds, non-empty delimiter, shortObjectRoot constraint, parameter
    types and defaults) and reads the documented parameter values.  known_c11_cfg =
    0007 without delimiter / without config.json, or a JSON array; numbers above 32 and
    shortObjectRoot with a fully used digest are covered since fixes d1aca14, a91c61b *)
Theorem C11_config : forall dbg e r,
  raw_wf r = true -> cfg_determined e r = true -> known_c11_cfg e r = false ->
  new_agrees (new dbg e r) (LayoutSpec.parse e r).
Proof. exact new_correct. Qed.
Print Assumptions C11_config.

Theorem C11_config_accepts_iff_allowed : forall dbg e r,
  raw_wf r = true -> cfg_determined e r = true -> known_c11_cfg e r = false ->
  (exists c, new dbg e r = Ok c) <-> LayoutSpec.allowed e r = true.
Proof. exact new_accepts_iff_allowed. Qed.
Print Assumptions C11_config_accepts_iff_allowed.

Theorem C11_config_never_panics : forall dbg e r,
  raw_wf r = true -> cfg_determined e r = true -> known_c11_cfg e r = false -> new dbg e r <> Panic.
Proof. exact new_never_panics. Qed.
Print Assumptions C11_config_never_panics.

(** for EVERY form of the configuration (also the array form and no config.json): new
    never panics, debug and release arithmetic agree (the product of two numbers <= 32
    cannot overflow), and an accepted 0003/0004 configuration obeys the documents' rules
    on the numbers *)
Theorem C11_config_total : forall dbg e r, new dbg e r <> Panic.
Proof. exact new_total. Qed.
Print Assumptions C11_config_total.

Theorem C11_config_release_is_debug : forall e r, new false e r = new true e r.
Proof. exact new_dbg_irrelevant. Qed.
Print Assumptions C11_config_release_is_debug.

Theorem C11_config_hashed_rules : forall dbg e r c, e = E0003 \/ e = E0004 -> new dbg e r = Ok c ->
  c_ts c <= 32 /\ c_nt c <= 32 /\
  tuple_rules (c_alg c) (c_ts c) (c_nt c) (match e with E0004 => c_short c | _ => false end) = true.
Proof. exact accepted_hashed_rules. Qed.
Print Assumptions C11_config_hashed_rules.

(** an accepted configuration satisfies the hypothesis of the mapping theorems *)
Theorem C11_accepted_config_is_ok : forall e r c, new true e r = Ok c -> cfg_ok c = true /\ c_ext c = e.
Proof. exact new_ok_cfg_ok. Qed.
Print Assumptions C11_accepted_config_is_ok.

(** ** the excluded classes are genuine defects of the modelled code (known findings
    c11-casefold-index, c11-cfg-0007-defaults, c11-cfg-array) *)
Theorem C11_known_casefold_kelvin_refuted :
  both (cfg6 (au (b "edu/"))) kelvin_id [] = (Ok (b "u/x"), Ok (b "x")) /\
  c11_casefold (cfg6 (au (b "edu/"))) kelvin_id = true /\ ustr_wf kelvin_id = true.
Proof. exact casefold_kelvin. Qed.
Print Assumptions C11_known_casefold_kelvin_refuted.

Theorem C11_known_casefold_final_sigma_refuted :
  both (cfg6 sigma_delim) sigma_id [] = (Ok (bs [97; 206; 163; 47; 120]), Ok (b "x")) /\
  c11_casefold (cfg6 sigma_delim) sigma_id = true /\ ustr_wf sigma_id = true /\ ustr_wf sigma_delim = true.
Proof. exact casefold_final_sigma. Qed.
Print Assumptions C11_known_casefold_final_sigma_refuted.

Theorem C11_known_casefold_sharp_s_panics :
  both (cfg6 sharp_delim) sharp_id [] = (Panic, Ok (b "b")) /\ c11_casefold (cfg6 sharp_delim) sharp_id = true.
Proof. exact casefold_sharp_s_panics. Qed.
Print Assumptions C11_known_casefold_sharp_s_panics.

Theorem C11_known_cfg_0007_defaults_refuted :
  new true E0007 RawNone = Err /\ allowed E0007 RawNone = true /\
  new true E0007 (obj (JStr (au (ext_name E0007))) JAbsent JAbsent JAbsent JAbsent JAbsent JAbsent JAbsent) = Err /\
  allowed E0007 (obj (JStr (au (ext_name E0007))) JAbsent JAbsent JAbsent JAbsent JAbsent JAbsent JAbsent) = true.
Proof. exact cfg_0007_defaults_refused. Qed.
Print Assumptions C11_known_cfg_0007_defaults_refuted.

Theorem C11_known_cfg_array_refuted :
  is_accepted (new true E0004 (RawSeq [JStr (au (ext_name E0004)); JStr (au (b "md5")); JNum 2; JNum 2])) = true /\
  allowed E0004 (RawSeq [JStr (au (ext_name E0004)); JStr (au (b "md5")); JNum 2; JNum 2]) = false.
Proof. exact cfg_array_accepted. Qed.
Print Assumptions C11_known_cfg_array_refuted.

(** ** the four repaired classes (regression examples): code model and documents agree on
    the former witnesses, and the neighbouring allowed inputs are still accepted *)
Example C11_fixed_0003_zero_tuples :
  both (cfg3 Sha256 0 0) (au (b "object-01")) sha256_object_01 = (Ok (b "object-01"), Ok (b "object-01")) /\
  both (cfg3 Sha256 0 0) horrible sha256_horrible =
    (Ok (b "%2e%2ehor%2frib%3ale-%24id"), Ok (b "%2e%2ehor%2frib%3ale-%24id")) /\
  both (cfg3 Sha256 0 0) long101 sha256_long101 =
    (Ok (b "abcdefghijabcdefghijabcdefghijabcdefghijabcdefghijabcdefghijabcdefghijabcdefghijabcdefghijabcdefghij-5cc73e648fbcff136510e330871180922ddacf193b68fdeff855683a01464220"),
     Ok (b "abcdefghijabcdefghijabcdefghijabcdefghijabcdefghijabcdefghijabcdefghijabcdefghijabcdefghijabcdefghij-5cc73e648fbcff136510e330871180922ddacf193b68fdeff855683a01464220")) /\
  side (cfg3 Sha256 0 0) (au (b "object-01")) sha256_object_01 = (true, true, false).
Proof. exact fixed_0003_zero_tuples. Qed.

Example C11_fixed_0007_control_chars :
  both (cfg7 (au (b ":")) 3 3 true false) ctrl_id [] = (Panic, Err) /\
  both (cfg7 (au (b ":")) 3 3 true false) (au (bs [31])) [] = (Panic, Err) /\
  both (cfg7 (au (b ":")) 3 3 true false) (au (bs [0; 58; 97])) [] = (Panic, Err) /\
  both (cfg7 (au (b ":")) 2 2 true false) edge_id [] =
    (Ok (bs [48; 48; 47; 32; 127; 47; 32; 127]), Ok (bs [48; 48; 47; 32; 127; 47; 32; 127])) /\
  side (cfg7 (au (b ":")) 3 3 true false) ctrl_id sha256_object_01 = (true, true, false).
Proof. exact fixed_0007_ctrl. Qed.

Example C11_fixed_cfg_bounds :
  new true E0004 (obj JAbsent JAbsent (JNum 33) (JNum 1) JAbsent JAbsent JAbsent JAbsent) = Err /\
  allowed E0004 (obj JAbsent JAbsent (JNum 33) (JNum 1) JAbsent JAbsent JAbsent JAbsent) = false /\
  new true E0003 (obj JAbsent JAbsent (JNum 1) (JNum 64) JAbsent JAbsent JAbsent JAbsent) = Err /\
  allowed E0003 (obj JAbsent JAbsent (JNum 1) (JNum 64) JAbsent JAbsent JAbsent JAbsent) = false /\
  new true E0004 (obj JAbsent JAbsent (JNum 4294967296) (JNum 4294967296) JAbsent JAbsent JAbsent JAbsent) = Err /\
  new false E0004 (obj JAbsent JAbsent (JNum 4294967296) (JNum 4294967296) JAbsent JAbsent JAbsent JAbsent) = Err /\
  new true E0003 (obj JAbsent JAbsent (JNum usize_max) (JNum usize_max) JAbsent JAbsent JAbsent JAbsent) = Err /\
  new false E0003 (obj JAbsent JAbsent (JNum 0) (JNum usize_max) JAbsent JAbsent JAbsent JAbsent) = Err /\
  is_accepted (new true E0004 (obj JAbsent (JStr (au (b "sha512"))) (JNum 32) (JNum 4) JAbsent JAbsent JAbsent JAbsent)) = true /\
  allowed E0004 (obj JAbsent (JStr (au (b "sha512"))) (JNum 32) (JNum 4) JAbsent JAbsent JAbsent JAbsent) = true /\
  is_accepted (new true E0003 (obj JAbsent (JStr (au (b "md5"))) (JNum 1) (JNum 32) JAbsent JAbsent JAbsent JAbsent)) = true.
Proof. exact fixed_cfg_bounds. Qed.

Example C11_fixed_cfg_short_root :
  new true E0004 (obj JAbsent JAbsent (JNum 4) (JNum 16) (JBool true) JAbsent JAbsent JAbsent) = Err /\
  allowed E0004 (obj JAbsent JAbsent (JNum 4) (JNum 16) (JBool true) JAbsent JAbsent JAbsent) = false /\
  is_accepted (new true E0004 (obj JAbsent JAbsent (JNum 4) (JNum 16) (JBool false) JAbsent JAbsent JAbsent)) = true /\
  allowed E0004 (obj JAbsent JAbsent (JNum 4) (JNum 16) (JBool false) JAbsent JAbsent JAbsent) = true /\
  is_accepted (new true E0004 (obj JAbsent JAbsent (JNum 7) (JNum 9) (JBool true) JAbsent JAbsent JAbsent)) = true /\
  allowed E0004 (obj JAbsent JAbsent (JNum 7) (JNum 9) (JBool true) JAbsent JAbsent JAbsent) = true /\
  both (cfg4 Sha256 7 9 true) (au (b "object-01")) sha256_object_01 =
    (Ok (b "3c0ff42/40c1e11/6dba14c/7627f23/19b58aa/3d77606/d0d90df/c616160/8ac987d/4"),
     Ok (b "3c0ff42/40c1e11/6dba14c/7627f23/19b58aa/3d77606/d0d90df/c616160/8ac987d/4")) /\
  new true E0004 (RawSeq [JStr (au (ext_name E0004)); JStr (au (b "md5")); JNum 2; JNum 16; JBool true]) = Err.
Proof. exact fixed_cfg_short_root. Qed.

(** ** non-vacuity: the hypotheses are met by the documents' own examples, on which the
    code model and the transcription both give the documented path *)
Example C11_nonvacuous_0002 :
  both cfg2 (au (b "object-01")) sha256_object_01 = (Ok (b "object-01"), Ok (b "object-01")).
Proof. exact doc_0002. Qed.

Example C11_nonvacuous_0003 :
  both (cfg3 Sha256 3 3) horrible sha256_horrible =
    (Ok (b "487/326/d8c/%2e%2ehor%2frib%3ale-%24id"), Ok (b "487/326/d8c/%2e%2ehor%2frib%3ale-%24id")) /\
  side (cfg3 Sha256 3 3) horrible sha256_horrible = (true, true, false).
Proof. exact doc_0003_ex1. Qed.

Example C11_nonvacuous_0003_truncated :
  both (cfg3 Sha256 3 3) long101 sha256_long101 =
    (Ok (b "5cc/73e/648/abcdefghijabcdefghijabcdefghijabcdefghijabcdefghijabcdefghijabcdefghijabcdefghijabcdefghijabcdefghij-5cc73e648fbcff136510e330871180922ddacf193b68fdeff855683a01464220"),
     Ok (b "5cc/73e/648/abcdefghijabcdefghijabcdefghijabcdefghijabcdefghijabcdefghijabcdefghijabcdefghijabcdefghijabcdefghij-5cc73e648fbcff136510e330871180922ddacf193b68fdeff855683a01464220")).
Proof. exact doc_0003_long. Qed.

Example C11_nonvacuous_0004 :
  both (cfg4 Md5 2 15 true) horrible md5_horrible =
    (Ok (b "08/31/97/66/fb/6c/29/35/dd/17/5b/94/26/77/17/e0"), Ok (b "08/31/97/66/fb/6c/29/35/dd/17/5b/94/26/77/17/e0")) /\
  side (cfg4 Md5 2 15 true) horrible md5_horrible = (true, true, false).
Proof. exact doc_0004_ex2. Qed.

Example C11_nonvacuous_0006 :
  both (cfg6 (au (b "edu/"))) (au (b "https://institution.edu/abc/edu/f8.05v")) [] = (Ok (b "f8.05v"), Ok (b "f8.05v")) /\
  both (cfg6 (au (b ":"))) (au (b "urn:uuid:6e8bc430-9c3a-11d9-9669-0800200c9a66")) [] =
    (Ok (b "6e8bc430-9c3a-11d9-9669-0800200c9a66"), Ok (b "6e8bc430-9c3a-11d9-9669-0800200c9a66")) /\
  both (cfg6 (au (b "info:"))) (au (b "https://example.org/info:/12345/x54xz321/s3/f8.05v")) [] =
    (Ok (b "/12345/x54xz321/s3/f8.05v"), Ok (b "/12345/x54xz321/s3/f8.05v")) /\
  both (cfg6 (au (b "edu/"))) (au (b "https://institution.EDU/3448793")) [] = (Ok (b "3448793"), Ok (b "3448793")) /\
  both (cfg6 (au (b ":"))) (au (b "urn:uuid:")) [] = (Panic, Err) /\
  side (cfg6 (au (b "edu/"))) (au (b "https://institution.EDU/3448793")) sha256_object_01 = (true, true, false).
Proof. exact doc_0006. Qed.

Example C11_nonvacuous_0007 :
  both (cfg7 (au (b ":")) 4 2 true true) (au (b "namespace:12887296")) [] = (Ok (b "6927/8821/12887296"), Ok (b "6927/8821/12887296")) /\
  both (cfg7 (au (b ":")) 4 2 true true) (au (b "urn:uuid:6e8bc430-9c3a-11d9-9669-0800200c9a66")) [] =
    (Ok (b "66a9/c002/6e8bc430-9c3a-11d9-9669-0800200c9a66"), Ok (b "66a9/c002/6e8bc430-9c3a-11d9-9669-0800200c9a66")) /\
  both (cfg7 (au (b ":")) 4 2 true true) (au (b "abc123")) [] = (Ok (b "321c/ba00/abc123"), Ok (b "321c/ba00/abc123")) /\
  both (cfg7 (au (b "edu/")) 3 3 false false) (au (b "https://institution.edu/3448793")) [] = (Ok (b "344/879/300/3448793"), Ok (b "344/879/300/3448793")) /\
  both (cfg7 (au (b "edu/")) 3 3 false false) (au (b "https://institution.edu/abc/edu/f8.05v")) [] = (Ok (b "f8./05v/000/f8.05v"), Ok (b "f8./05v/000/f8.05v")) /\
  both (cfg7 (au (b ":")) 3 3 true false) (au (b "urn:")) [] = (Panic, Err) /\
  both (cfg7 (au (b ":")) 3 3 true false) (mkS [mkU (bs [195; 169]) (bs [195; 169])] (bs [195; 169]) (bs [195; 137])) [] = (Panic, Err) /\
  side (cfg7 (au (b "edu/")) 3 3 false false) (au (b "https://institution.edu/abc/edu/f8.05v")) sha256_object_01 = (true, true, false).
Proof. exact doc_0007. Qed.

Example C11_nonvacuous_config :
  is_accepted (new true E0004 (obj (JStr (au (ext_name E0004))) (JStr (au (b "md5"))) (JNum 2) (JNum 15) (JBool true) JAbsent JAbsent JAbsent)) = true /\
  allowed E0004 (obj (JStr (au (ext_name E0004))) (JStr (au (b "md5"))) (JNum 2) (JNum 15) (JBool true) JAbsent JAbsent JAbsent) = true /\
  new true E0004 (obj (JStr (au (ext_name E0004))) (JStr (au (b "md5"))) (JNum 2) (JNum 17) JAbsent JAbsent JAbsent JAbsent) = Err /\
  allowed E0004 (obj (JStr (au (ext_name E0004))) (JStr (au (b "md5"))) (JNum 2) (JNum 17) JAbsent JAbsent JAbsent JAbsent) = false /\
  new true E0003 (obj JAbsent JAbsent (JNum 3) (JNum 0) JAbsent JAbsent JAbsent JAbsent) = Err /\
  new true E0006 (obj (JStr (au (ext_name E0006))) JAbsent JAbsent JAbsent JAbsent (JStr (au [])) JAbsent JAbsent) = Err /\
  is_accepted (new true E0007 (obj (JStr (au (ext_name E0007))) JAbsent (JNum 32) (JNum 32) JAbsent (JStr (au (b "edu/"))) (JStr (au (b "right"))) (JBool true))) = true /\
  new true E0007 (obj (JStr (au (ext_name E0007))) JAbsent (JNum 33) (JNum 1) JAbsent (JStr (au (b ":"))) JAbsent JAbsent) = Err /\
  new true E0007 (obj (JStr (au (ext_name E0007))) JAbsent (JNum 0) (JNum 1) JAbsent (JStr (au (b ":"))) JAbsent JAbsent) = Err.
Proof. exact cfg_examples. Qed.
