(** C12 - writes stay inside the repository and never land in another object's root.
    Property theorems only; each closed by [exact] of a lemma from Proofs/Footprint*.v.

    Reading guide.  [normalize base s] is what the kernel resolves [base.join(s)] to (no symbolic
    links).  [allowed c s o f]: may operation [o] (kind, hex digest of the id, staged head,
    storage-root relative object root, named mv sources) in configuration [c] (storage root,
    staging root) and pre-state [s] (objects of the main repository, staged object roots) issue
    the file-system call [f]?  [gen] is the list of calls of the fault-free run.  The check
    (checks/c12.py) evaluates [allowed] on every traced call of the real CLI and [covers] on the
    traces.  Hypotheses on the configuration ([env_ok]): the staging root is the default one or a
    user-chosen directory unrelated to the storage root, disjoint from all object roots
    ([cfg_ok], [stg_separate]); objects lie strictly inside the storage root, are not nested and
    their version directories are named v<digits>.  The named sources of an external mv are
    modelled twice: [o_srcs] as the calls spell them and [o_csrcs] as fs::canonicalize resolves
    them (the refusal of sources inside the repository decides on the latter); the theorem about
    objects assumes they coincide (no symbolic link in a named source).  [create_dir_all] of a not yet existing
    staging root also creates its missing ancestors: the zone [in_zone] says so explicitly
    (Mkdir of an ancestor of the staging / storage root). *)
From Rocfl Require Import Base.Bytes Model.FsOps Generated.Consts Model.Footprint
  Model.Layout Model.KnownC11
  Proofs.FootprintFacts Proofs.FootprintPaths Proofs.FootprintGuard Proofs.FootprintCommitted Proofs.FootprintGen
  Proofs.FootprintLayout Proofs.FootprintMain.
Open Scope N_scope.

(** ** path algebra *)
Theorem C12_normalize_within : forall base rel,
  rel_inside rel = true -> within base (normalize base rel) = true.
Proof. exact normalize_within. Qed.
Print Assumptions C12_normalize_within.

Theorem C12_normalize_strictly_within : forall base rel,
  rel_safe rel = true -> below base (normalize base rel) = true.
Proof. exact normalize_below. Qed.
Print Assumptions C12_normalize_strictly_within.

Theorem C12_dotdot_escapes : exists base rel, is_abs rel = false /\ within base (normalize base rel) = false.
Proof. exact dotdot_escapes. Qed.
Print Assumptions C12_dotdot_escapes.

Theorem C12_absolute_escapes : exists base rel, no_dotdot rel = true /\ within base (normalize base rel) = false.
Proof. exact absolute_escapes. Qed.
Print Assumptions C12_absolute_escapes.

(** ** staging: the id enters only through hex digits *)
Theorem C12_staged_paths_within : forall S h v d l t,
  hex_ok h = true -> is_vstr v = true -> validate_content_dir d = true -> inv_path_parse l = Some t ->
  below (staged_root S h) (normalize (staged_root S h) (new_content_path v d t)) = true /\
  below S (normalize (staged_root S h) (new_content_path v d t)) = true.
Proof. exact staged_file_within_staging. Qed.
Print Assumptions C12_staged_paths_within.

Theorem C12_staged_root_within : forall S h, hex_ok h = true -> below S (staged_root S h) = true.
Proof. exact staged_root_below. Qed.
Print Assumptions C12_staged_root_within.

Theorem C12_lock_file_within : forall S h, hex_ok h = true -> below S (lock_file S h) = true.
Proof. exact lock_file_below. Qed.
Print Assumptions C12_lock_file_within.

(** ** the guard of new object roots and of purge *)
Theorem C12_main_root_within : forall s R rel,
  validate_object_root s R rel = true -> below R (main_root R rel) = true.
Proof. exact main_root_within_lemma. Qed.
Print Assumptions C12_main_root_within.

(** (0003 configured WITHOUT tuples is left out since fix e1de1bb of /repo: its root is the
    percent-encoded id alone, e.g. `extensions`; such roots are refused by the guard above) *)
Theorem C12_hashed_layouts_safe : forall (c : Layout.cfg) id dg p,
  (c_ext c = E0003 /\ c_ts c <> 0%N \/ c_ext c = E0004) ->
  Layout.cfg_ok c = true -> inputs_ok c id dg = true ->
  Layout.map c id dg = Ok p ->
  rel_safe p = true /\ first_is_extensions p = false /\ forall R, below R (main_root R p) = true.
Proof. exact hashed_layouts_safe_lemma. Qed.
Print Assumptions C12_hashed_layouts_safe.

Theorem C12_no_nesting : forall c s rel m,
  objs_in_root c s -> new_root_ok s (c_root c) rel = true -> In m (p_objs s) ->
  under (m_root m) (main_root (c_root c) rel) = false /\ under (main_root (c_root c) rel) (m_root m) = false.
Proof. exact no_nesting_lemma. Qed.
Print Assumptions C12_no_nesting.

Theorem C12_guard_separates_staging : forall c s rel,
  cfg_ok c -> validate_object_root s (c_root c) rel = true ->
  under (c_stg c) (main_root (c_root c) rel) = false /\ under (main_root (c_root c) rel) (c_stg c) = false.
Proof. exact guard_separates_staging. Qed.
Print Assumptions C12_guard_separates_staging.

Theorem C12_invariants_preserved : forall c s rel vs,
  env_ok c s -> new_root_ok s (c_root c) rel = true -> (forall v, In v vs -> is_vstr v = true) ->
  env_ok c (mkPre (mkObj (main_root (c_root c) rel) vs :: p_objs s) (p_staged s) (p_occupied s)).
Proof. exact env_ok_preserved. Qed.
Print Assumptions C12_invariants_preserved.

(** ** every call of every operation stays in the zone *)
Theorem C12_op_footprint_within : forall c s o f,
  hex_ok (o_hex o) = true -> objs_in_root c s ->
  allowed c s o f = true -> forallb (in_zone c o f) (targets f) = true.
Proof. exact allowed_in_zone_lemma. Qed.
Print Assumptions C12_op_footprint_within.

(** a refused commit of a new object (guard says no, or the target exists) touches the staging
    area only *)
Theorem C12_refused_commit_changes_nothing : forall c s o f p,
  hex_ok (o_hex o) = true -> (o_kind o = KCommit \/ o_kind o = KUpgrade) ->
  o_found o = false -> new_root_ok s (c_root c) (o_rel o) = false ->
  allowed c s o f = true -> In p (targets f) -> stage_target c f p.
Proof. exact refused_commit_in_staging. Qed.
Print Assumptions C12_refused_commit_changes_nothing.

(** an id whose layout path is not a relative descendant of the storage root (absolute, "..", no
    Normal component): [get_inventory_by_path] never finds an object there (fix 3fb070d), the guard
    never creates or purges one there - every call of every operation on that id stays in the
    staging area, or removes a named source of an external mv *)
Theorem C12_unmapped_id_stays_in_staging : forall c s o f p,
  hex_ok (o_hex o) = true -> o_kind o <> KInit -> o_kind o <> KUpgradeRepo ->
  is_relative_descendant (o_rel o) = false ->
  allowed c s o f = true -> In p (targets f) ->
  stage_target c f p \/ (o_kind o = KMvExt /\ existsb (fun sr => under sr p) (o_srcs o) = true).
Proof. exact unmapped_id_in_staging. Qed.
Print Assumptions C12_unmapped_id_stays_in_staging.

(** no operation other than purge touches anything inside an object of the main repository
    except root inventory, sidecar, declaration and the version directory that does not exist *)
Theorem C12_ops_stay_out_of_other_objects : forall c s o f m p,
  env_ok c s -> hex_ok (o_hex o) = true -> (o_kind o = KMvExt -> o_csrcs o = o_srcs o) ->
  o_kind o <> KPurge -> (o_kind o = KInit -> p_objs s = []) ->
  allowed c s o f = true -> In m (p_objs s) -> In p (targets f) -> touch_ok o m p.
Proof. exact allowed_respects_objects. Qed.
Print Assumptions C12_ops_stay_out_of_other_objects.

Theorem C12_purge_touches_no_other_object : forall c s o f m p,
  env_ok c s -> hex_ok (o_hex o) = true -> o_kind o = KPurge ->
  allowed c s o f = true -> In m (p_objs s) -> m_root m <> N_o c o -> In p (targets f) -> under (m_root m) p = false.
Proof. exact purge_respects_others. Qed.
Print Assumptions C12_purge_touches_no_other_object.

(** ** the generated traces: every call, of every prefix (kill / fault), is allowed and in the zone *)
Theorem C12_model_trace_allowed : forall c s o g k,
  gin_ok c s o g = true -> Forall (fun x => allowed c s o (snd x) = true) (firstn k (gen c o g)).
Proof. exact gen_prefix_allowed. Qed.
Print Assumptions C12_model_trace_allowed.

Theorem C12_model_trace_within : forall c s o g k,
  objs_in_root c s -> gin_ok c s o g = true ->
  Forall (fun x => forallb (in_zone c o (snd x)) (targets (snd x)) = true) (firstn k (gen c o g)).
Proof. exact gen_in_zone. Qed.
Print Assumptions C12_model_trace_within.

(** ** an external mv whose named source is part of the repository is refused (fix 128b230):
    the rename of a committed content file is outside the footprint, the lock is not even taken;
    a source outside the repository is moved as before *)
Theorem C12_mv_source_in_repo_refused :
  mv_refused ex_c ex_mv = true /\ in_committed ex_s ex_src = true /\
  allowed ex_c ex_s ex_mv ex_mv_call = false /\
  allowed ex_c ex_s ex_mv (CreateNew (lockf ex_c ex_mv)) = false /\
  allowed ex_c ex_s ex_mv_outside
    (Rename [b "home"; b "u"; b "m.txt"] (S_o ex_c ex_mv ++ [b "v2"; b "content"; b "m.txt"])) = true.
Proof. exact mv_source_in_repo_refused. Qed.
Print Assumptions C12_mv_source_in_repo_refused.

(** ** non-vacuity *)
Example C12_nonvacuous_env : env_ok ex_c ex_s.
Proof. exact ex_env_ok. Qed.

Example C12_nonvacuous_gen :
  gin_ok ex_c ex_s ex_commit ex_gin = true /\ gin_ok ex_c ex_s ex_new ex_gin_new = true
  /\ op_runs ex_c ex_commit = true
  /\ List.length (gen ex_c ex_commit ex_gin) = 35%nat /\ List.length (gen ex_c ex_new ex_gin_new) = 28%nat.
Proof. exact ex_gin_ok. Qed.

Example C12_nonvacuous_guard :
  new_root_ok ex_s ex_R (b "p/q/r") = true /\ new_root_ok ex_s ex_R (b "./x") = true
  /\ new_root_ok ex_s ex_R (b "a/b") = false /\ new_root_ok ex_s ex_R (b "../x") = false
  /\ new_root_ok ex_s ex_R (b "/abs/path") = false /\ new_root_ok ex_s ex_R (b "x/../y") = false
  /\ new_root_ok ex_s ex_R (b ".") = false /\ new_root_ok ex_s ex_R (b "") = false
  /\ new_root_ok ex_s ex_R (b "extensions/rocfl-staging/x") = false /\ new_root_ok ex_s ex_R (b "a") = false.
Proof. exact ex_guard. Qed.

Example C12_nonvacuous_paths :
  hex_ok ex_hex = true /\ is_vstr (b "v12") = true /\ validate_content_dir (b "c d") = true /\
  validate_content_dir [] = true /\ validate_content_dir (b "..") = false /\ validate_content_dir (b "a/b") = false /\
  inv_path_parse (b "/dir/sub/e.txt") = Some (b "dir/sub/e.txt") /\ inv_path_parse (b "a/../../b") = None /\
  inv_path_parse (b ".") = None.
Proof. repeat split; vm_compute; reflexivity. Qed.
