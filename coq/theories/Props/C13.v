(** C13 - operations on one object are mutually exclusive and the lock is always released.
    Property theorems only; each closed by [exact] of a lemma from Proofs/.

    The theorems quantify over every type of object ids, lock keys and object data, every hash
    function (the sha256 of lock.rs:33 enters as a variable; injectivity is a hypothesis only where
    different objects must not interfere), every set of concurrently started operations with
    arbitrary bodies, and every schedule (interleaving) of their atomic steps.
    Assumptions of the model (the property is labelled partial): the test-and-insert on the lock
    table is atomic (O_CREAT|O_EXCL) and a concurrent execution is an interleaving of atomic steps. *)
From Coq Require Import List Bool Arith.
From Rocfl Require Import Model.Lock Proofs.LockFacts Proofs.LockSerialFacts Proofs.LockScheduleFacts Proofs.LockBracketFacts.
Import ListNotations.

(** mutual exclusion: in every reachable state at most one operation is inside its body for an object *)
Theorem C13_mutex :
  forall (oid key data : Type) (oid_eqb : oid -> oid -> bool) (key_eqb : key -> key -> bool) (hash : oid -> key)
         (os : list (op oid data)) (d0 : oid -> data) (st : sys oid key data) i j oi oj p q,
    eqb_correct key_eqb ->
    reachable oid key data oid_eqb key_eqb hash os d0 st ->
    running_at oid key data st i oi p -> running_at oid key data st j oj q ->
    op_obj oi = op_obj oj -> i = j.
Proof. exact (fun oid key data oid_eqb key_eqb hash os d0 st i j oi oj p q K =>
                mutex_reachable oid key data oid_eqb key_eqb hash K os d0 st i j oi oj p q). Qed.
Print Assumptions C13_mutex.

(** the lock file of an object exists exactly while some operation is inside its body for it (no leak) *)
Theorem C13_lock_present_iff_inside_body :
  forall (oid key data : Type) (oid_eqb : oid -> oid -> bool) (key_eqb : key -> key -> bool) (hash : oid -> key)
         (os : list (op oid data)) (d0 : oid -> data) (st : sys oid key data) k,
    eqb_correct key_eqb ->
    reachable oid key data oid_eqb key_eqb hash os d0 st ->
    (In k (locks st) <-> exists i o p, running_at oid key data st i o p /\ hash (op_obj o) = k).
Proof. exact (fun oid key data oid_eqb key_eqb hash os d0 st k K R =>
                lock_iff_running oid key data key_eqb hash st k
                  (inv_reachable oid key data oid_eqb key_eqb hash K os d0 st R)). Qed.
Print Assumptions C13_lock_present_iff_inside_body.

(** released on return: whatever the outcome of the body (Ok, Err, Panic), the step that returns
    removes the lock of the object from the table *)
Theorem C13_released_on_return :
  forall (oid key data : Type) (oid_eqb : oid -> oid -> bool) (key_eqb : key -> key -> bool) (hash : oid -> key)
         (os : list (op oid data)) (d0 : oid -> data) (st : sys oid key data) i o (out : outcome),
    eqb_correct key_eqb ->
    reachable oid key data oid_eqb key_eqb hash os d0 st ->
    running_at oid key data st i o (Done out) ->
    nth_error (pcs (step oid key data oid_eqb key_eqb hash st i)) i = Some (Finished (RRet out)) /\
    ~ In (hash (op_obj o)) (locks (step oid key data oid_eqb key_eqb hash st i)).
Proof. exact (fun oid key data oid_eqb key_eqb hash os d0 st i o out K R =>
                released_on_return_step oid key data oid_eqb key_eqb hash K st i o out
                  (inv_reachable oid key data oid_eqb key_eqb hash K os d0 st R)). Qed.
Print Assumptions C13_released_on_return.

(** ... and when every operation has returned the lock table is empty *)
Theorem C13_all_returned_no_locks :
  forall (oid key data : Type) (oid_eqb : oid -> oid -> bool) (key_eqb : key -> key -> bool) (hash : oid -> key)
         (os : list (op oid data)) (d0 : oid -> data) (st : sys oid key data),
    eqb_correct key_eqb ->
    reachable oid key data oid_eqb key_eqb hash os d0 st ->
    all_finished oid key data st = true -> locks st = [].
Proof. exact (fun oid key data oid_eqb key_eqb hash os d0 st K R =>
                all_finished_no_locks oid key data key_eqb hash st
                  (inv_reachable oid key data oid_eqb key_eqb hash K os d0 st R)). Qed.
Print Assumptions C13_all_returned_no_locks.

(** no mutation outside the lock: a step that changes the data of object o is a step of an operation on o
    that is inside its body, and the lock of o is in the table (owned by that operation) *)
Theorem C13_no_mutation_outside_lock :
  forall (oid key data : Type) (oid_eqb : oid -> oid -> bool) (key_eqb : key -> key -> bool) (hash : oid -> key)
         (os : list (op oid data)) (d0 : oid -> data) (st : sys oid key data) i o,
    eqb_correct oid_eqb -> eqb_correct key_eqb ->
    reachable oid key data oid_eqb key_eqb hash os d0 st ->
    store (step oid key data oid_eqb key_eqb hash st i) o <> store st o ->
    exists x p, running_at oid key data st i x p /\ op_obj x = o /\
                In (hash o) (locks st) /\ In (hash o, i) (held st).
Proof. exact (fun oid key data oid_eqb key_eqb hash os d0 st i o KO K R =>
                no_mutation_outside_lock_step oid key data oid_eqb key_eqb hash KO K st i o
                  (inv_reachable oid key data oid_eqb key_eqb hash K os d0 st R)). Qed.
Print Assumptions C13_no_mutation_outside_lock.

(** the same as a statement on traces: every trace of the model is accepted by the bracket automaton
    (acquire of a free lock < every data step of the owner < release by the owner; a refusal only while
    the lock is held) - the automaton Corr/CheckLock.v runs on the traced system calls of the real code *)
Theorem C13_traces_well_bracketed :
  forall (oid key data : Type) (oid_eqb : oid -> oid -> bool) (key_eqb : key -> key -> bool) (hash : oid -> key)
         (os : list (op oid data)) (d0 : oid -> data) (sched : list nat),
    eqb_correct key_eqb ->
    wb_run key key_eqb [] (events (run_sched oid key data oid_eqb key_eqb hash (init oid key data os d0) sched))
    = Some (held (run_sched oid key data oid_eqb key_eqb hash (init oid key data os d0) sched)).
Proof. exact (fun oid key data oid_eqb key_eqb hash os d0 sched K =>
                traces_well_bracketed oid key data oid_eqb key_eqb hash K os d0 sched). Qed.
Print Assumptions C13_traces_well_bracketed.

Theorem C13_complete_traces_balanced :
  forall (oid key data : Type) (oid_eqb : oid -> oid -> bool) (key_eqb : key -> key -> bool) (hash : oid -> key)
         (os : list (op oid data)) (d0 : oid -> data) (sched : list nat),
    eqb_correct key_eqb ->
    all_finished oid key data (run_sched oid key data oid_eqb key_eqb hash (init oid key data os d0) sched) = true ->
    wb_run key key_eqb [] (events (run_sched oid key data oid_eqb key_eqb hash (init oid key data os d0) sched)) = Some [].
Proof. exact (fun oid key data oid_eqb key_eqb hash os d0 sched K =>
                complete_traces_balanced oid key data oid_eqb key_eqb hash K os d0 sched). Qed.
Print Assumptions C13_complete_traces_balanced.

(** ONE bracket per operation.  The automaton above accepts (Acq Mut* Rel)* for one operation; the
    model's operation is  acquire ; body ; release  exactly once, which the strict per-operation
    automaton [one_bracket] states on traces:  Acq k ; (Mut k)* ; Rel k  and then NO further event of
    that operation (refused: Fail k alone), k the lock key of the operation's object.
    For every schedule and every operation i, its events are accepted and the automaton is in the phase
    the program counter of i prescribes (not yet asked / inside its body / closed). *)
Theorem C13_one_bracket_per_operation :
  forall (oid key data : Type) (oid_eqb : oid -> oid -> bool) (key_eqb : key -> key -> bool) (hash : oid -> key)
         (os : list (op oid data)) (d0 : oid -> data) (sched : list nat) i o,
    eqb_correct key_eqb ->
    nth_error os i = Some o ->
    let st := run_sched oid key data oid_eqb key_eqb hash (init oid key data os d0) sched in
    one_bracket key key_eqb (hash (op_obj o)) i (events st) = Some (phase_of data (nth_error (pcs st) i)).
Proof. exact (fun oid key data oid_eqb key_eqb hash os d0 sched i o K =>
                one_bracket_per_operation oid key data oid_eqb key_eqb hash K os d0 sched i o). Qed.
Print Assumptions C13_one_bracket_per_operation.

(** spelled out: an operation that returned - whatever the outcome Ok / Err / Panic of its body - took the
    lock of its object exactly once: its events are one acquire, then only mutations of that object, then
    the matching release, and nothing of that operation follows the release *)
Theorem C13_returned_operation_one_bracket :
  forall (oid key data : Type) (oid_eqb : oid -> oid -> bool) (key_eqb : key -> key -> bool) (hash : oid -> key)
         (os : list (op oid data)) (d0 : oid -> data) (sched : list nat) i o (out : outcome),
    eqb_correct key_eqb ->
    nth_error os i = Some o ->
    let st := run_sched oid key data oid_eqb key_eqb hash (init oid key data os d0) sched in
    nth_error (pcs st) i = Some (Finished (RRet out)) ->
    exists n, proj key i (events st)
              = mkEv i KAcq (hash (op_obj o)) :: repeat (mkEv i KMut (hash (op_obj o))) n
                ++ [mkEv i KRel (hash (op_obj o))].
Proof. exact (fun oid key data oid_eqb key_eqb hash os d0 sched i o out K =>
                returned_one_bracket oid key data oid_eqb key_eqb hash K os d0 sched i o out). Qed.
Print Assumptions C13_returned_operation_one_bracket.

(** ... in every other state of the operation as well: nothing before it asked, Acq Mut* while it is inside
    its body, the single event Fail when it was refused *)
Theorem C13_operation_trace_shape :
  forall (oid key data : Type) (oid_eqb : oid -> oid -> bool) (key_eqb : key -> key -> bool) (hash : oid -> key)
         (os : list (op oid data)) (d0 : oid -> data) (sched : list nat) i o p,
    eqb_correct key_eqb ->
    nth_error os i = Some o ->
    let st := run_sched oid key data oid_eqb key_eqb hash (init oid key data os d0) sched in
    nth_error (pcs st) i = Some p ->
    op_shape key data i (hash (op_obj o)) p (proj key i (events st)).
Proof. exact (fun oid key data oid_eqb key_eqb hash os d0 sched i o p K =>
                operation_trace_shape oid key data oid_eqb key_eqb hash K os d0 sched i o p). Qed.
Print Assumptions C13_operation_trace_shape.

(** the strict automaton accepts nothing else (on ANY event list, e.g. the abstraction of a traced run of
    the real code): closed = exactly one acquire, mutations, one release, end - or refused *)
Theorem C13_one_bracket_language :
  forall (key : Type) (key_eqb : key -> key -> bool) (k : key) (i : nat) (es : list (ev key)),
    eqb_correct key_eqb ->
    one_bracket key key_eqb k i es = Some PClosed ->
    (exists n, proj key i es = mkEv i KAcq k :: repeat (mkEv i KMut k) n ++ [mkEv i KRel k]) \/
    proj key i es = [mkEv i KFail k].
Proof. exact (fun key key_eqb k i es K => one_bracket_closed_shape key key_eqb K k i es). Qed.
Print Assumptions C13_one_bracket_language.

(** the strict trace automaton of the correspondence (Corr/CheckLock.v) = lock-table automaton AND one
    [one_bracket] per operation, no event of an unknown operation: it accepts every trace of the model, and
    the trace of a complete run with no lock held and every operation closed *)
Theorem C13_traces_strictly_bracketed :
  forall (oid key data : Type) (oid_eqb : oid -> oid -> bool) (key_eqb : key -> key -> bool) (hash : oid -> key)
         (os : list (op oid data)) (d0 : oid -> data) (sched : list nat),
    eqb_correct key_eqb ->
    strict_ok key key_eqb (map (fun o => hash (op_obj o)) os)
              (events (run_sched oid key data oid_eqb key_eqb hash (init oid key data os d0) sched)) = true.
Proof. exact (fun oid key data oid_eqb key_eqb hash os d0 sched K =>
                traces_strict oid key data oid_eqb key_eqb hash K os d0 sched). Qed.
Print Assumptions C13_traces_strictly_bracketed.

Theorem C13_complete_traces_strictly_bracketed :
  forall (oid key data : Type) (oid_eqb : oid -> oid -> bool) (key_eqb : key -> key -> bool) (hash : oid -> key)
         (os : list (op oid data)) (d0 : oid -> data) (sched : list nat),
    eqb_correct key_eqb ->
    all_finished oid key data (run_sched oid key data oid_eqb key_eqb hash (init oid key data os d0) sched) = true ->
    strict_done key key_eqb (map (fun o => hash (op_obj o)) os)
                (events (run_sched oid key data oid_eqb key_eqb hash (init oid key data os d0) sched)) = true.
Proof. exact (fun oid key data oid_eqb key_eqb hash os d0 sched K =>
                complete_traces_strict oid key data oid_eqb key_eqb hash K os d0 sched). Qed.
Print Assumptions C13_complete_traces_strictly_bracketed.

(** a refused operation changes nothing but its own result *)
Theorem C13_failed_acquire_changes_nothing :
  forall (oid key data : Type) (oid_eqb : oid -> oid -> bool) (key_eqb : key -> key -> bool) (hash : oid -> key)
         (st : sys oid key data) i o,
    eqb_correct key_eqb ->
    nth_error (ops st) i = Some o -> nth_error (pcs st) i = Some Waiting ->
    In (hash (op_obj o)) (locks st) ->
    let st' := step oid key data oid_eqb key_eqb hash st i in
    locks st' = locks st /\ store st' = store st /\ held st' = held st /\
    acq_log st' = acq_log st /\ ops st' = ops st /\
    nth_error (pcs st') i = Some (Finished RLock) /\
    (forall j, j <> i -> nth_error (pcs st') j = nth_error (pcs st) j).
Proof. exact (fun oid key data oid_eqb key_eqb hash st i o K =>
                failed_acquire_changes_nothing_step oid key data oid_eqb key_eqb hash K st i o). Qed.
Print Assumptions C13_failed_acquire_changes_nothing.

(** fail fast: a request is refused exactly when the lock is in the table, granted exactly when it is not *)
Theorem C13_acquire_refused_iff_locked :
  forall (oid key data : Type) (oid_eqb : oid -> oid -> bool) (key_eqb : key -> key -> bool) (hash : oid -> key)
         (st : sys oid key data) i o,
    eqb_correct key_eqb ->
    nth_error (ops st) i = Some o -> nth_error (pcs st) i = Some Waiting ->
    (~ In (hash (op_obj o)) (locks st) <->
     nth_error (pcs (step oid key data oid_eqb key_eqb hash st i)) i = Some (Running (op_body o))) /\
    (In (hash (op_obj o)) (locks st) <->
     nth_error (pcs (step oid key data oid_eqb key_eqb hash st i)) i = Some (Finished RLock)).
Proof. exact (fun oid key data oid_eqb key_eqb hash st i o K =>
                acquire_succeeds_iff_free oid key data oid_eqb key_eqb hash K st i o). Qed.
Print Assumptions C13_acquire_refused_iff_locked.

(** operations on different objects: their steps commute (same lock table as a set, same data, same
    program counters) and they never refuse each other - here the injectivity of the hash is needed *)
Theorem C13_independent_commute :
  forall (oid key data : Type) (oid_eqb : oid -> oid -> bool) (key_eqb : key -> key -> bool) (hash : oid -> key)
         (st : sys oid key data) i j,
    eqb_correct oid_eqb -> eqb_correct key_eqb -> injective hash ->
    i <> j ->
    (forall x y, nth_error (ops st) i = Some x -> nth_error (ops st) j = Some y -> op_obj x <> op_obj y) ->
    sys_equiv oid key data
      (step oid key data oid_eqb key_eqb hash (step oid key data oid_eqb key_eqb hash st j) i)
      (step oid key data oid_eqb key_eqb hash (step oid key data oid_eqb key_eqb hash st i) j).
Proof. exact (fun oid key data oid_eqb key_eqb hash st i j KO K Inj =>
                independent_commute_objects oid key data oid_eqb key_eqb hash KO K Inj st i j). Qed.
Print Assumptions C13_independent_commute.

Theorem C13_not_refused_by_other_objects :
  forall (oid key data : Type) (oid_eqb : oid -> oid -> bool) (key_eqb : key -> key -> bool) (hash : oid -> key)
         (os : list (op oid data)) (d0 : oid -> data) (st : sys oid key data) i x,
    eqb_correct key_eqb -> injective hash ->
    reachable oid key data oid_eqb key_eqb hash os d0 st ->
    nth_error (ops st) i = Some x -> nth_error (pcs st) i = Some Waiting ->
    (forall j y p, running_at oid key data st j y p -> op_obj y <> op_obj x) ->
    nth_error (pcs (step oid key data oid_eqb key_eqb hash st i)) i = Some (Running (op_body x)).
Proof. exact (fun oid key data oid_eqb key_eqb hash os d0 st i x K Inj R =>
                acquire_not_blocked_by_others oid key data oid_eqb key_eqb hash K Inj st i x
                  (inv_reachable oid key data oid_eqb key_eqb hash K os d0 st R)). Qed.
Print Assumptions C13_not_refused_by_other_objects.

(** serializability, for EVERY schedule: the operations that were not refused are exactly the acquire log
    (each once); an object on which no operation is inside its body holds the data left by running those
    operations one after the other, to completion, in acquire order; and every operation reports the
    outcome it has in that serial execution *)
Theorem C13_acquire_log_exact :
  forall (oid key data : Type) (oid_eqb : oid -> oid -> bool) (key_eqb : key -> key -> bool) (hash : oid -> key)
         (os : list (op oid data)) (d0 : oid -> data) (sched : list nat),
    eqb_correct key_eqb ->
    let st := run_sched oid key data oid_eqb key_eqb hash (init oid key data os d0) sched in
    NoDup (acq_log st) /\
    forall i, In i (acq_log st) <-> exists p, nth_error (pcs st) i = Some p /\ acquired p = true.
Proof. exact (fun oid key data oid_eqb key_eqb hash os d0 sched K =>
                acq_log_exact oid key data oid_eqb key_eqb hash K os d0 sched). Qed.
Print Assumptions C13_acquire_log_exact.

Theorem C13_serializable :
  forall (oid key data : Type) (oid_eqb : oid -> oid -> bool) (key_eqb : key -> key -> bool) (hash : oid -> key)
         (os : list (op oid data)) (d0 : oid -> data) (sched : list nat) (o : oid),
    eqb_correct oid_eqb -> eqb_correct key_eqb ->
    let st := run_sched oid key data oid_eqb key_eqb hash (init oid key data os d0) sched in
    (forall i x p, running_at oid key data st i x p -> op_obj x <> o) ->
    store st o = serial_data oid data oid_eqb os d0 (acq_log st) o.
Proof. exact (fun oid key data oid_eqb key_eqb hash os d0 sched o KO K =>
                serializable_any oid key data oid_eqb key_eqb hash KO K os d0 sched o). Qed.
Print Assumptions C13_serializable.

Theorem C13_serializable_complete :
  forall (oid key data : Type) (oid_eqb : oid -> oid -> bool) (key_eqb : key -> key -> bool) (hash : oid -> key)
         (os : list (op oid data)) (d0 : oid -> data) (sched : list nat),
    eqb_correct oid_eqb -> eqb_correct key_eqb ->
    let st := run_sched oid key data oid_eqb key_eqb hash (init oid key data os d0) sched in
    all_finished oid key data st = true ->
    forall o, store st o = fst (serial_run oid data oid_eqb os d0 (acq_log st)) o.
Proof. exact (fun oid key data oid_eqb key_eqb hash os d0 sched KO K F o =>
                eq_trans (serializable_complete oid key data oid_eqb key_eqb hash KO K os d0 sched F o)
                         (eq_sym (serial_run_store oid data oid_eqb KO os _ d0 o))). Qed.
Print Assumptions C13_serializable_complete.

Theorem C13_serializable_outcomes :
  forall (oid key data : Type) (oid_eqb : oid -> oid -> bool) (key_eqb : key -> key -> bool) (hash : oid -> key)
         (os : list (op oid data)) (d0 : oid -> data) (sched : list nat) pre post i x out,
    eqb_correct oid_eqb -> eqb_correct key_eqb ->
    let st := run_sched oid key data oid_eqb key_eqb hash (init oid key data os d0) sched in
    acq_log st = pre ++ i :: post -> nth_error os i = Some x ->
    nth_error (pcs st) i = Some (Finished (RRet out)) ->
    out = snd (run_prog (op_body x) (serial_data oid data oid_eqb os d0 pre (op_obj x))).
Proof. exact (fun oid key data oid_eqb key_eqb hash os d0 sched pre post i x out KO K =>
                serializable_outcomes oid key data oid_eqb key_eqb hash KO K os d0 sched pre post i x out). Qed.
Print Assumptions C13_serializable_outcomes.

(** the serial execution is itself a run of the model: for every duplicate-free list of operations there
    is a schedule of one block of steps per operation, in that order, in which nobody is refused and
    which leaves exactly [serial_data] ... *)
Theorem C13_serial_schedule_exists :
  forall (oid key data : Type) (oid_eqb : oid -> oid -> bool) (key_eqb : key -> key -> bool) (hash : oid -> key)
         (os : list (op oid data)) (d0 : oid -> data) (log : list nat),
    eqb_correct oid_eqb -> eqb_correct key_eqb ->
    NoDup log -> (forall i, In i log -> exists x, nth_error os i = Some x) ->
    exists bl, map fst bl = log /\
      let st := run_sched oid key data oid_eqb key_eqb hash (init oid key data os d0) (blocks_sched bl) in
      acq_log st = log /\ locks st = [] /\ ops st = os /\
      (forall o, store st o = serial_data oid data oid_eqb os d0 log o) /\
      (forall i, In i log -> exists out, nth_error (pcs st) i = Some (Finished (RRet out))) /\
      (forall i, ~ In i log -> nth_error (pcs st) i = nth_error (pcs (init oid key data os d0)) i).
Proof. exact (fun oid key data oid_eqb key_eqb hash os d0 log KO K =>
                serial_schedule_exists oid key data oid_eqb key_eqb hash KO K os d0 log). Qed.
Print Assumptions C13_serial_schedule_exists.

(** ... hence: every complete interleaving ends with the lock table empty and with the data AND the
    reported outcomes of a serial schedule (no interleaving at all) of the operations that were not
    refused, in the order in which they acquired their locks *)
Theorem C13_equivalent_serial_schedule :
  forall (oid key data : Type) (oid_eqb : oid -> oid -> bool) (key_eqb : key -> key -> bool) (hash : oid -> key)
         (os : list (op oid data)) (d0 : oid -> data) (sched : list nat),
    eqb_correct oid_eqb -> eqb_correct key_eqb ->
    all_finished oid key data (run_sched oid key data oid_eqb key_eqb hash (init oid key data os d0) sched) = true ->
    exists bl,
      map fst bl = acq_log (run_sched oid key data oid_eqb key_eqb hash (init oid key data os d0) sched) /\
      let st := run_sched oid key data oid_eqb key_eqb hash (init oid key data os d0) sched in
      let ss := run_sched oid key data oid_eqb key_eqb hash (init oid key data os d0) (blocks_sched bl) in
      acq_log ss = acq_log st /\ locks ss = [] /\ locks st = [] /\
      (forall o, store st o = store ss o) /\
      (forall i, In i (acq_log st) -> exists out, nth_error (pcs ss) i = Some (Finished (RRet out))
                                                 /\ nth_error (pcs st) i = Some (Finished (RRet out))).
Proof. exact (fun oid key data oid_eqb key_eqb hash os d0 sched KO K =>
                equivalent_serial_schedule oid key data oid_eqb key_eqb hash KO K os d0 sched). Qed.
Print Assumptions C13_equivalent_serial_schedule.

(** Non-vacuity: a concrete system (ids and keys are numbers, hash o = o + 100, the data of an object is
    the list of values written) with two operations on object 1 and one on object 2. *)
Definition ex_hash (o : nat) : nat := o + 100.
Definition ex_w (v : nat) (k : prog (list nat)) : prog (list nat) := Step (fun d => d ++ [v]) (fun _ => k).
Definition ex_ops : list (op nat (list nat)) :=
  [ mkOp 1 (ex_w 10 (ex_w 11 (Done OOk)));
    mkOp 1 (ex_w 20 (Done OErr));
    mkOp 2 (ex_w 30 (Done OPanic)) ].
Definition ex_run (sched : list nat) :=
  run_sched nat nat (list nat) Nat.eqb Nat.eqb ex_hash (init nat nat (list nat) ex_ops (fun _ => [])) sched.

(** operation 1 asks while operation 0 is inside its body: refused, changes nothing; operation 2 (other
    object) runs in between and panics; everything is released; object 1 holds the data of operation 0 alone *)
Example C13_nonvacuous_interleaving :
  let st := ex_run [0; 0; 2; 1; 2; 0; 2; 0] in
  pcs st = [Finished (RRet OOk); Finished RLock; Finished (RRet OPanic)] /\
  locks st = [] /\ acq_log st = [0; 2] /\ store st 1 = [10; 11] /\ store st 2 = [30] /\
  all_finished nat nat (list nat) st = true /\
  wb_run nat Nat.eqb [] (events st) = Some [].
Proof. vm_compute. repeat split; reflexivity. Qed.

(** the strict automaton on that run: accepted, complete; the events of operation 0 are one bracket; a
    trace in which an operation releases and takes the lock again (two brackets, every mutation inside
    some bracket) is accepted by the bracket automaton [wb_run] but REJECTED by the strict one *)
Example C13_nonvacuous_strict :
  let st := ex_run [0; 0; 2; 1; 2; 0; 2; 0] in
  strict_done nat Nat.eqb [101; 101; 102] (events st) = true /\
  proj nat 0 (events st) = [mkEv 0 KAcq 101; mkEv 0 KMut 101; mkEv 0 KMut 101; mkEv 0 KRel 101] /\
  proj nat 1 (events st) = [mkEv 1 KFail 101] /\
  one_bracket nat Nat.eqb 101 0 (events st) = Some PClosed /\
  let two := [mkEv 0 KAcq 101; mkEv 0 KMut 101; mkEv 0 KRel 101; mkEv 0 KAcq 101; mkEv 0 KMut 101; mkEv 0 KRel 101] in
  wb_run nat Nat.eqb [] two = Some [] /\ strict_ok nat Nat.eqb [101] two = false /\
  one_bracket nat Nat.eqb 101 0 two = None /\
  strict_ok nat Nat.eqb [101] [mkEv 0 KAcq 101; mkEv 0 KRel 101; mkEv 0 KMut 101] = false.
Proof. vm_compute. repeat split; reflexivity. Qed.

(** a state in the middle: operation 0 is inside its body and holds lock 101 - the hypotheses of
    C13_mutex / C13_no_mutation_outside_lock are satisfiable *)
Example C13_nonvacuous_running :
  let st := ex_run [0; 0; 2] in
  running_at nat nat (list nat) st 0 (mkOp 1 (ex_w 10 (ex_w 11 (Done OOk)))) (ex_w 11 (Done OOk)) /\
  locks st = [102; 101] /\ store st 1 = [10] /\
  store (step nat nat (list nat) Nat.eqb Nat.eqb ex_hash st 0) 1 <> store st 1.
Proof. vm_compute. repeat split; try reflexivity. discriminate. Qed.

(** when operation 1 asks after operation 0 returned both run: the result is the serial execution 0;1 *)
Example C13_nonvacuous_serial :
  let st := ex_run [0; 0; 0; 0; 1; 1; 1] in
  pcs st = [Finished (RRet OOk); Finished (RRet OErr); Waiting] /\
  acq_log st = [0; 1] /\ store st 1 = [10; 11; 20] /\
  fst (serial_run nat (list nat) Nat.eqb ex_ops (fun _ => []) [0; 1]) 1 = [10; 11; 20].
Proof. vm_compute. repeat split; reflexivity. Qed.

Example C13_nonvacuous_hypotheses :
  eqb_correct Nat.eqb /\ injective ex_hash.
Proof.
  split.
  - exact Nat.eqb_eq.
  - exact (fun a b H => proj1 (Nat.add_cancel_r a b 100) H).
Qed.
