(** C14 - versions advance one at a time and a stale commit is refused.
    Property theorems only; each closed by [exact] of a lemma from Proofs/. *)
From Rocfl Require Import Base.Bytes Model.VersionNum Model.Known Proofs.VersionNumFacts.
Open Scope N_scope.

Theorem C14_next_is_spec : forall dbg v,
  vwf v = true -> c14_overflow v = false -> vnext dbg v = vnext_spec v.
Proof. exact vnext_correct. Qed.
Print Assumptions C14_next_is_spec.

Theorem C14_next_plus_one_keeps_width : forall dbg v v',
  vwf v = true -> c14_overflow v = false -> vnext dbg v = Ok v' ->
  vn_number v' = vn_number v + 1 /\ vn_width v' = vn_width v /\ vfits v' = true /\ vwf v' = true.
Proof. exact vnext_ok_plus_one. Qed.
Print Assumptions C14_next_plus_one_keeps_width.

Theorem C14_next_refuses_past_width_max : forall dbg v,
  vwf v = true -> c14_overflow v = false ->
  max_for_width (vn_width v) < vn_number v + 1 -> vnext dbg v = Err.
Proof. exact vnext_refuses_at_max. Qed.
Print Assumptions C14_next_refuses_past_width_max.

Theorem C14_display_parse_roundtrip : forall v,
  vwf v = true -> vfits v = true -> vparse (vdisplay v) = Ok v.
Proof. exact vparse_vdisplay. Qed.
Print Assumptions C14_display_parse_roundtrip.

Theorem C14_padded_name_length_constant : forall v,
  vwf v = true -> vfits v = true -> 0 < vn_width v -> blen (vdisplay v) = vn_width v + 1.
Proof. exact vdisplay_length_padded. Qed.
Print Assumptions C14_padded_name_length_constant.

(** The excluded class is a genuine defect of the modelled code (known finding). *)
Theorem C14_known_width11_refuted : vnext true (mkV 1 11) = Panic.
Proof. exact vnext_width11_panics_debug. Qed.
Print Assumptions C14_known_width11_refuted.

(** Non-vacuity: the hypotheses are met by concrete version numbers. *)
Example C14_nonvacuous :
  vwf (mkV 98 3) = true /\ c14_overflow (mkV 98 3) = false /\ vfits (mkV 98 3) = true /\
  vnext true (mkV 98 3) = Ok (mkV 99 3) /\ vnext true (mkV 99 3) = Err.
Proof. repeat split; vm_compute; reflexivity. Qed.
