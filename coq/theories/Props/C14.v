(** C14 - versions advance one at a time and a stale commit is refused.
    Property theorems only; each closed by [exact] of a lemma from Proofs/. *)
From Rocfl Require Import Base.Bytes Model.VersionNum Proofs.VersionNumFacts.
From Rocfl Require Import Model.MultiClient Proofs.MultiClientFacts.
Open Scope N_scope.

(** [vnumok v]: the number is a u32 >= 1 (every number the code can hold); the WIDTH is
    unrestricted - 11, 20, u32::MAX and beyond included - and so is the build mode. *)
Theorem C14_next_is_spec : forall dbg v,
  vnumok v = true -> vnext dbg v = vnext_spec v.
Proof. exact vnext_correct. Qed.
Print Assumptions C14_next_is_spec.

Theorem C14_next_plus_one_keeps_width : forall dbg v v',
  vnumok v = true -> vnext dbg v = Ok v' ->
  vn_number v' = vn_number v + 1 /\ vn_width v' = vn_width v /\ vfits v' = true /\ vnumok v' = true.
Proof. exact vnext_ok_plus_one. Qed.
Print Assumptions C14_next_plus_one_keeps_width.

Theorem C14_next_refuses_past_width_max : forall dbg v,
  vnumok v = true ->
  max_for_width (vn_width v) < vn_number v + 1 -> vnext dbg v = Err.
Proof. exact vnext_refuses_at_max. Qed.
Print Assumptions C14_next_refuses_past_width_max.

(** the executable maximum is the mathematical one: min(u32::MAX, 10^(w-1) - 1) *)
Theorem C14_max_for_width_is_min : forall w,
  1 <= w -> max_for_width w = N.min U32MAX (10 ^ (w - 1) - 1).
Proof. exact max_for_width_min. Qed.
Print Assumptions C14_max_for_width_is_min.

(** no u32 overflow in any build mode, at any width, at any number (u32::MAX included) *)
Theorem C14_next_never_panics : forall dbg v, vnumok v = true -> vnext dbg v <> Panic.
Proof. exact vnext_never_panics. Qed.
Print Assumptions C14_next_never_panics.

Theorem C14_next_same_in_debug_and_release : forall v, vnumok v = true -> vnext true v = vnext false v.
Proof. exact vnext_mode_independent. Qed.
Print Assumptions C14_next_same_in_debug_and_release.

Theorem C14_next_refuses_at_u32_max : forall dbg w, vnext dbg (mkV U32MAX w) = Err.
Proof. exact vnext_number_u32max. Qed.
Print Assumptions C14_next_refuses_at_u32_max.

Theorem C14_display_parse_roundtrip : forall v,
  vwf v = true -> vfits v = true -> vparse (vdisplay v) = Ok v.
Proof. exact vparse_vdisplay. Qed.
Print Assumptions C14_display_parse_roundtrip.

Theorem C14_padded_name_length_constant : forall v,
  vwf v = true -> vfits v = true -> 0 < vn_width v -> blen (vdisplay v) = vn_width v + 1.
Proof. exact vdisplay_length_padded. Qed.
Print Assumptions C14_padded_name_length_constant.

(** Historical note (NOT about the current code): the arithmetic before fix 476b184, kept as
    the separate definition [vnext_before_fix], panicked here in debug builds. *)
Theorem C14_before_fix_width11_panicked : vnext_before_fix true (mkV 1 11) = Panic.
Proof. exact vnext_before_fix_width11_panicked_debug. Qed.
Print Assumptions C14_before_fix_width11_panicked.

(** Non-vacuity: the hypotheses are met by concrete version numbers, inside and outside the
    former overflow class. *)
Example C14_nonvacuous :
  vnumok (mkV 98 3) = true /\ vfits (mkV 98 3) = true /\
  vnext true (mkV 98 3) = Ok (mkV 99 3) /\ vnext true (mkV 99 3) = Err /\
  vnext true (mkV 1 11) = Ok (mkV 2 11) /\ vnext false (mkV 1 11) = Ok (mkV 2 11) /\
  vnext true (mkV 4294967294 4294967295) = Ok (mkV 4294967295 4294967295) /\
  vnext true (mkV 4294967294 0) = Ok (mkV 4294967295 0) /\ vnext true (mkV 4294967295 0) = Err.
Proof. repeat split; vm_compute; reflexivity. Qed.

(** * Second half: clients that share a storage root but use different staging roots
    (Model/MultiClient.v).  An interleaving is any list of (client, operation); a commit carries
    the metadata token of the new version (created/message/user).  No known class is left.
    Two groups of theorems:
    - for ALL interleavings and any metadata: invariant [mc_wf];
    - for all interleavings in which no commit repeats the metadata of a version known to
      anyone ([run_fresh]; rocfl stamps [created] with Local::now() unless the caller passes an
      explicit time): invariant [mc_inv], which knows lineages.  When metadata IS repeated on a
      re-created lineage with the same states, the two histories cannot be told apart and the
      commit is accepted - harmlessly: [C14_commit_keeps_history] still holds. *)

Theorem C14_reachable_wellformed : forall dbg es, mc_wf (run dbg mc_init es).
Proof. exact reachable_wf. Qed.
Print Assumptions C14_reachable_wellformed.

Theorem C14_wellformed_preserved : forall dbg es st, mc_wf st -> mc_wf (run dbg st es).
Proof. exact run_wf. Qed.
Print Assumptions C14_wellformed_preserved.

(** every reachable object: head number = number of versions (none skipped, none repeated),
    within what its padding width can express *)
Theorem C14_reachable_heads : forall dbg es id o,
  mget (run dbg mc_init es) id = Some o ->
  vn_number (o_head o) = N.of_nat (List.length (o_versions o)) /\ 1 <= vn_number (o_head o) /\
  vfits (o_head o) = true.
Proof. exact reachable_heads. Qed.
Print Assumptions C14_reachable_heads.

(** ANY accepted commit of a new version: the main repository changes at that id only; head =
    old head + 1 with the same padding width and configuration; exactly one version - the
    client's staged state under the commit's metadata - is added at the end; every earlier
    version keeps its metadata and its state ([base_same]): none overwritten, skipped or merged *)
Theorem C14_commit_keeps_history : forall dbg st c id m s st',
  mc_wf st -> sget st c id = Some s -> vn_number (s_head s) <> 1 ->
  step dbg st c (Commit id m) = (st', Ok tt) ->
  exists o, mget st id = Some o /\
    mget st' id = Some (mkObj (o_lineage o) (mkV (vn_number (o_head o) + 1) (vn_width (o_head o)))
                              (s_versions s ++ [(m, s_state s)]) (o_cfg o)) /\
    List.length (s_versions s) = List.length (o_versions o) /\
    base_same (o_versions o) (s_versions s) = true /\
    (forall id', id' <> id -> mget st' id' = mget st id') /\
    sget st' c id = None /\
    (forall c' id', (c', id') <> (c, id) -> sget st' c' id' = sget st c' id') /\
    mc_next st' = mc_next st.
Proof. exact commit_keeps_history. Qed.
Print Assumptions C14_commit_keeps_history.

(** the main head is not the staged head - 1 (someone else committed first, or the object is
    gone): Err, and the whole system state - repository and staged changes - is unchanged *)
Theorem C14_stale_commit_refused_unchanged : forall dbg st c id m s,
  sget st c id = Some s -> vnumok (s_head s) = true -> vn_number (s_head s) <> 1 ->
  (forall o, mget st id = Some o -> vn_number (o_head o) + 1 <> vn_number (s_head s)) ->
  step dbg st c (Commit id m) = (st, Err).
Proof. exact stale_commit_refused_unchanged. Qed.
Print Assumptions C14_stale_commit_refused_unchanged.

(** some version of the object is not (metadata and state) the staged copy's version of that
    number: Err, nothing changes (fix e1679ed) *)
Theorem C14_foreign_base_refused : forall dbg st c id m s o,
  sget st c id = Some s -> vnumok (s_head s) = true -> vn_number (s_head s) <> 1 ->
  mget st id = Some o -> base_same (o_versions o) (s_versions s ++ [(m, s_state s)]) = false ->
  step dbg st c (Commit id m) = (st, Err).
Proof. exact foreign_base_refused. Qed.
Print Assumptions C14_foreign_base_refused.

(** another padding width, digest algorithm or content directory: Err, nothing changes (fix 5c18ef1) *)
Theorem C14_foreign_config_refused : forall dbg st c id m s o,
  sget st c id = Some s -> vnumok (s_head s) = true -> vn_number (s_head s) <> 1 ->
  mget st id = Some o -> (vn_width (o_head o) <> vn_width (s_head s) \/ o_cfg o <> s_cfg s) ->
  step dbg st c (Commit id m) = (st, Err).
Proof. exact foreign_config_refused. Qed.
Print Assumptions C14_foreign_config_refused.

(** every refused or aborted operation leaves the repository and all staging roots unchanged *)
Theorem C14_refused_unchanged : forall dbg st c o,
  snd (step dbg st c o) <> Ok tt -> fst (step dbg st c o) = st.
Proof. exact step_refused_unchanged. Qed.
Print Assumptions C14_refused_unchanged.

Theorem C14_new_object_refused_if_exists : forall dbg st c id o,
  mget st id = Some o ->
  (forall w k, step dbg st c (New id w k) = (st, Err)) /\
  (forall m s, sget st c id = Some s -> vn_number (s_head s) = 1 -> step dbg st c (Commit id m) = (st, Err)).
Proof. exact new_object_refused_if_exists. Qed.
Print Assumptions C14_new_object_refused_if_exists.

(** at the largest number the padding width can express (u32::MAX for widths 0 and above 10)
    a further version cannot even be staged *)
Theorem C14_stage_refused_at_width_max : forall dbg st c id o e,
  mc_wf st -> sget st c id = None -> mget st id = Some o ->
  max_for_width (vn_width (o_head o)) < vn_number (o_head o) + 1 ->
  step dbg st c (Stage id e) = (st, Err).
Proof. exact stage_refused_at_width_max. Qed.
Print Assumptions C14_stage_refused_at_width_max.

(** no operation panics in a reachable state, whatever the padding widths *)
Theorem C14_step_never_panics : forall dbg st c o, mc_wf st -> snd (step dbg st c o) <> Panic.
Proof. exact step_never_panics. Qed.
Print Assumptions C14_step_never_panics.

(** ** Interleavings in which commit metadata never repeats *)

Theorem C14_reachable_invariant : forall dbg es,
  run_fresh dbg mc_init es = true -> mc_inv (run dbg mc_init es).
Proof. exact reachable_inv. Qed.
Print Assumptions C14_reachable_invariant.

Theorem C14_invariant_preserved : forall dbg es st,
  mc_inv st -> run_fresh dbg st es = true -> mc_inv (run dbg st es).
Proof. exact run_inv. Qed.
Print Assumptions C14_invariant_preserved.

(** a successful commit of a new version changes the main repository at that id only and
    appends exactly one version: number = old head + 1, same width and configuration, state = the
    client's staged head state, all earlier versions literally unchanged *)
Theorem C14_commit_appends_exactly_next : forall dbg st c id m s st',
  mc_inv st -> sget st c id = Some s -> vn_number (s_head s) <> 1 ->
  step dbg st c (Commit id m) = (st', Ok tt) ->
  exists o, mget st id = Some o /\
    mget st' id = Some (mkObj (o_lineage o) (mkV (vn_number (o_head o) + 1) (vn_width (o_head o)))
                              (o_versions o ++ [(m, s_state s)]) (o_cfg o)) /\
    (forall id', id' <> id -> mget st' id' = mget st id') /\
    sget st' c id = None /\
    (forall c' id', (c', id') <> (c, id) -> sget st' c' id' = sget st c' id') /\
    mc_next st' = mc_next st.
Proof. exact commit_appends_exactly_next. Qed.
Print Assumptions C14_commit_appends_exactly_next.

(** every successful write_new_version was cloned from exactly the object now in the main
    repository, so the new version's state is the previous head's state with the staged
    changes applied *)
Theorem C14_lineage_known_exact : forall dbg st c id m s o st',
  mc_inv st -> sget st c id = Some s -> vn_number (s_head s) <> 1 -> mget st id = Some o ->
  step dbg st c (Commit id m) = (st', Ok tt) ->
  s_base s = Some (o_lineage o) /\ s_versions s = o_versions o /\
  s_state s = apply_edits (s_edits s) (last_state (o_versions o)).
Proof. exact lineage_known_exact. Qed.
Print Assumptions C14_lineage_known_exact.

(** the formerly known class (fix e1679ed): a staged copy cloned from another lineage of the id -
    the object was purged and created again - is refused whatever the head numbers are *)
Theorem C14_recreated_lineage_refused : forall dbg st c id m s o l,
  mc_inv st -> sget st c id = Some s -> s_base s = Some l -> mget st id = Some o ->
  l <> o_lineage o -> step dbg st c (Commit id m) = (st, Err).
Proof. exact recreated_lineage_refused. Qed.
Print Assumptions C14_recreated_lineage_refused.

(** along any such run the version list of an object lineage only grows at its end; an object
    found under another lineage was created after the run began *)
Theorem C14_versions_append_only : forall dbg es st id o o1,
  mc_inv st -> run_fresh dbg st es = true ->
  mget st id = Some o -> mget (run dbg st es) id = Some o1 ->
  (o_lineage o1 = o_lineage o -> extends_obj o o1) /\
  (o_lineage o1 <> o_lineage o -> mc_next st <= o_lineage o1).
Proof. exact versions_append_only. Qed.
Print Assumptions C14_versions_append_only.

(** after a successful commit of client [a], the commit of any other client [c] whose staged
    copy existed before fails - whatever happens in between, whatever metadata [c] passes -
    unless [c] resets, re-stages after a commit of its own, or the object is purged *)
Theorem C14_no_silent_merge : forall dbg st a c id m sc st1 es m',
  mc_inv st -> a <> c -> sget st c id = Some sc ->
  step_fresh st a (Commit id m) = true -> step dbg st a (Commit id m) = (st1, Ok tt) ->
  run_fresh dbg st1 es = true -> forallb (ev_keeps c id) es = true ->
  step dbg (run dbg st1 es) c (Commit id m') = (run dbg st1 es, Err).
Proof. exact no_silent_merge. Qed.
Print Assumptions C14_no_silent_merge.

(** Non-vacuity and the repaired classes on concrete interleavings. *)
Example C14_recreated_lineage_now_refused :
  let es := wit_base ++ wit_recreate 0 0 3 4 in
  run_fresh true mc_init es = true /\
  step true (run true mc_init es) 0 (Commit wit_id 5) = (run true mc_init es, Err).
Proof. exact recreated_lineage_now_refused. Qed.

Example C14_recreated_same_history_accepted :
  let st := run true mc_init (wit_base ++ wit_recreate 0 0 1 2) in
  run_fresh true mc_init (wit_base ++ wit_recreate 0 0 1 2) = false /\
  snd (step true st 0 (Commit wit_id 5)) = Ok tt /\
  exists o o1, mget st wit_id = Some o /\ mget (fst (step true st 0 (Commit wit_id 5))) wit_id = Some o1 /\
    o_versions o1 = o_versions o ++ [(5, [(b "c.txt", 3); (b "b.txt", 2); (b "a.txt", 1)])] /\
    o_head o1 = mkV 3 0 /\ o_cfg o1 = o_cfg o.
Proof. exact recreated_same_history_accepted. Qed.

Example C14_recreated_same_history_other_config_refused :
  (let st := run true mc_init (wit_base ++ wit_recreate 2 0 1 2) in
   step true st 0 (Commit wit_id 5) = (st, Err)) /\
  (let st := run true mc_init (wit_base ++ wit_recreate 0 1 1 2) in
   step true st 0 (Commit wit_id 5) = (st, Err)).
Proof. exact recreated_same_history_other_config_refused. Qed.

Example C14_race_exactly_one_wins :
  let st := run true mc_init race_prefix in
  run_fresh true mc_init (race_prefix ++ [(0, Commit wit_id 2); (1, Commit wit_id 3)]) = true /\
  run_fresh true mc_init (race_prefix ++ [(1, Commit wit_id 2); (0, Commit wit_id 3)]) = true /\
  run_results true st [(0, Commit wit_id 2); (1, Commit wit_id 3)] = [Ok tt; Err] /\
  run_results true st [(1, Commit wit_id 2); (0, Commit wit_id 3)] = [Ok tt; Err] /\
  (exists o, mget (run true st [(0, Commit wit_id 2); (1, Commit wit_id 3)]) wit_id = Some o /\
             vn_number (o_head o) = 2 /\ List.length (o_versions o) = 2%nat) /\
  (exists s, sget (run true st [(0, Commit wit_id 2); (1, Commit wit_id 3)]) 1 wit_id = Some s /\
             s_state s = [(b "y.txt", 3); (b "a.txt", 1)]).
Proof. exact race_exactly_one_wins. Qed.

Example C14_width2_refuses_v10 :
  let st := run true mc_init width2_run in
  run_fresh true mc_init width2_run = true /\
  (exists o, mget st wit_id = Some o /\ o_head o = mkV 9 2 /\ List.length (o_versions o) = 9%nat) /\
  step true st 1 (Stage wit_id (b "g.txt", Some 77)) = (st, Err) /\
  step false st 1 (Stage wit_id (b "g.txt", Some 77)) = (st, Err).
Proof. exact width2_refuses_v10. Qed.

Example C14_commit_hypotheses_nonvacuous :
  let st := run true mc_init race_prefix in
  mc_inv st /\ (exists s, sget st 1 wit_id = Some s /\ vn_number (s_head s) <> 1) /\
  step_fresh st 1 (Commit wit_id 9) = true /\
  snd (step true st 1 (Commit wit_id 9)) = Ok tt.
Proof. exact commit_nonvacuous. Qed.
