(** C14 - versions advance one at a time and a stale commit is refused.
    Property theorems only; each closed by [exact] of a lemma from Proofs/. *)
From Rocfl Require Import Base.Bytes Model.VersionNum Proofs.VersionNumFacts.
From Rocfl Require Import Model.MultiClient Model.KnownC14 Proofs.MultiClientFacts.
Open Scope N_scope.

(** [vnumok v]: the number is a u32 >= 1 (every number the code can hold); the WIDTH is
    unrestricted - 11, 20, u32::MAX and beyond included - and so is the build mode. *)
Theorem C14_next_is_spec : forall dbg v,
  vnumok v = true -> vnext dbg v = vnext_spec v.
Proof. exact vnext_correct. Qed.
Print Assumptions C14_next_is_spec.

Theorem C14_next_plus_one_keeps_width : forall dbg v v',
  vnumok v = true -> vnext dbg v = Ok v' ->
  vn_number v' = vn_number v + 1 /\ vn_width v' = vn_width v /\ vfits v' = true /\ vnumok v' = true.
Proof. exact vnext_ok_plus_one. Qed.
Print Assumptions C14_next_plus_one_keeps_width.

Theorem C14_next_refuses_past_width_max : forall dbg v,
  vnumok v = true ->
  max_for_width (vn_width v) < vn_number v + 1 -> vnext dbg v = Err.
Proof. exact vnext_refuses_at_max. Qed.
Print Assumptions C14_next_refuses_past_width_max.

(** the executable maximum is the mathematical one: min(u32::MAX, 10^(w-1) - 1) *)
Theorem C14_max_for_width_is_min : forall w,
  1 <= w -> max_for_width w = N.min U32MAX (10 ^ (w - 1) - 1).
Proof. exact max_for_width_min. Qed.
Print Assumptions C14_max_for_width_is_min.

(** no u32 overflow in any build mode, at any width, at any number (u32::MAX included) *)
Theorem C14_next_never_panics : forall dbg v, vnumok v = true -> vnext dbg v <> Panic.
Proof. exact vnext_never_panics. Qed.
Print Assumptions C14_next_never_panics.

Theorem C14_next_same_in_debug_and_release : forall v, vnumok v = true -> vnext true v = vnext false v.
Proof. exact vnext_mode_independent. Qed.
Print Assumptions C14_next_same_in_debug_and_release.

Theorem C14_next_refuses_at_u32_max : forall dbg w, vnext dbg (mkV U32MAX w) = Err.
Proof. exact vnext_number_u32max. Qed.
Print Assumptions C14_next_refuses_at_u32_max.

Theorem C14_display_parse_roundtrip : forall v,
  vwf v = true -> vfits v = true -> vparse (vdisplay v) = Ok v.
Proof. exact vparse_vdisplay. Qed.
Print Assumptions C14_display_parse_roundtrip.

Theorem C14_padded_name_length_constant : forall v,
  vwf v = true -> vfits v = true -> 0 < vn_width v -> blen (vdisplay v) = vn_width v + 1.
Proof. exact vdisplay_length_padded. Qed.
Print Assumptions C14_padded_name_length_constant.

(** Historical note (NOT about the current code): the arithmetic before fix 476b184, kept as
    the separate definition [vnext_before_fix], panicked here in debug builds. *)
Theorem C14_before_fix_width11_panicked : vnext_before_fix true (mkV 1 11) = Panic.
Proof. exact vnext_before_fix_width11_panicked_debug. Qed.
Print Assumptions C14_before_fix_width11_panicked.

(** Non-vacuity: the hypotheses are met by concrete version numbers, inside and outside the
    former overflow class. *)
Example C14_nonvacuous :
  vnumok (mkV 98 3) = true /\ vfits (mkV 98 3) = true /\
  vnext true (mkV 98 3) = Ok (mkV 99 3) /\ vnext true (mkV 99 3) = Err /\
  vnext true (mkV 1 11) = Ok (mkV 2 11) /\ vnext false (mkV 1 11) = Ok (mkV 2 11) /\
  vnext true (mkV 4294967294 4294967295) = Ok (mkV 4294967295 4294967295) /\
  vnext true (mkV 4294967294 0) = Ok (mkV 4294967295 0) /\ vnext true (mkV 4294967295 0) = Err.
Proof. repeat split; vm_compute; reflexivity. Qed.

(** * Second half: clients that share a storage root but use different staging roots
    (Model/MultiClient.v).  An interleaving is any list of (client, operation); states are
    quantified through the invariant [mc_inv] of the states reachable outside the known
    class recreated-lineage ([C14_reachable_invariant]); no restriction on padding widths. *)

Theorem C14_reachable_invariant : forall dbg es,
  run_clean dbg mc_init es = true -> mc_inv (run dbg mc_init es).
Proof. exact reachable_inv. Qed.
Print Assumptions C14_reachable_invariant.

Theorem C14_invariant_preserved : forall dbg es st,
  mc_inv st -> run_clean dbg st es = true -> mc_inv (run dbg st es).
Proof. exact run_inv. Qed.
Print Assumptions C14_invariant_preserved.

(** every reachable object: head number = number of versions (none skipped, none repeated),
    within what its padding width can express *)
Theorem C14_reachable_heads : forall dbg es id o,
  run_clean dbg mc_init es = true -> mget (run dbg mc_init es) id = Some o ->
  vn_number (o_head o) = N.of_nat (List.length (o_versions o)) /\ 1 <= vn_number (o_head o) /\
  vfits (o_head o) = true.
Proof. exact reachable_heads. Qed.
Print Assumptions C14_reachable_heads.

(** a successful commit of a new version changes the main repository at that id only and
    appends exactly one version: number = old head + 1, same width, state = the client's staged
    head state, all earlier versions unchanged; only that client's staged copy is consumed *)
Theorem C14_commit_appends_exactly_next : forall dbg st c id s st',
  mc_inv st -> sget st c id = Some s -> vn_number (s_head s) <> 1 ->
  c14_recreated_lineage st c id = false ->
  step dbg st c (Commit id) = (st', Ok tt) ->
  exists o, mget st id = Some o /\
    mget st' id = Some (mkObj (o_lineage o) (mkV (vn_number (o_head o) + 1) (vn_width (o_head o)))
                              (o_versions o ++ [s_state s])) /\
    (forall id', id' <> id -> mget st' id' = mget st id') /\
    sget st' c id = None /\
    (forall c' id', (c', id') <> (c, id) -> sget st' c' id' = sget st c' id') /\
    mc_next st' = mc_next st.
Proof. exact commit_appends_exactly_next. Qed.
Print Assumptions C14_commit_appends_exactly_next.

(** outside the classifier every successful write_new_version was cloned from exactly the
    object now in the main repository, so the new version's state is the previous head's
    state with the staged changes applied *)
Theorem C14_lineage_known_exact : forall dbg st c id s o st',
  mc_inv st -> sget st c id = Some s -> vn_number (s_head s) <> 1 -> mget st id = Some o ->
  c14_recreated_lineage st c id = false -> step dbg st c (Commit id) = (st', Ok tt) ->
  s_base s = Some (o_lineage o) /\ s_versions s = o_versions o /\
  s_state s = apply_edits (s_edits s) (last_state (o_versions o)).
Proof. exact lineage_known_exact. Qed.
Print Assumptions C14_lineage_known_exact.

(** along any run without the known classes the version list of an object lineage only grows
    at its end; an object found under another lineage was created after the run began *)
Theorem C14_versions_append_only : forall dbg es st id o o1,
  mc_inv st -> run_clean dbg st es = true ->
  mget st id = Some o -> mget (run dbg st es) id = Some o1 ->
  (o_lineage o1 = o_lineage o -> extends_obj o o1) /\
  (o_lineage o1 <> o_lineage o -> mc_next st <= o_lineage o1).
Proof. exact versions_append_only. Qed.
Print Assumptions C14_versions_append_only.

(** the main head is not the staged head - 1 (someone else committed first, or the object is
    gone): Err, and the whole system state - repository and staged changes - is unchanged *)
Theorem C14_stale_commit_refused_unchanged : forall dbg st c id s,
  sget st c id = Some s -> vnumok (s_head s) = true -> vn_number (s_head s) <> 1 ->
  (forall o, mget st id = Some o -> vn_number (o_head o) + 1 <> vn_number (s_head s)) ->
  step dbg st c (Commit id) = (st, Err).
Proof. exact stale_commit_refused_unchanged. Qed.
Print Assumptions C14_stale_commit_refused_unchanged.

(** every refused or aborted operation leaves the repository and all staging roots unchanged *)
Theorem C14_refused_unchanged : forall dbg st c o,
  snd (step dbg st c o) <> Ok tt -> fst (step dbg st c o) = st.
Proof. exact step_refused_unchanged. Qed.
Print Assumptions C14_refused_unchanged.

Theorem C14_new_object_refused_if_exists : forall dbg st c id o,
  mget st id = Some o ->
  (forall w, step dbg st c (New id w) = (st, Err)) /\
  (forall s, sget st c id = Some s -> vn_number (s_head s) = 1 -> step dbg st c (Commit id) = (st, Err)).
Proof. exact new_object_refused_if_exists. Qed.
Print Assumptions C14_new_object_refused_if_exists.

(** after a successful commit of client [a], the commit of any other client [c] whose staged
    copy existed before fails - whatever happens in between - unless [c] resets, re-stages
    after a commit of its own, or the object is purged *)
Theorem C14_no_silent_merge : forall dbg st a c id sc st1 es,
  mc_inv st -> a <> c -> sget st c id = Some sc ->
  step_clean st a (Commit id) = true -> step dbg st a (Commit id) = (st1, Ok tt) ->
  run_clean dbg st1 es = true -> forallb (ev_keeps c id) es = true ->
  c14_recreated_lineage (run dbg st1 es) c id = false ->
  step dbg (run dbg st1 es) c (Commit id) = (run dbg st1 es, Err).
Proof. exact no_silent_merge. Qed.
Print Assumptions C14_no_silent_merge.

(** at the largest number the padding width can express (u32::MAX for widths 0 and above 10)
    a further version cannot even be staged *)
Theorem C14_stage_refused_at_width_max : forall dbg st c id o e,
  mc_inv st -> sget st c id = None -> mget st id = Some o ->
  max_for_width (vn_width (o_head o)) < vn_number (o_head o) + 1 ->
  step dbg st c (Stage id e) = (st, Err).
Proof. exact stage_refused_at_width_max. Qed.
Print Assumptions C14_stage_refused_at_width_max.

(** no operation panics in a reachable state, whatever the padding widths *)
Theorem C14_step_never_panics : forall dbg st c o, mc_inv st -> snd (step dbg st c o) <> Panic.
Proof. exact step_never_panics. Qed.
Print Assumptions C14_step_never_panics.

(** The excluded class is a genuine defect of the modelled code (known finding recreated-lineage):
    a run, clean up to its last step, whose final commit is in the class, succeeds and replaces
    the committed versions of the object in the main repository. *)
Theorem C14_known_recreated_lineage_refuted :
  exists es c id,
    run_clean true mc_init es = true /\
    c14_recreated_lineage (run true mc_init es) c id = true /\
    snd (step true (run true mc_init es) c (Commit id)) = Ok tt /\
    exists o o1, mget (run true mc_init es) id = Some o /\
      mget (fst (step true (run true mc_init es) c (Commit id))) id = Some o1 /\
      o_lineage o1 = o_lineage o /\ ~ extends (o_versions o) (o_versions o1).
Proof. exact recreated_lineage_refuted. Qed.
Print Assumptions C14_known_recreated_lineage_refuted.

(** Non-vacuity. *)
Example C14_race_exactly_one_wins :
  let st := run true mc_init race_prefix in
  run_clean true mc_init (race_prefix ++ [(0, Commit wit_id); (1, Commit wit_id)]) = true /\
  run_clean true mc_init (race_prefix ++ [(1, Commit wit_id); (0, Commit wit_id)]) = true /\
  run_results true st [(0, Commit wit_id); (1, Commit wit_id)] = [Ok tt; Err] /\
  run_results true st [(1, Commit wit_id); (0, Commit wit_id)] = [Ok tt; Err] /\
  (exists o, mget (run true st [(0, Commit wit_id); (1, Commit wit_id)]) wit_id = Some o /\
             vn_number (o_head o) = 2 /\ List.length (o_versions o) = 2%nat) /\
  (exists s, sget (run true st [(0, Commit wit_id); (1, Commit wit_id)]) 1 wit_id = Some s /\
             s_state s = [(b "y.txt", 3); (b "a.txt", 1)]).
Proof. exact race_exactly_one_wins. Qed.

Example C14_width2_refuses_v10 :
  let st := run true mc_init width2_run in
  run_clean true mc_init width2_run = true /\
  (exists o, mget st wit_id = Some o /\ o_head o = mkV 9 2 /\ List.length (o_versions o) = 9%nat) /\
  step true st 1 (Stage wit_id (b "g.txt", Some 77)) = (st, Err) /\
  step false st 1 (Stage wit_id (b "g.txt", Some 77)) = (st, Err).
Proof. exact width2_refuses_v10. Qed.

Example C14_commit_hypotheses_nonvacuous :
  let st := run true mc_init race_prefix in
  mc_inv st /\ (exists s, sget st 1 wit_id = Some s /\ vn_number (s_head s) <> 1) /\
  c14_recreated_lineage st 1 wit_id = false /\
  snd (step true st 1 (Commit wit_id)) = Ok tt.
Proof. exact commit_nonvacuous. Qed.
