(** C15 - an S3 repository behaves like a filesystem repository: the key / prefix / paging
    arithmetic of src/ocfl/store/s3.rs and src/ocfl/paths.rs:113-141.
    Property theorems only; each closed by [exact] of a lemma from Proofs/. *)
From Rocfl Require Import Base.Bytes Generated.Consts Model.S3 Proofs.S3Facts.
Open Scope N_scope.

(** however many keys a listing returns per page (>= 1), the client loop of list_prefix
    collects exactly what a single unbounded answer would give; any number of keys *)
Theorem C15_paging_independent : forall psize keys cprefix path delim, (1 <= psize)%nat ->
  list_paged psize keys cprefix path delim = Some (list_all keys cprefix path delim).
Proof. exact paging_independent_lemma. Qed.
Print Assumptions C15_paging_independent.

(** the unit-test cases of join / join_with_trailing_slash *)
Theorem C15_join_unit_tests :
  join (b "") (b "") = b "" /\ join_ts (b "") (b "") = b "" /\
  join (b "") (b "foo") = b "foo" /\ join_ts (b "") (b "foo") = b "foo/" /\
  join (b "foo") (b "") = b "foo" /\ join_ts (b "foo") (b "") = b "foo/" /\
  join (b "/") (b "foo") = b "/foo" /\ join_ts (b "/") (b "foo") = b "/foo/" /\
  join (b "foo/") (b "bar") = b "foo/bar" /\ join_ts (b "foo/") (b "bar") = b "foo/bar/" /\
  join (b "/foo/") (b "/bar/") = b "/foo/bar/" /\ join_ts (b "/foo/") (b "/bar/") = b "/foo/bar/" /\
  join (b "foo") (b "bar") = b "foo/bar" /\ join_ts (b "foo") (b "bar") = b "foo/bar/".
Proof. exact join_unit_tests. Qed.
Print Assumptions C15_join_unit_tests.

(** general laws: units, exactly one slash at the seam, no double slash, associativity *)
Theorem C15_join_empty_units : forall x, join [] x = x /\ (pfx_ok x = true -> join x [] = x).
Proof. intros x. split; [apply join_nil_l|apply join_nil_r_ok]. Qed.
Print Assumptions C15_join_empty_units.

Theorem C15_join_one_slash_at_seam : forall a x,
  pfx_ok a = true -> a <> [] -> x <> [] -> head_is_slash x = false -> join a x = a ++ slash :: x.
Proof. exact join_rel. Qed.
Print Assumptions C15_join_one_slash_at_seam.

Theorem C15_join_no_double_slash : forall p1 p2,
  no_dslash p1 = true -> no_dslash p2 = true -> no_dslash (join p1 p2) = true.
Proof. exact join_no_dslash. Qed.
Print Assumptions C15_join_no_double_slash.

Theorem C15_join_assoc : forall a x y, relb a = true -> relb x = true -> relb y = true ->
  join (join a x) y = join a (join x y).
Proof. exact join_assoc_rel. Qed.
Print Assumptions C15_join_assoc.

(** the prefix S3Client::new stores (s3.rs:793, since /repo commit 1405318) never ends with a
    slash and differs from the given value by trailing slashes only *)
Theorem C15_client_prefix_trimmed : forall raw,
  pfx_ok (client_prefix raw) = true /\ exists n, raw = client_prefix raw ++ repeat slash n.
Proof. exact client_prefix_spec. Qed.
Print Assumptions C15_client_prefix_trimmed.

(** a prefix given as "pre/", "pre//", ... is the same repository as "pre" (every key and every
    listing below depends on the given value through [client_prefix] only); a value without a
    trailing slash is kept as given (a leading slash included) *)
Theorem C15_prefix_trailing_slashes_irrelevant : forall raw n,
  client_prefix (raw ++ repeat slash n) = client_prefix raw /\
  (pfx_ok raw = true -> client_prefix raw = raw).
Proof. exact client_prefix_trailing_slashes_irrelevant. Qed.
Print Assumptions C15_prefix_trailing_slashes_irrelevant.

(** keys of a directory tree (one join per level, as the upload does) are the prefix joined
    with the slash-separated file paths, and cutting a key back into segments returns the file
    path: files and keys correspond one to one (directories without files have no key);
    for EVERY prefix value the caller may give *)
Theorem C15_keys_tree_bijection : forall raw cs,
  tree_wf (TDir cs) = true ->
  let cprefix := client_prefix raw in
  keys_of_tree cprefix (TDir cs) =
    map (fun pc => (join cprefix (concat_slash (fst pc)), snd pc)) (flatten (TDir cs)) /\
  map (fun kc => (path_of_key cprefix (fst kc), snd kc)) (keys_of_tree cprefix (TDir cs)) =
    map (fun pc => (Ok (fst pc), snd pc)) (flatten (TDir cs)).
Proof. intros raw cs H. apply keys_tree_bijection_lemma; [apply client_prefix_pfx_ok|exact H]. Qed.
Print Assumptions C15_keys_tree_bijection.

(** the prefix_offset slicing strips exactly "prefix/" from every key a listing can return,
    for every prefix value the caller may give (trailing slashes included) *)
Theorem C15_prefix_offset_ok : forall raw path key,
  let cprefix := client_prefix raw in
  starts_with (request_prefix cprefix path) key = true ->
  exists rel, key = under cprefix rel /\
              (head_is_boundary rel = true -> slice_from (prefix_offset cprefix) key = Ok rel).
Proof. intros raw path key. apply prefix_offset_exact, client_prefix_pfx_ok. Qed.
Print Assumptions C15_prefix_offset_ok.

(** ... so a recursive listing returns exactly the keys under the requested path, relative to
    the repository prefix *)
Theorem C15_list_objects_exact : forall keys raw path,
  let cprefix := client_prefix raw in
  keys_boundary_ok cprefix keys ->
  exists rels, list_all keys cprefix path false = Ok (rels, []) /\
               map (under cprefix) rels = filter (starts_with (request_prefix cprefix path)) keys.
Proof. intros keys raw path. apply list_objects_exact_lemma, client_prefix_pfx_ok. Qed.
Print Assumptions C15_list_objects_exact.

(** a path begins with "dir/" exactly when its segments are all segments of [dir] followed by at
    least one more (any strings): a sibling whose NAME merely begins with the same characters
    ("obj10" next to "obj1") is not below it *)
Theorem C15_below_path_segments : forall dir rel,
  starts_with (dir ++ [slash]) rel = true <->
  exists s, s <> [] /\ segments rel = segments dir ++ s.
Proof. exact below_segments. Qed.
Print Assumptions C15_below_path_segments.

(** the recursive listing of a directory path (list_objects, s3.rs:806-808, with the prefix
    built by join_with_trailing_slash, s3.rs:813) returns exactly the stored paths below
    "path/": each once, in key order, nothing of a sibling; every prefix value, every path *)
Theorem C15_list_objects_below_path : forall keys raw path,
  let cprefix := client_prefix raw in
  relb path = true -> keys_boundary_ok cprefix keys ->
  exists rels, list_all keys cprefix path false = Ok (rels, []) /\
    map (under cprefix) rels = filter (starts_with (under cprefix (path ++ [slash]))) keys /\
    forall rel, In rel rels <->
                In (under cprefix rel) keys /\ exists s, s <> [] /\ segments rel = segments path ++ s.
Proof. intros keys raw path. apply list_objects_below_lemma, client_prefix_pfx_ok. Qed.
Print Assumptions C15_list_objects_below_path.

(** the deletion part of purge_object (s3.rs:618-646) without a failing request: succeeds,
    deletes exactly the keys below "<prefix>/<root>/" (one DELETE each, in key order) and keeps
    every other key with its content - as remove_dir_all of the object root does on the file system *)
Theorem C15_purge_delete_exact : forall raw root bk,
  let cprefix := client_prefix raw in
  relb root = true -> keys_boundary_ok cprefix (bk_keys bk) ->
  let out := purge_delete None cprefix root (init_st bk) in
  fst out = Ok tt /\
  st_b (snd out) = filter (fun kv => negb (starts_with (under cprefix (root ++ [slash])) (fst kv))) bk /\
  st_log (snd out) = map RDelete (filter (starts_with (under cprefix (root ++ [slash]))) (bk_keys bk)).
Proof. intros raw root bk. apply purge_delete_exact_lemma, client_prefix_pfx_ok. Qed.
Print Assumptions C15_purge_delete_exact.

(** purge_object (s3.rs:593-646, /repo commits 900305c, 2517003) for an ARBITRARY id [oid] whose looked-up
    root is [mapped] (any string the layout may produce), any inventory contents ([inv_id]), no
    failing request.  A root that fails validate_object_root (a ".." / "." / empty part,
    extensions/, nested within another object) is refused and nothing changes. *)
Theorem C15_purge_refused : forall inv_id raw oid mapped bk,
  s3_validate_object_root (bk_keys bk) (client_prefix raw) (trim_trailing_slashes mapped) = Err ->
  purge_object inv_id None (client_prefix raw) oid mapped (init_st bk) = (Err, init_st bk).
Proof. intros inv_id raw oid mapped bk. apply purge_refused_lemma. Qed.
Print Assumptions C15_purge_refused.

(** Otherwise it succeeds, and - with [objs] the keys directly in the root and [below] all stored
    paths below it - the bucket is left alone exactly when the root is an object directory whose
    inventory names ANOTHER id, or is no object directory while an object is declared somewhere
    below it ([purge_spared]); in every other case exactly the subtree below "<prefix>/<root>/"
    is deleted, one DELETE per key, and every other key keeps its content: only the object that
    was asked for (or a remnant at its root that belongs to no object) is removed. *)
Theorem C15_purge_exact : forall inv_id raw oid mapped bk objs dirs,
  let cprefix := client_prefix raw in
  let root := trim_trailing_slashes mapped in
  keys_boundary_ok cprefix (bk_keys bk) ->
  s3_validate_object_root (bk_keys bk) cprefix root = Ok tt ->
  list_all (bk_keys bk) cprefix root true = Ok (objs, dirs) ->
  exists below, list_all (bk_keys bk) cprefix root false = Ok (below, []) /\
    map (under cprefix) below = filter (starts_with (under cprefix (root ++ [slash]))) (bk_keys bk) /\
    let out := purge_object inv_id None cprefix oid mapped (init_st bk) in
    fst out = Ok tt /\
    (purge_spared inv_id bk cprefix oid root objs below = true -> snd out = init_st bk) /\
    (purge_spared inv_id bk cprefix oid root objs below = false ->
       st_b (snd out) = filter (fun kv => negb (starts_with (under cprefix (root ++ [slash])) (fst kv))) bk /\
       st_log (snd out) = map RDelete (filter (starts_with (under cprefix (root ++ [slash]))) (bk_keys bk))).
Proof. intros inv_id raw oid mapped bk objs dirs cprefix root. apply purge_guarded_lemma, client_prefix_pfx_ok. Qed.
Print Assumptions C15_purge_exact.

(** the guards on concrete buckets: a directory other objects are stored beneath, the root of an
    object with another id, a path inside another object, extensions, "..", the object itself
    (also looked up as "coll/obj1//"; a leading slash is refused), nothing stored *)
Theorem C15_purge_guard_cases :
  let inv_id := fun tok : bytes => match tok with c :: r => if Ascii.eqb c "I"%char then Some r else None | [] => None end in
  let bk := [(b "p/coll/obj1/0=ocfl_object_1.0", b "x"); (b "p/coll/obj1/inventory.json", b "Icoll/obj1");
             (b "p/coll/obj1/v1/content/a", b "y"); (b "p/1/0=ocfl_object_1.1", b "x"); (b "p/1/inventory.json", b "Iurn:obj:1");
             (b "p/extensions/0002-flat-direct-storage-layout/config.json", b "c")] in
  let run := fun oid mapped => purge_object inv_id None (b "p") oid mapped (init_st bk) in
  run (b "coll") (b "coll") = (Ok tt, init_st bk) /\
  run (b "other:1") (b "1") = (Ok tt, init_st bk) /\
  run (b "coll/obj1/v1") (b "coll/obj1/v1") = (Err, init_st bk) /\
  run (b "extensions") (b "extensions") = (Err, init_st bk) /\
  run (b "../x") (b "../x") = (Err, init_st bk) /\
  bk_keys (st_b (snd (run (b "urn:obj:1") (b "1")))) =
    [b "p/coll/obj1/0=ocfl_object_1.0"; b "p/coll/obj1/inventory.json"; b "p/coll/obj1/v1/content/a";
     b "p/extensions/0002-flat-direct-storage-layout/config.json"] /\
  bk_keys (st_b (snd (run (b "coll/obj1") (b "coll/obj1//")))) =
    [b "p/1/0=ocfl_object_1.1"; b "p/1/inventory.json"; b "p/extensions/0002-flat-direct-storage-layout/config.json"] /\
  run (b "/coll/obj1") (b "/coll/obj1") = (Err, init_st bk) /\
  run (b "nothing") (b "nothing") = (Ok tt, mkSt bk 0 []).
Proof. exact purge_guard_cases. Qed.
Print Assumptions C15_purge_guard_cases.

(** every root S3OcflStore::write_new_object accepts for a new object (validate_object_root,
    s3.rs:242-274) is a normalised relative path - no empty, "." or ".." part, hence not empty
    and no slash at either end - outside extensions/: the hypothesis [relb root] of the listing
    and purge theorems above holds for every object the store itself created *)
Theorem C15_validated_root_is_relative : forall keys raw root,
  s3_validate_object_root keys (client_prefix raw) root = Ok tt ->
  relb root = true /\ Forall plain_part (segments root) /\ hd [] (segments root) <> K_EXTENSIONS_DIR.
Proof. intros keys raw root. apply validated_root_lemma. Qed.
Print Assumptions C15_validated_root_is_relative.

Theorem C15_validate_root_cases :
  let keys := [b "p/obj1/0=ocfl_object_1.0"; b "p/obj1/v1/content/a"; b "p/coll/obj2/0=ocfl_object_1.1"] in
  s3_validate_object_root keys (b "p") (b "obj10") = Ok tt /\
  s3_validate_object_root keys (b "p") (b "coll/obj3") = Ok tt /\
  s3_validate_object_root keys (b "p") (b "obj1/sub") = Err /\
  s3_validate_object_root keys (b "p") (b "obj1/v1/content") = Err /\
  s3_validate_object_root keys (b "p") (b "coll/obj2/x") = Err /\
  s3_validate_object_root keys (b "p") (b "extensions/e1") = Err /\
  s3_validate_object_root keys (b "p") (b "../out") = Err /\
  s3_validate_object_root keys (b "p") (b "a//b") = Err /\
  s3_validate_object_root keys (b "p") (b "./x") = Err /\
  s3_validate_object_root keys (b "p") (b "a/b/") = Err /\
  s3_validate_object_root keys (b "p") (b "") = Err.
Proof. exact validate_root_cases. Qed.
Print Assumptions C15_validate_root_cases.

(** the former known finding prefix-trailing-slash as a regression statement: prefixes given
    as "pre/", "pre//", "/" (only slashes = bucket root) and "/pre" (leading slash kept) *)
Theorem C15_prefix_slash_cases :
  client_prefix (b "pre/") = b "pre" /\ client_prefix (b "pre//") = b "pre" /\
  client_prefix (b "/") = b "" /\ client_prefix (b "//") = b "" /\
  client_prefix (b "/pre") = b "/pre" /\ client_prefix (b "//pre/") = b "//pre" /\
  client_prefix (b "a//b/") = b "a//b" /\
  (let cp := client_prefix (b "pre/") in let key := b "pre/0=ocfl_1.0" in
   key = join cp (b "0=ocfl_1.0") /\ list_all [key] cp [] true = Ok ([b "0=ocfl_1.0"], [])) /\
  (let cp := client_prefix (b "/") in let key := b "0=ocfl_1.0" in
   key = join cp (b "0=ocfl_1.0") /\ list_all [key] cp [] true = Ok ([b "0=ocfl_1.0"], [])) /\
  (let cp := client_prefix (b "/pre") in let key := b "/pre/a/0=ocfl_object_1.0" in
   key = join cp (b "a/0=ocfl_object_1.0") /\ list_all [key] cp [] true = Ok ([], [b "a"]) /\
   list_all [key] cp (b "a") false = Ok ([b "a/0=ocfl_object_1.0"], [])).
Proof. exact prefix_slash_cases. Qed.
Print Assumptions C15_prefix_slash_cases.

(** Non-vacuity: the hypotheses are met by a concrete repository *)
Example C15_nonvacuous :
  let keys := [b "pre/0=ocfl_1.1"; b "pre/a/0=ocfl_object_1.1"; b "pre/a/inventory.json"; b "pre/a/v1/content/x"; b "pre/b/c/0=ocfl_object_1.0"] in
  client_prefix (b "pre") = b "pre" /\ client_prefix (b "pre/") = b "pre" /\
  list_paged 2 keys (b "pre") [] true = Some (Ok ([b "0=ocfl_1.1"], [b "a"; b "b"])) /\
  list_all keys (b "pre") (b "a") false = Ok ([b "a/0=ocfl_object_1.1"; b "a/inventory.json"; b "a/v1/content/x"], []) /\
  tree_wf (TDir [(b "a", TDir [(b "x", TFile (b "1")); (b "empty", TDir [])]); (b "f", TFile (b "2"))]) = true /\
  keys_of_tree (b "pre") (TDir [(b "a", TDir [(b "x", TFile (b "1")); (b "empty", TDir [])]); (b "f", TFile (b "2"))])
    = [(b "pre/a/x", b "1"); (b "pre/f", b "2")] /\
  scan_roots 100 keys (b "pre") = Some (Ok ([b "a"; b "b/c"], [[]; b "a"; b "b"; b "b/c"])).
Proof. repeat split; vm_compute; reflexivity. Qed.

(** Non-vacuity of the purge theorem: object roots where one is a string prefix of the others *)
Example C15_purge_nonvacuous :
  let bk := [(b "p/obj1-copy/inventory.json", b "1"); (b "p/obj1/0=ocfl_object_1.0", b "2");
             (b "p/obj1/v1/content/a", b "3"); (b "p/obj10/inventory.json", b "4"); (b "p/obj1x/v1/content/a", b "5")] in
  relb (b "obj1") = true /\
  list_all (bk_keys bk) (client_prefix (b "p/")) (b "obj1") false = Ok ([b "obj1/0=ocfl_object_1.0"; b "obj1/v1/content/a"], []) /\
  fst (purge_delete None (client_prefix (b "p/")) (b "obj1") (init_st bk)) = Ok tt /\
  st_b (snd (purge_delete None (client_prefix (b "p/")) (b "obj1") (init_st bk))) =
    [(b "p/obj1-copy/inventory.json", b "1"); (b "p/obj10/inventory.json", b "4"); (b "p/obj1x/v1/content/a", b "5")] /\
  segments (b "obj10/inventory.json") = [b "obj10"; b "inventory.json"].
Proof. repeat split; vm_compute; reflexivity. Qed.
