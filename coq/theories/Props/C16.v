(** C16 - S3 commits install the root inventory last and clean up after failures.
    Property theorems only; each closed by [exact] of a lemma from Proofs/.

    State of /repo: commits 4953bf6 (upload_all_files_with_rollback uploads the inventory of the
    uploaded directory and then its sidecar last) and 9053efb (write_new_version reads what it is
    about to replace and puts it back when the install fails) repaired the two classes that used
    to be excluded here (new-object-walk-order, root-inventory-rollback); commit 862b96a moved
    those reads before the upload, so that a failing READ leaves nothing behind either (between
    9053efb and 862b96a a failing GET after the upload left the keys of vN in the bucket).  No theorem carries a
    classifier hypothesis any more; Model/KnownS3.v is gone.

    Failure model: [write_new_version (Some k)] = the k-th MUTATING request of the commit (PUT,
    multipart create / part / complete, DELETE - the requests the property quantifies over) fails
    once and has no effect.  A second failure in the same commit - in particular of a request that
    puts something back during the rollback - is outside this single-failure model (the code
    logs it and goes on, s3.rs:629-657).  [write_new_version fa (Some j)] = the j-th READ of the
    commit (GET of the root inventory, of the root sidecar, the find_files listing of an upgrade,
    GET of an old declaration) fails; the theorems about [fa] take [fr = None] and vice versa.
    The staged version lives in the staging directory of the file system and is not touched by
    the S3 store (commit_inner purges it only after the store call succeeded, repo.rs:1123-1130); that it
    is kept is observed by the check, not modelled here. *)
From Rocfl Require Import Base.Bytes Generated.Consts Model.S3 Proofs.S3Facts Proofs.S3CommitFacts.
From Coq Require Import Permutation.
Open Scope N_scope.

(** fault-free commit of a new version from a ready bucket ([nv_ready]: nothing below <root>/vN/,
    the root inventory and its sidecar exist): it succeeds, and its requests are exactly - the
    GETs of what will be replaced, then everything below <root>/vN/ (the version's own inventory
    and sidecar last), then the root inventory.json, then the root sidecar, then (only when the
    spec version changes) the declaration swap, which stores nothing but the new declaration *)
Theorem C16_root_inventory_last : forall cprefix i bk,
  nv_wf cprefix i -> nv_ready cprefix i bk ->
  let out := write_new_version None None cprefix i (init_st bk) in
  let up := upload_reqs cprefix (vdst_of i) (upload_order (nv_files i)) in
  exists gets tail,
    fst out = Ok tt /\
    st_log (snd out) = gets ++ up ++ put_reqs (inv_key cprefix i) (uf_len (nv_inv i))
                          ++ put_reqs (sc_key cprefix i) (uf_len (nv_sidecar i)) ++ tail /\
    Forall (fun r => is_get r = true) gets /\
    Forall (fun r => starts_with (request_prefix cprefix (vdst_of i)) (req_key r) = true) up /\
    Forall (swap_req_ok cprefix (nv_root i) (nv_upgrade i)) tail /\
    (nv_upgrade i = None -> tail = [] /\ gets = [RGet (inv_key cprefix i); RGet (sc_key cprefix i)]).
Proof. exact root_inventory_last_version. Qed.
Print Assumptions C16_root_inventory_last.

(** and the root inventory key is not one of the keys below <root>/vN/ *)
Theorem C16_root_inventory_key_outside_version : forall cprefix root vstr name,
  pfx_ok cprefix = true -> relb root = true -> relb vstr = true -> relb name = true ->
  starts_with (vstr ++ [slash]) name = false ->
  starts_with (request_prefix cprefix (join root vstr)) (join cprefix (join root name)) = false.
Proof. exact inv_key_not_under. Qed.
Print Assumptions C16_root_inventory_key_outside_version.

(** the upload order is a rearrangement of the directory walk: nothing is lost or invented *)
Theorem C16_upload_order_complete : forall files, Permutation (upload_order files) files.
Proof. exact upload_order_perm. Qed.
Print Assumptions C16_upload_order_complete.

(** new objects, for EVERY directory walk (no excluded class any more): the commit succeeds and its
    requests are those of the files that are neither the root inventory nor a root sidecar (in
    walk order), then the root inventory.json, then its sidecar *)
Theorem C16_root_inventory_last_new_object : forall cprefix root files bk,
  clear_under cprefix root bk ->
  let out := write_new_object None cprefix root files (init_st bk) in
  exists others invs sidecars,
    fst out = Ok tt /\
    st_log (snd out) = upload_reqs cprefix root others ++ upload_reqs cprefix root invs ++ upload_reqs cprefix root sidecars /\
    Permutation (others ++ invs ++ sidecars) files /\
    Forall (fun f => uf_rel f <> K_INVENTORY_FILE /\ starts_with K_INVENTORY_SIDECAR_PREFIX (uf_rel f) = false) others /\
    Forall (fun f => uf_rel f = K_INVENTORY_FILE) invs /\
    Forall (fun f => starts_with K_INVENTORY_SIDECAR_PREFIX (uf_rel f) = true /\ uf_rel f <> K_INVENTORY_FILE) sidecars.
Proof. exact root_inventory_last_object. Qed.
Print Assumptions C16_root_inventory_last_new_object.

(** ... and every file below <vstr>/ is among the first group, whatever the version directory
    is called (zero-padded or not), as long as its name does not begin with "inventory.json." *)
Theorem C16_version_files_before_root_inventory : forall vstr rel,
  starts_with K_INVENTORY_SIDECAR_PREFIX vstr = false ->
  starts_with (vstr ++ [slash]) rel = true -> upload_rank rel = 0.
Proof. exact version_files_rank_0. Qed.
Print Assumptions C16_version_files_before_root_inventory.

(** a single failing request of a version commit, at EVERY position k - upload (PUT, multipart
    create / part / complete), root inventory, root sidecar, new declaration of an upgrade, DELETE
    of an old declaration: if request k was reached the commit reports an error, every key of the
    bucket - earlier versions, the previous root inventory and sidecar, the declaration, other
    objects - reads as before the commit, and nothing is left below <root>/vN/; if the commit has
    no request k it succeeds *)
Theorem C16_fault_cleanup : forall cprefix i bk k,
  nv_wf cprefix i -> nv_ready cprefix i bk ->
  let out := write_new_version (Some k) None cprefix i (init_st bk) in
  (k < st_n (snd out) ->
     fst out = Err /\
     (forall x, bk_get x (st_b (snd out)) = bk_get x bk) /\
     (forall x, starts_with (request_prefix cprefix (vdst_of i)) x = true -> bk_get x (st_b (snd out)) = None)) /\
  (st_n (snd out) <= k -> fst out = Ok tt).
Proof. exact fault_cleanup_version. Qed.
Print Assumptions C16_fault_cleanup.

(** after a failed commit the bucket is ready again and the retried commit succeeds *)
Theorem C16_retry_succeeds : forall cprefix i bk k,
  nv_wf cprefix i -> nv_ready cprefix i bk ->
  let out := write_new_version (Some k) None cprefix i (init_st bk) in
  fst out <> Ok tt ->
  nv_ready cprefix i (st_b (snd out)) /\
  fst (write_new_version None None cprefix i (init_st (st_b (snd out)))) = Ok tt.
Proof. exact retry_succeeds. Qed.
Print Assumptions C16_retry_succeeds.

(** the same for a new object, for every request of the upload *)
Theorem C16_fault_cleanup_new_object : forall cprefix root files bk k,
  pfx_ok cprefix = true -> relb root = true -> Forall (fun f => relb (uf_rel f) = true) files ->
  clear_under cprefix root bk -> k < upload_cost files ->
  let out := write_new_object (Some k) cprefix root files (init_st bk) in
  fst out = Err /\ (forall x, bk_get x (st_b (snd out)) = bk_get x bk).
Proof. exact fault_cleanup_object. Qed.
Print Assumptions C16_fault_cleanup_new_object.

(** a commit refused by the emptiness test sends no request *)
Theorem C16_refused_commit_sends_nothing : forall fa fr cprefix i s,
  listing_empty (list_all (bk_keys (st_b s)) cprefix (vdst_of i) true) <> Ok true ->
  fst (write_new_version fa fr cprefix i s) <> Ok tt /\ snd (write_new_version fa fr cprefix i s) = s.
Proof. exact write_new_version_refused. Qed.
Print Assumptions C16_refused_commit_sends_nothing.

(** a failing READ of a version commit (commit 862b96a: all reads precede the first write), for
    every read position and any state: either this commit has no such read and runs as if none
    had failed, or it ends with an error having sent GETs only - bucket and request counter
    are literally those of before *)
Theorem C16_read_fault_harmless : forall fa fr cprefix i s,
  let out := write_new_version fa fr cprefix i s in
  out = write_new_version fa None cprefix i s \/ (fst out = Err /\ quiet s (snd out)).
Proof. exact read_fault_harmless. Qed.
Print Assumptions C16_read_fault_harmless.

(** ... and the retried commit succeeds *)
Theorem C16_read_fault_retry : forall fa fr cprefix i bk,
  nv_wf cprefix i -> nv_ready cprefix i bk ->
  let out := write_new_version fa fr cprefix i (init_st bk) in
  out <> write_new_version fa None cprefix i (init_st bk) ->
  fst out = Err /\ st_b (snd out) = bk /\ st_n (snd out) = 0 /\
  Forall (fun r => is_get r = true) (st_log (snd out)) /\
  fst (write_new_version None None cprefix i (init_st (st_b (snd out)))) = Ok tt.
Proof. exact read_fault_retry. Qed.
Print Assumptions C16_read_fault_retry.

(* ---- historical notes: what the code did BEFORE the repairs, about the separate definitions
   [..._before_fix] of Model/S3.v (nothing else depends on them) *)

(** before 9053efb a failed root sidecar PUT made the rollback delete the root inventory.json *)
Theorem C16_root_inventory_rollback_before_fix :
  let out := write_new_version_before_fix (Some 4) (b "pre") wit_input (init_st wit_bucket) in
  fst out = Err /\
  bk_get (b "pre/o1/inventory.json") wit_bucket = Some (b "inv1") /\
  bk_get (b "pre/o1/inventory.json") (st_b (snd out)) = None /\
  bk_get (b "pre/o1/inventory.json.sha512") (st_b (snd out)) = Some (b "sc1").
Proof. exact root_inventory_rollback_before_fix. Qed.
Print Assumptions C16_root_inventory_rollback_before_fix.

(** before 9053efb a failed PUT of the new declaration left v2 installed under the old one *)
Theorem C16_upgrade_swap_before_fix :
  let out := write_new_version_before_fix (Some 4) (b "pre") wit_upgrade (init_st wit_bucket) in
  fst out = Err /\
  bk_get (b "pre/o1/inventory.json") (st_b (snd out)) = Some (b "inv2") /\
  bk_get (b "pre/o1/0=ocfl_object_1.0") (st_b (snd out)) = Some (b "decl") /\
  bk_get (b "pre/o1/0=ocfl_object_1.1") (st_b (snd out)) = None.
Proof. exact upgrade_swap_before_fix. Qed.
Print Assumptions C16_upgrade_swap_before_fix.

(** before 4953bf6 the zero-padded walk stored the root inventory first *)
Theorem C16_new_object_walk_order_before_fix :
  st_log (snd (write_new_object_before_fix None [] (b "o1") wit_walk (init_st []))) =
    [RPut (b "o1/inventory.json"); RPut (b "o1/v01/inventory.json"); RPut (b "o1/v01/content/a.txt");
     RPut (b "o1/v01/inventory.json.sha256"); RPut (b "o1/inventory.json.sha256"); RPut (b "o1/0=ocfl_object_1.0")].
Proof. exact new_object_walk_order_before_fix. Qed.
Print Assumptions C16_new_object_walk_order_before_fix.

(* ---- non-vacuity and samples on the inputs of the two repaired classes *)

(** the hypotheses of the theorems are met by a plain commit and by an upgrade *)
Example C16_nonvacuous :
  (nv_wf (b "pre") wit_input /\ nv_ready (b "pre") wit_input wit_bucket) /\
  (nv_wf (b "pre") wit_upgrade /\ nv_ready (b "pre") wit_upgrade wit_bucket).
Proof. split; [exact wit_input_wf|exact wit_upgrade_wf]. Qed.
Print Assumptions C16_nonvacuous.

(** the failed root sidecar PUT: the previous root inventory pair is put back, v2 is deleted *)
Example C16_sidecar_fault_sample :
  let out := write_new_version (Some 4) None (b "pre") wit_input (init_st wit_bucket) in
  fst out = Err /\ bk_equiv (st_b (snd out)) wit_bucket = true /\
  st_log (snd out) =
    [RGet (b "pre/o1/inventory.json"); RGet (b "pre/o1/inventory.json.sha512");
     RPut (b "pre/o1/v2/content/b.txt"); RPut (b "pre/o1/v2/inventory.json"); RPut (b "pre/o1/v2/inventory.json.sha512");
     RPut (b "pre/o1/inventory.json"); RPut (b "pre/o1/inventory.json.sha512");
     RPut (b "pre/o1/inventory.json"); RPut (b "pre/o1/inventory.json.sha512");
     RDelete (b "pre/o1/v2/content/b.txt"); RDelete (b "pre/o1/v2/inventory.json");
     RDelete (b "pre/o1/v2/inventory.json.sha512")].
Proof. exact sidecar_fault_sample. Qed.
Print Assumptions C16_sidecar_fault_sample.

(** an upgrade has six mutating requests; each of them failed in turn gives an error and the
    bucket of before; position 6 does not exist and the commit succeeds *)
Example C16_upgrade_sweep_sample :
  forallb (fun k => let out := write_new_version (Some k) None (b "pre") wit_upgrade (init_st wit_bucket) in
                    is_err (fst out) && bk_equiv (st_b (snd out)) wit_bucket && (k <? st_n (snd out)))
          [0; 1; 2; 3; 4; 5] = true /\
  fst (write_new_version (Some 6) None (b "pre") wit_upgrade (init_st wit_bucket)) = Ok tt.
Proof. destruct upgrade_sweep_sample as (_ & A & B & _). split; assumption. Qed.
Print Assumptions C16_upgrade_sweep_sample.

(** the zero-padded walk of a new object: root inventory last but one, its sidecar last *)
Example C16_new_object_walk_sample :
  st_log (snd (write_new_object None [] (b "o1") wit_walk (init_st []))) =
    [RPut (b "o1/v01/inventory.json"); RPut (b "o1/v01/content/a.txt"); RPut (b "o1/v01/inventory.json.sha256");
     RPut (b "o1/0=ocfl_object_1.0"); RPut (b "o1/inventory.json"); RPut (b "o1/inventory.json.sha256")].
Proof. exact new_object_walk_sample. Qed.
Print Assumptions C16_new_object_walk_sample.

(** the four reads of that upgrade failed in turn: error, bucket untouched, GETs only; read 4 does not exist *)
Example C16_read_fault_sample :
  forallb (fun j => let out := write_new_version None (Some j) (b "pre") wit_upgrade (init_st wit_bucket) in
                    is_err (fst out) && bk_equiv (st_b (snd out)) wit_bucket && (st_n (snd out) =? 0)
                    && forallb is_get (st_log (snd out)))
          [0; 1; 2; 3] = true /\
  fst (write_new_version None (Some 4) (b "pre") wit_upgrade (init_st wit_bucket)) = Ok tt.
Proof. exact read_fault_sample. Qed.
Print Assumptions C16_read_fault_sample.
