(** C16 - S3 commits install the root inventory last and clean up after failures.
    Property theorems only; each closed by [exact] of a lemma from Proofs/. *)
From Rocfl Require Import Base.Bytes Generated.Consts Model.S3 Model.KnownS3 Proofs.S3Facts Proofs.S3CommitFacts.
Open Scope N_scope.

(** fault-free commit of a new version: the mutating requests are exactly - everything below
    <root>/vN/ in walk order, then the root inventory.json, then the root sidecar, then (only
    when the spec version changes) the declaration swap, which stores nothing but the new
    declaration *)
Theorem C16_root_inventory_last : forall cprefix i bk,
  nv_wf cprefix i -> clear_under cprefix (vdst_of i) bk ->
  let out := write_new_version None cprefix i (init_st bk) in
  let up := upload_reqs cprefix (vdst_of i) (nv_files i) in
  let inv_key := join cprefix (join (nv_root i) K_INVENTORY_FILE) in
  let sc_key := join cprefix (join (nv_root i) (uf_rel (nv_sidecar i))) in
  exists tail,
    st_log (snd out) = up ++ put_reqs inv_key (uf_len (nv_inv i)) ++ put_reqs sc_key (uf_len (nv_sidecar i)) ++ tail /\
    Forall (fun r => starts_with (request_prefix cprefix (vdst_of i)) (req_key r) = true) up /\
    Forall (swap_req_ok cprefix (nv_root i) (nv_upgrade i)) tail /\
    (nv_upgrade i = None -> fst out = Ok tt /\ tail = []).
Proof. exact root_inventory_last_version. Qed.
Print Assumptions C16_root_inventory_last.

(** and the root inventory key is not one of the keys below <root>/vN/ *)
Theorem C16_root_inventory_key_outside_version : forall cprefix root vstr name,
  pfx_ok cprefix = true -> relb root = true -> relb vstr = true -> relb name = true ->
  starts_with (vstr ++ [slash]) name = false ->
  starts_with (request_prefix cprefix (join root vstr)) (join cprefix (join root name)) = false.
Proof. exact inv_key_not_under. Qed.
Print Assumptions C16_root_inventory_key_outside_version.

(** new objects are uploaded in directory-walk order; outside the known class (the walk
    happens to list the root inventory after the version directory and before its sidecar)
    the same order holds *)
Theorem C16_root_inventory_last_new_object : forall cprefix root vstr sidecar files bk,
  clear_under cprefix root bk ->
  c16_new_object_walk_order vstr sidecar (map uf_rel files) = false ->
  let out := write_new_object None cprefix root files (init_st bk) in
  exists fb inv fa,
    files = fb ++ inv :: fa /\ uf_rel inv = K_INVENTORY_FILE /\
    st_log (snd out) = upload_reqs cprefix root fb ++ put_reqs (join cprefix (join root K_INVENTORY_FILE)) (uf_len inv)
                        ++ upload_reqs cprefix root fa /\
    Forall (fun f => starts_with (vstr ++ [slash]) (uf_rel f) = false) fa /\
    Forall (fun f => uf_rel f <> sidecar) fb.
Proof. exact root_inventory_last_object. Qed.
Print Assumptions C16_root_inventory_last_new_object.

(** inside that class the pinned code stores the root inventory first: known finding *)
Theorem C16_new_object_walk_order_refuted :
  c16_new_object_walk_order (b "v01") (b "inventory.json.sha256") (map uf_rel wit_walk) = true /\
  st_log (snd (write_new_object None [] (b "o1") wit_walk (init_st []))) =
    [RPut (b "o1/inventory.json"); RPut (b "o1/v01/inventory.json"); RPut (b "o1/v01/content/a.txt");
     RPut (b "o1/v01/inventory.json.sha256"); RPut (b "o1/inventory.json.sha256"); RPut (b "o1/0=ocfl_object_1.0")].
Proof. exact new_object_walk_witness. Qed.
Print Assumptions C16_new_object_walk_order_refuted.

(** a single failing request, outside the known class (= up to and including the PUT of the
    root inventory; PUT, multipart create / part / complete alike): the commit reports an error,
    every key of the bucket - earlier versions, the previous root inventory and sidecar, other
    objects - reads as before, and nothing is left below <root>/vN/ *)
Theorem C16_fault_cleanup : forall cprefix i bk k,
  nv_wf cprefix i -> clear_under cprefix (vdst_of i) bk -> c16_root_inventory_rollback i k = false ->
  let out := write_new_version (Some k) cprefix i (init_st bk) in
  fst out = Err /\
  (forall x, bk_get x (st_b (snd out)) = bk_get x bk) /\
  (forall x, starts_with (request_prefix cprefix (vdst_of i)) x = true -> bk_get x (st_b (snd out)) = None).
Proof. exact fault_cleanup_version. Qed.
Print Assumptions C16_fault_cleanup.

(** the same for a new object, for every request of the upload (no excluded class) *)
Theorem C16_fault_cleanup_new_object : forall cprefix root files bk k,
  pfx_ok cprefix = true -> relb root = true -> Forall (fun f => relb (uf_rel f) = true) files ->
  clear_under cprefix root bk -> k < upload_cost files ->
  let out := write_new_object (Some k) cprefix root files (init_st bk) in
  fst out = Err /\ (forall x, bk_get x (st_b (snd out)) = bk_get x bk).
Proof. exact fault_cleanup_object. Qed.
Print Assumptions C16_fault_cleanup_new_object.

(** a commit refused by the emptiness test sends no mutating request *)
Theorem C16_refused_commit_sends_nothing : forall fa cprefix i s,
  listing_empty (list_all (bk_keys (st_b s)) cprefix (vdst_of i) true) <> Ok true ->
  fst (write_new_version fa cprefix i s) <> Ok tt /\ snd (write_new_version fa cprefix i s) = s.
Proof. exact write_new_version_refused. Qed.
Print Assumptions C16_refused_commit_sends_nothing.

(** inside the class the pinned code violates the property: a failed root sidecar PUT makes the
    rollback delete the root inventory.json that already replaced the previous one (known finding) *)
Theorem C16_fault_cleanup_refuted :
  let out := write_new_version (Some 4) (b "pre") wit_input (init_st wit_bucket) in
  c16_root_inventory_rollback wit_input 4 = true /\
  fst out = Err /\
  bk_get (b "pre/o1/inventory.json") wit_bucket = Some (b "inv1") /\
  bk_get (b "pre/o1/inventory.json") (st_b (snd out)) = None /\
  bk_get (b "pre/o1/inventory.json.sha512") (st_b (snd out)) = Some (b "sc1") /\
  st_log (snd out) =
    [RPut (b "pre/o1/v2/inventory.json"); RPut (b "pre/o1/v2/content/b.txt"); RPut (b "pre/o1/v2/inventory.json.sha512");
     RPut (b "pre/o1/inventory.json"); RPut (b "pre/o1/inventory.json.sha512");
     RDelete (b "pre/o1/v2/inventory.json"); RDelete (b "pre/o1/v2/content/b.txt");
     RDelete (b "pre/o1/v2/inventory.json.sha512"); RDelete (b "pre/o1/inventory.json")].
Proof. exact fault_cleanup_refuted_witness. Qed.
Print Assumptions C16_fault_cleanup_refuted.

(** same class, upgrade: a failed PUT of the new declaration leaves v2 installed under the old one *)
Theorem C16_upgrade_swap_refuted :
  let out := write_new_version (Some 4) (b "pre") wit_upgrade (init_st wit_bucket) in
  c16_root_inventory_rollback wit_upgrade 4 = true /\ fst out = Err /\
  bk_get (b "pre/o1/inventory.json") (st_b (snd out)) = Some (b "inv2") /\
  bk_get (b "pre/o1/0=ocfl_object_1.0") (st_b (snd out)) = Some (b "decl") /\
  bk_get (b "pre/o1/0=ocfl_object_1.1") (st_b (snd out)) = None.
Proof. exact upgrade_fault_witness. Qed.
Print Assumptions C16_upgrade_swap_refuted.

(** Non-vacuity: the hypotheses of C16_fault_cleanup are met at the boundary of the class
    (request 3 = the PUT of the root inventory), and the fault-free run succeeds *)
Example C16_nonvacuous :
  c16_root_inventory_rollback wit_input 3 = false /\
  nv_wf (b "pre") wit_input /\ clear_under (b "pre") (vdst_of wit_input) wit_bucket /\
  fst (write_new_version (Some 3) (b "pre") wit_input (init_st wit_bucket)) = Err /\
  fst (write_new_version None (b "pre") wit_input (init_st wit_bucket)) = Ok tt /\
  bk_get (b "pre/o1/inventory.json") (st_b (snd (write_new_version None (b "pre") wit_input (init_st wit_bucket)))) = Some (b "inv2").
Proof.
  destruct fault_cleanup_boundary_witness as (A & B & C).
  split; [exact A|]. split; [exact B|]. split; [exact C|].
  split; [vm_compute; reflexivity|]. split; vm_compute; reflexivity.
Qed.
