(** C17 - validate always terminates with a verdict, whatever is on disk (partial).
    Property theorems only; each closed by [exact] of a lemma from Proofs/VCodeFacts.v.
    Panic freedom, time and memory of the real process are run-time facts: these
    theorems cover the arithmetic and guard logic of the modelled fragments
    (Model/VCode.v); the classes of Model/KnownC17.v are genuine defects. *)
From Rocfl Require Import Base.Bytes Model.VersionNum Model.VCode Model.KnownC17 Proofs.VCodeFacts.
Open Scope N_scope.

(** ** vnums_cost_linear: cost of validate_version_nums (serde.rs:1291-1334) *)

(** the loop (both build modes, any list) emits exactly [vnums_cost] errors *)
Theorem C17_vnums_cost_exact : forall dbg fuel vs,
  1 + nlen vs <= U32MAX ->
  Forall (fun v => vn_number v + nlen vs < U32MAX /\ vn_number v <= N.of_nat fuel) vs ->
  validate_version_nums dbg fuel vs = Ok (vnums_cost (map vn_number vs)).
Proof. exact validate_version_nums_exact. Qed.
Print Assumptions C17_vnums_cost_exact.

(** for the ordered key set of a versions block: highest number - number of keys (sum of the gaps) *)
Theorem C17_vnums_cost_sum_of_gaps : forall vs, incr_from 1 vs -> vs <> [] ->
  vnums_cost vs = last vs 0 - nlen vs.
Proof. exact vnums_cost_sorted. Qed.
Print Assumptions C17_vnums_cost_sum_of_gaps.

Theorem C17_vnums_cost_linear : forall vs,
  c17_version_gap vs = false -> vnums_cost vs <= GAP_BOUND * nlen vs.
Proof. exact vnums_cost_linear_outside_class. Qed.
Print Assumptions C17_vnums_cost_linear.

(** refuted for the pinned code: no constant bounds the cost per key *)
Theorem C17_vnums_cost_linear_refuted : forall c, c + 3 < U32MAX ->
  exists vs, nlen vs = 1 /\ incr_from 1 vs /\ c * nlen vs < vnums_cost vs /\
    forall dbg fuel, last vs 0 <= N.of_nat fuel ->
      validate_version_nums dbg fuel (map (fun n => mkV n 0) vs) = Ok (vnums_cost vs).
Proof. exact vnums_cost_not_linear. Qed.
Print Assumptions C17_vnums_cost_linear_refuted.

Theorem C17_known_v400000000 :
  vnums_cost [400000000] = 399999999 /\ c17_version_gap [400000000] = true /\
  forall dbg fuel, 400000000 <= N.of_nat fuel ->
    validate_version_nums dbg fuel [mkV 400000000 0] = Ok 399999999.
Proof. exact v400000000_witness. Qed.
Print Assumptions C17_known_v400000000.

(** no E010 from the loop => the keys are exactly v1..vn (used by the get_version guard) *)
Theorem C17_vnums_zero_cost_contiguous : forall vs, incr_from 1 vs -> vnums_cost vs = 0 ->
  vs = iota 1 (List.length vs).
Proof. exact vnums_cost_zero_contiguous. Qed.
Print Assumptions C17_vnums_zero_cost_contiguous.

(** ** inventory_new_guarded: serde.rs:395-500 against inventory.rs:95-131 *)

Theorem C17_inventory_new_guarded : forall items r e,
  visit items = (r, e) -> has_errors e = false ->
  (forall i, first_id items = Some i -> c17_blank_id i = false) -> r = PInv.
Proof. exact visit_guarded. Qed.
Print Assumptions C17_inventory_new_guarded.

(** what is guarded: all six Options are Some, algorithm, content directory and head pass;
    the call fails exactly for the empty id *)
Theorem C17_inventory_new_guard_details : forall items st,
  run p0 items = inl st -> has_errors (snd (finish st)) = false ->
  exists id a h nums,
    p_id st = Some id /\ p_type st = true /\ p_alg st = Some a /\ alg_allowed a = true /\
    p_head st = Some h /\ p_manifest st = true /\ p_versions st = Some (nums, nums) /\
    vset_mem h nums = true /\
    (forall d, p_cdir st = Some d -> cdir_kind d = None) /\
    inventory_new id a h (p_cdir st) nums = (if is_nil id then Err else Ok tt).
Proof. exact visit_args. Qed.
Print Assumptions C17_inventory_new_guard_details.

Theorem C17_visit_no_panic : forall items,
  (forall i, first_id items = Some i -> c17_blank_id i = false) -> fst (visit items) <> PPanicked.
Proof. exact visit_no_panic. Qed.
Print Assumptions C17_visit_no_panic.

Theorem C17_known_blank_id_refuted :
  fst (visit (IId (SStr []) :: ok_tail)) = PPanicked /\
  has_errors (snd (visit (IId (SStr []) :: ok_tail))) = false /\
  c17_blank_id [] = true.
Proof. exact blank_id_panics. Qed.
Print Assumptions C17_known_blank_id_refuted.

(** ** get_version_guarded, content_paths_guarded: mod.rs:607-641, 1534-1707 *)

Theorem C17_get_version_guarded : forall dbg root dirs,
  contiguous root -> Forall (dir_ok root) dirs -> desc_from (i_head root) dirs ->
  cross_check dbg root dirs <> XPanic SGetVersion.
Proof. exact cross_check_get_version_guarded. Qed.
Print Assumptions C17_get_version_guarded.

Theorem C17_content_paths_guarded : forall dbg root dirs,
  good root -> Forall (fun d => good (snd d)) dirs ->
  cross_check dbg root dirs <> XPanic SContentPaths.
Proof. exact cross_check_content_paths_guarded. Qed.
Print Assumptions C17_content_paths_guarded.

(** refuted without the classifier: E050 holds (closed) and the unwrap still fails *)
Theorem C17_known_empty_manifest_entry_refuted :
  cross_check false w_root [(1, w_v1)] = XPanic SContentPaths /\
  closed w_root /\ c17_empty_manifest_entry w_root = true /\ contiguous w_root /\ dir_ok w_root (1, w_v1).
Proof. exact empty_manifest_entry_panics. Qed.
Print Assumptions C17_known_empty_manifest_entry_refuted.

(** ** pretty_print_total: types.rs:1343-1356 *)

Theorem C17_pretty_print_total : forall dbg len,
  dbg = false \/ len <> 0 -> pps_panics dbg len = false.
Proof. exact pps_total. Qed.
Print Assumptions C17_pretty_print_total.

Theorem C17_pretty_print_release : forall root dirs,
  cross_check false root dirs <> XPanic SPrettyPrint.
Proof. exact cross_check_pps_release. Qed.
Print Assumptions C17_pretty_print_release.

Theorem C17_pretty_print_guarded : forall dbg root dirs,
  c17_future_content root = false -> Forall (fun d => c17_future_content (snd d) = false) dirs ->
  cross_check dbg root dirs <> XPanic SPrettyPrint.
Proof. exact cross_check_pps_guarded. Qed.
Print Assumptions C17_pretty_print_guarded.

Theorem C17_known_empty_set_reaches_pretty_print :
  cross_check true w2_root [(1, w2_v1)] = XPanic SPrettyPrint /\
  cross_check false w2_root [(1, w2_v1)] = XOk 1 /\
  c17_empty_pps true w2_root = true /\ c17_empty_manifest_entry w2_root = false.
Proof. exact empty_set_reaches_pretty_print. Qed.
Print Assumptions C17_known_empty_set_reaches_pretty_print.

(** ** content_paths_iter_terminates: mod.rs:2092-2113 *)

Theorem C17_content_paths_iter_terminates : forall dbg has fuel n w,
  1 <= n -> n <= N.of_nat fuel + 1 ->
  exists r, cpi_walk vnum_eq_rust dbg fuel (mkV n w) has = Ok r /\
            match r with Some p => vn_number p < n /\ has (vn_number p) = true | None => True end.
Proof. exact cpi_walk_terminates. Qed.
Print Assumptions C17_content_paths_iter_terminates.

Theorem C17_content_paths_iter_needs_number_equality :
  cpi_walk vnum_eqb true 5 (mkV 2 3) (fun _ => false) = Panic /\
  cpi_walk vnum_eq_rust true 5 (mkV 2 3) (fun _ => false) = Ok None.
Proof. exact cpi_walk_strict_eq_panics. Qed.
Print Assumptions C17_content_paths_iter_needs_number_equality.

(** ** iterator_continues: mod.rs:1912-2007 *)

Theorem C17_iterator_continues : forall fuel cur stack,
  (lsize cur + ssize stack < fuel)%nat ->
  iter_run fuel cur stack = objs_list cur ++ flat_map objs_list stack.
Proof. exact iter_run_spec. Qed.
Print Assumptions C17_iterator_continues.

Theorem C17_iterator_continues_after_err : forall pre post item,
  item = TObj false \/ item = TBadDir ->
  exists it, (it = VResult false \/ it = VListErr) /\
  iter_run (S (lsize (pre ++ item :: post))) (pre ++ item :: post) [] =
    objs_list pre ++ it :: objs_list post.
Proof. exact iterator_continues_after_err. Qed.
Print Assumptions C17_iterator_continues_after_err.

(** ** further cost / totality facts found by the search *)

Theorem C17_nonconflict_cost_bounded : forall path,
  c17_quadratic_path (count_slash path) (nlen path) = false -> nonconflict_cost path <= PATH_COST_BOUND.
Proof. exact nonconflict_cost_outside_class. Qed.
Print Assumptions C17_nonconflict_cost_bounded.

Theorem C17_known_nonconflict_quadratic : forall n,
  nonconflict_cost (rep_seg n) = N.of_nat n * N.of_nat n /\ nlen (rep_seg n) = 2 * N.of_nat n.
Proof. exact nonconflict_cost_quadratic. Qed.
Print Assumptions C17_known_nonconflict_quadratic.

Theorem C17_display_total_short : forall s v,
  vparse s = Ok v -> blen s <= FMT_WIDTH_MAX + 1 -> vdisplay_panics v = false.
Proof. exact vdisplay_total_short. Qed.
Print Assumptions C17_display_total_short.

Theorem C17_known_wide_padding :
  exists v, c17_wide_padding v = true /\ vwf v = true /\ vn_number v = 1.
Proof. exact wide_padding_witness. Qed.
Print Assumptions C17_known_wide_padding.

(** ** non-vacuity *)

Example C17_nonvacuous_vnums :
  incr_from 1 [1; 2; 3; 5; 9] /\ c17_version_gap [1; 2; 3; 5; 9] = false /\
  vnums_cost [1; 2; 3; 5; 9] = 4 /\
  validate_version_nums true 10 [mkV 1 0; mkV 2 0; mkV 3 0; mkV 5 0; mkV 9 0] = Ok 4 /\
  vnums_padding [mkV 1 0; mkV 2 2] = (true, false).
Proof. exact vnums_example. Qed.

Example C17_nonvacuous_visit :
  visit (IId (SStr (b "urn:x")) :: ok_tail) = (PInv, [(E010, 0)]).
Proof. exact nonblank_id_ok. Qed.

Example C17_nonvacuous_cross :
  exists root v1, good root /\ good v1 /\ contiguous root /\ dir_ok root (1, v1) /\
    c17_future_content root = false /\ cross_check true root [(1, v1)] = XOk 0.
Proof. exact cross_check_nonvacuous. Qed.

Example C17_nonvacuous_iter :
  iter_run 100 [TObj true; TDir [TObj false; TLeaf; TDir [TBadDir; TObj true]]; TObj true] [] =
  [VResult true; VResult false; VListErr; VResult true; VResult true].
Proof. exact iter_example. Qed.

Example C17_nonvacuous_cpi :
  cpi_walk vnum_eq_rust true 10 (mkV 5 3) (fun n => n =? 2) = Ok (Some (mkV 2 3)).
Proof. exact cpi_example. Qed.

(** the class found in the third-party URI parser (classified by the search only) *)
Example C17_known_colon_uri_members :
  c17_colon_uri (b ":") = true /\ c17_colon_uri (b "1:x") = true /\ c17_colon_uri (b "%3A:") = true /\
  c17_colon_uri (b "urn:x") = false /\ c17_colon_uri (b "//h:1/p") = false /\ c17_colon_uri (b "a/b:c") = false /\
  c17_colon_uri (b "") = false.
Proof. exact colon_uri_examples. Qed.
