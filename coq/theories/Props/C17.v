(** C17 - validate always terminates with a verdict, whatever is on disk (partial).
    Property theorems only; each closed by [exact] of a lemma from Proofs/VCodeFacts.v.
    Panic freedom, time and memory of the real process are run-time facts: these
    theorems cover the arithmetic and guard logic of the modelled fragments
    (Model/VCode.v); the class of Model/KnownC17.v (quadratic-path) is a genuine defect that remains.
    Repaired in /repo and therefore stated unconditionally here: blank id (b116ae5),
    version gaps (719e6a5, f842f41), wide padding (d5a9e2d), empty PrettyPrintSet (547c92e),
    manifest entry without content paths (7c90d82), schemeless colon values handed to uriparse (389bfd0). *)
From Rocfl Require Import Base.Bytes Model.VersionNum Model.VCode Model.KnownC17 Proofs.VCodeFacts.
Open Scope N_scope.

(** ** vnums_cost_linear: cost of validate_version_nums (serde.rs:1321-1322, 1338-1405, after the repairs
    719e6a5 and f842f41) *)

(** the loop, in both build modes and for EVERY list of u32 version numbers (any order, any
    padding), returns normally - no panic, the built-in fuel MAX_MISSING_VERSIONS_LISTED of the
    inner loop is never exhausted - and records exactly the closed form [vnums_fast] *)
Theorem C17_vnums_exact : forall dbg vs,
  Forall (fun v => vn_number v <= U32MAX) vs ->
  validate_version_nums dbg vs = Ok (vnums_fast (map vn_number vs) 1 c0).
Proof. exact validate_version_nums_exact. Qed.
Print Assumptions C17_vnums_exact.

(** linear cost, all inputs: at most 100 E010 errors and 101 loop iterations per key
    (100 = MAX_MISSING_VERSIONS_LISTED read from the source, see C17_vnums_constant) *)
Theorem C17_vnums_cost_linear : forall dbg vs,
  Forall (fun v => vn_number v <= U32MAX) vs ->
  exists c, validate_version_nums dbg vs = Ok c /\
            c_errors c <= 100 * nlen vs /\ c_iters c <= 101 * nlen vs /\
            c_errors c = vnums_cost (map vn_number vs).
Proof. exact validate_version_nums_linear. Qed.
Print Assumptions C17_vnums_cost_linear.

(** the same bound for whatever the constant is *)
Theorem C17_vnums_cost_linear_generic : forall vs,
  vnums_cost vs <= N.max 1 MAX_LISTED * nlen vs /\ vnums_iters vs <= (MAX_LISTED + 1) * nlen vs.
Proof. exact vnums_cost_linear_generic. Qed.
Print Assumptions C17_vnums_cost_linear_generic.

Theorem C17_vnums_constant : MAX_LISTED = 100.
Proof. exact max_listed_pinned. Qed.
Print Assumptions C17_vnums_constant.

(** for the "versions" object of an inventory, whatever its keys and values are: the set handed
    to validate_version_nums (serde.rs:619) makes it return normally with a cost linear in the
    number of keys, and the E010 count is the one the model of the visitor records *)
Theorem C17_versions_block_cost : forall dbg l nums keys e ab,
  versions_value l = (nums, keys, e, ab) ->
  exists c, validate_version_nums dbg nums = Ok c /\
            c_errors c = vnums_cost (map vn_number nums) /\
            c_errors c <= 100 * nlen l /\ c_iters c <= 101 * nlen l.
Proof. exact versions_value_cost. Qed.
Print Assumptions C17_versions_block_cost.

(** the bound is attained (a gap of exactly 100 numbers is listed one by one); a larger gap,
    also the former known inputs v400000000 and v4294967295, costs one error *)
Theorem C17_vnums_cost_bound_tight :
  vnums_cost [101] = 100 * nlen [101] /\ vnums_iters [101] = 101 * nlen [101] /\
  vnums_cost [102] = 1 /\ vnums_cost [1; 102] = 100 /\ vnums_cost [1; 103] = 1 /\
  vnums_cost [400000000] = 1 /\ vnums_cost [U32MAX] = 1 /\
  vnums_cost [1; 2; U32MAX] = 1.
Proof. exact vnums_cost_bound_tight. Qed.
Print Assumptions C17_vnums_cost_bound_tight.

(** historical note, NOT the current code: the closed form of the loop before commit 719e6a5
    ([vnums_cost_before_fix], one error per missing number) had no linear bound *)
Theorem C17_history_vnums_cost_before_fix_not_linear : forall c,
  exists vs, nlen vs = 1 /\ incr_from 1 vs /\ c * nlen vs < vnums_cost_before_fix vs /\
             vnums_cost vs <= 100 * nlen vs.
Proof. exact vnums_cost_before_fix_not_linear. Qed.
Print Assumptions C17_history_vnums_cost_before_fix_not_linear.

(** no E010 from the loop => the keys are exactly v1..vn (used by the get_version guard) *)
Theorem C17_vnums_zero_cost_contiguous : forall vs, incr_from 1 vs ->
  Forall (fun v => v <= U32MAX) vs -> vnums_cost vs = 0 ->
  vs = iota 1 (List.length vs).
Proof. exact vnums_cost_zero_contiguous. Qed.
Print Assumptions C17_vnums_zero_cost_contiguous.

(** ** inventory_new_guarded: serde.rs:402-516 against inventory.rs:95-131 *)

(** no error recorded => an inventory is returned: all the [.unwrap()]s of serde.rs:504-514 are
    guarded, for every document (since commit b116ae5 also for "id": "") *)
Theorem C17_inventory_new_guarded : forall items r e,
  visit items = (r, e) -> has_errors e = false -> r = PInv.
Proof. exact visit_guarded. Qed.
Print Assumptions C17_inventory_new_guarded.

(** what is guarded: all six Options are Some, the id is not blank, algorithm, content directory
    and head pass; Inventory::new succeeds *)
Theorem C17_inventory_new_guard_details : forall items st,
  run p0 items = inl st -> has_errors (snd (finish st)) = false ->
  exists id a h nums,
    p_id st = Some id /\ id <> [] /\ p_type st = true /\ p_alg st = Some a /\ alg_allowed a = true /\
    p_head st = Some h /\ p_manifest st = true /\ p_versions st = Some (nums, nums) /\
    vset_mem h nums = true /\
    (forall d, p_cdir st = Some d -> cdir_kind d = None) /\
    inventory_new id a h (p_cdir st) nums = Ok tt.
Proof. exact visit_args. Qed.
Print Assumptions C17_inventory_new_guard_details.

Theorem C17_visit_no_panic : forall items, fst (visit items) <> PPanicked.
Proof. exact visit_no_panic. Qed.
Print Assumptions C17_visit_no_panic.

(** ** get_version_guarded, content_paths_guarded: mod.rs:607-641, 1534-1711 *)

(** [found] = ANY inventories that parse without error in the version directories below the
    head, whatever their heads are (a copy of v1's inventory in v2, of the root inventory in v1 ...):
    the head check of validate_inventory (mod.rs:1008-1019, [head_accepted] in the model) keeps those
    with a foreign head away from the loop, and for the others every [get_version(..).unwrap()]
    of mod.rs:1551-1552, 1624-1625 finds its version.  [contiguous]: versions v1..head all present,
    which an inventory without recorded error has (C17_vnums_zero_cost_contiguous, E010/E040). *)
Theorem C17_get_version_guarded : forall dbg root found,
  contiguous root -> Forall (found_ok root) found -> desc_from (i_head root) found ->
  object_cross_check dbg root found <> XPanic SGetVersion.
Proof. exact object_cross_check_get_version_guarded. Qed.
Print Assumptions C17_get_version_guarded.

(** the loop itself, for inventories whose head is at least their directory number *)
Theorem C17_get_version_guarded_loop : forall dbg root dirs,
  contiguous root -> Forall (dir_ok root) dirs -> desc_from (i_head root) dirs ->
  cross_check dbg root dirs <> XPanic SGetVersion.
Proof. exact cross_check_get_version_guarded. Qed.
Print Assumptions C17_get_version_guarded_loop.

(** the dependency is real: without the rejection a valid inventory with a lower head (v1's
    inventory found in v2) panics at mod.rs:1552; with it: one E040, no cross check *)
Theorem C17_get_version_needs_head_check :
  cross_check false w3_root [(2, w3_v1)] = XPanic SGetVersion /\
  object_cross_check false w3_root [(2, w3_v1)] = XOk 0 /\ head_rejected_count [(2, w3_v1)] = 1 /\
  contiguous w3_root /\ found_ok w3_root (2, w3_v1).
Proof. exact get_version_needs_head_check. Qed.
Print Assumptions C17_get_version_needs_head_check.

(** since commit 7c90d82 (mod.rs:1657-1661, [unwrap_or(&no_paths)]) there is no unwrap of a
    content_paths result left: for ALL inventories, whatever their manifests declare *)
Theorem C17_content_paths_guarded : forall dbg root dirs,
  cross_check dbg root dirs <> XPanic SContentPaths.
Proof. exact cross_check_content_paths_guarded. Qed.
Print Assumptions C17_content_paths_guarded.

(** the loop body of validate_state_consistent (mod.rs:1629-1699) returns for every entry of
    every state of every pair of inventories, in both build modes, with at most one E066 *)
Theorem C17_state_entry_total : forall dbg cur cmp inv st cd e,
  exists n, entry_check dbg cur cmp inv st cd e = XOk n /\ n <= 1.
Proof. exact entry_check_total. Qed.
Print Assumptions C17_state_entry_total.

(** a digest the manifest declares with an empty array (no entry in the manifest map, bimap.rs:88-91)
    is compared as the empty set: equal to another empty set, otherwise reported as E066 *)
Theorem C17_missing_manifest_entry_is_empty_set : forall dbg cur cmp inv st p cd d,
  lookup p st = Some d -> content_paths cmp cd = None ->
  entry_check dbg cur cmp inv st false (p, cd) =
  XOk (if is_nil (paths_or_empty (content_paths inv d)) then 0 else 1).
Proof. exact entry_check_missing_entry. Qed.
Print Assumptions C17_missing_manifest_entry_is_empty_set.

Theorem C17_missing_manifest_entry_other_side : forall dbg cur cmp inv st p cd d cps,
  lookup p st = Some d -> content_paths cmp cd = Some cps -> content_paths inv d = None ->
  entry_check dbg cur cmp inv st false (p, cd) =
  XOk (if nlen cps =? 1 then 1 else if is_nil (filter (fun cp => fst cp <=? cur) cps) then 0 else 1).
Proof. exact entry_check_missing_entry_other_side. Qed.
Print Assumptions C17_missing_manifest_entry_other_side.

(** the formerly known input (E050 holds - [closed] - and the manifest declares a digest with []):
    a verdict now, in both build modes *)
Theorem C17_empty_manifest_entry_verdict :
  cross_check true w_root [(1, w_v1)] = XOk 0 /\ cross_check false w_root [(1, w_v1)] = XOk 0 /\
  cross_check true w_root [(1, w_v1b)] = XOk 1 /\ cross_check false w_root [(1, w_v1b)] = XOk 1 /\
  closed w_root /\ contiguous w_root /\ dir_ok w_root (1, w_v1) /\ dir_ok w_root (1, w_v1b).
Proof. exact empty_manifest_entry_verdict. Qed.
Print Assumptions C17_empty_manifest_entry_verdict.

(** historical note, NOT the current code: the loop body before 7c90d82
    ([entry_check_before_fix], two unwraps) panicked on that input *)
Theorem C17_history_content_paths_before_fix :
  entry_check_before_fix false 1 w_root w_v1 [(1, 20); (2, 21)] false (2, 11) = XPanic SContentPaths /\
  entry_check_before_fix true 1 w_root w_v1b [(1, 20); (2, 21)] false (2, 11) = XPanic SContentPaths /\
  entry_check false 1 w_root w_v1 [(1, 20); (2, 21)] false (2, 11) = XOk 0 /\
  entry_check true 1 w_root w_v1b [(1, 20); (2, 21)] false (2, 11) = XOk 1.
Proof. exact history_entry_check_before_fix_unwrap_none. Qed.
Print Assumptions C17_history_content_paths_before_fix.

(** ** pretty_print_total: types.rs:1350-1362 (after commit 547c92e, [saturating_sub]) *)

(** every set size, both build modes *)
Theorem C17_pretty_print_total : forall dbg len, pps_panics dbg len = false.
Proof. exact pps_total. Qed.
Print Assumptions C17_pretty_print_total.

(** and the text has len - 1 separators (none for the empty set) *)
Theorem C17_pretty_print_exact : forall dbg len, pps_display dbg len = Ok (len - 1).
Proof. exact pps_display_exact. Qed.
Print Assumptions C17_pretty_print_exact.

Theorem C17_pretty_print_guarded : forall dbg root dirs,
  cross_check dbg root dirs <> XPanic SPrettyPrint.
Proof. exact cross_check_pps_total. Qed.
Print Assumptions C17_pretty_print_guarded.

(** the formerly known input (the filtered set of mod.rs:1677-1685 is empty): one E066 in both build modes *)
Theorem C17_empty_set_is_printed :
  cross_check true w2_root [(1, w2_v1)] = XOk 1 /\ cross_check false w2_root [(1, w2_v1)] = XOk 1 /\
  pps_display true 0 = Ok 0 /\ pps_display false 0 = Ok 0 /\ pps_display true 3 = Ok 2.
Proof. exact empty_set_is_printed. Qed.
Print Assumptions C17_empty_set_is_printed.

(** historical note, NOT the current code: [len() - 1] before 547c92e *)
Theorem C17_history_pretty_print_before_fix :
  pps_panics_before_fix true 0 = true /\ pps_display_before_fix false 0 = Ok 0 /\
  (forall dbg len, len <> 0 -> pps_display_before_fix dbg len = Ok (len - 1)) /\
  entry_check_before_fix true 1 w2_root w2_v1 [(1, 20)] false (1, 10) = XPanic SPrettyPrint /\
  entry_check_before_fix false 1 w2_root w2_v1 [(1, 20)] false (1, 10) = XOk 1 /\
  entry_check true 1 w2_root w2_v1 [(1, 20)] false (1, 10) = XOk 1.
Proof. exact history_pps_before_fix. Qed.
Print Assumptions C17_history_pretty_print_before_fix.

(** ** the cross-inventory checks return a verdict *)

(** with the three panic sites settled (get_version guarded by the head check, the other two
    gone) and the fuel of the descending loop sufficient: for ANY inventories found in the version
    directories below the head the checks end with a number of E066 errors, in both build modes *)
Theorem C17_cross_check_verdict : forall dbg root found,
  contiguous root -> Forall (found_ok root) found -> desc_from (i_head root) found ->
  exists n, object_cross_check dbg root found = XOk n.
Proof. exact object_cross_check_verdict. Qed.
Print Assumptions C17_cross_check_verdict.

Theorem C17_cross_check_verdict_loop : forall dbg root dirs,
  contiguous root -> Forall (dir_ok root) dirs -> desc_from (i_head root) dirs ->
  exists n, cross_check dbg root dirs = XOk n.
Proof. exact cross_check_verdict. Qed.
Print Assumptions C17_cross_check_verdict_loop.

(** ** is_uri_total: serde.rs:1324-1336 (commit 389bfd0), call sites serde.rs:191 and 1220 *)

(** [uri_ok] = what uriparse's URI::try_from(..).is_ok() answers where it returns: ANY total
    function.  is_uri never panics; it is the scheme test AND the parser's answer *)
Theorem C17_is_uri_total : forall (uri_ok : bytes -> bool) s,
  is_uri uri_ok s = Ok (uri_guard s && uri_ok s) /\ is_uri uri_ok s <> Panic.
Proof. intros uri_ok s. split; [exact (is_uri_exact uri_ok s)|exact (is_uri_total uri_ok s)]. Qed.
Print Assumptions C17_is_uri_total.

(** every call of the parser is made on a value outside the set on which it panics *)
Theorem C17_is_uri_calls_safe : forall (uri_ok : bytes -> bool) s,
  Forall (fun a => uri_try_from_panics a = false) (is_uri_calls uri_ok s).
Proof. exact is_uri_calls_safe. Qed.
Print Assumptions C17_is_uri_calls_safe.

(** a value without a valid scheme is "not a URI" (W005 / W009 follow) and the parser is not called *)
Theorem C17_is_uri_schemeless_not_parsed : forall (uri_ok : bytes -> bool) s,
  uri_guard s = false -> is_uri uri_ok s = Ok false /\ is_uri_calls uri_ok s = [].
Proof. exact is_uri_schemeless. Qed.
Print Assumptions C17_is_uri_schemeless_not_parsed.

(** the whole formerly known class (":", "1:x", "%3A:" ...) is such a value; the unguarded call
    of that time ([is_uri_before_fix], historical) panicked on it *)
Theorem C17_is_uri_former_class : forall (uri_ok : bytes -> bool) s,
  uri_try_from_panics s = true ->
  is_uri uri_ok s = Ok false /\ is_uri_calls uri_ok s = [] /\ is_uri_before_fix uri_ok s = Panic.
Proof. exact is_uri_former_class. Qed.
Print Assumptions C17_is_uri_former_class.

(** the guard changes no answer of a parser that accepts only values with an RFC 3986 scheme *)
Theorem C17_is_uri_agrees_with_parser : forall (uri_ok : bytes -> bool) s,
  (uri_ok s = true -> uri_guard s = true) -> uri_try_from_panics s = false ->
  is_uri uri_ok s = is_uri_before_fix uri_ok s.
Proof. exact is_uri_agrees_with_parser. Qed.
Print Assumptions C17_is_uri_agrees_with_parser.

(** ** content_paths_iter_terminates: mod.rs:2106-2127 *)

Theorem C17_content_paths_iter_terminates : forall dbg has fuel n w,
  1 <= n -> n <= N.of_nat fuel + 1 ->
  exists r, cpi_walk vnum_eq_rust dbg fuel (mkV n w) has = Ok r /\
            match r with Some p => vn_number p < n /\ has (vn_number p) = true | None => True end.
Proof. exact cpi_walk_terminates. Qed.
Print Assumptions C17_content_paths_iter_terminates.

Theorem C17_content_paths_iter_needs_number_equality :
  cpi_walk vnum_eqb true 5 (mkV 2 3) (fun _ => false) = Panic /\
  cpi_walk vnum_eq_rust true 5 (mkV 2 3) (fun _ => false) = Ok None.
Proof. exact cpi_walk_strict_eq_panics. Qed.
Print Assumptions C17_content_paths_iter_needs_number_equality.

(** ** iterator_continues: mod.rs:1923-2022 *)

Theorem C17_iterator_continues : forall fuel cur stack,
  (lsize cur + ssize stack < fuel)%nat ->
  iter_run fuel cur stack = objs_list cur ++ flat_map objs_list stack.
Proof. exact iter_run_spec. Qed.
Print Assumptions C17_iterator_continues.

Theorem C17_iterator_continues_after_err : forall pre post item,
  item = TObj false \/ item = TBadDir ->
  exists it, (it = VResult false \/ it = VListErr) /\
  iter_run (S (lsize (pre ++ item :: post))) (pre ++ item :: post) [] =
    objs_list pre ++ it :: objs_list post.
Proof. exact iterator_continues_after_err. Qed.
Print Assumptions C17_iterator_continues_after_err.

(** ** further cost / totality facts found by the search *)

Theorem C17_nonconflict_cost_bounded : forall path,
  c17_quadratic_path (count_slash path) (nlen path) = false -> nonconflict_cost path <= PATH_COST_BOUND.
Proof. exact nonconflict_cost_outside_class. Qed.
Print Assumptions C17_nonconflict_cost_bounded.

Theorem C17_known_nonconflict_quadratic : forall n,
  nonconflict_cost (rep_seg n) = N.of_nat n * N.of_nat n /\ nlen (rep_seg n) = 2 * N.of_nat n.
Proof. exact nonconflict_cost_quadratic. Qed.
Print Assumptions C17_known_nonconflict_quadratic.

(** Display for VersionNum (types.rs:396-406, after commit d5a9e2d): the text written for a
    parsed key or head is at most 10 characters longer than the key, in at most that many writes *)
Theorem C17_display_linear : forall s v, vparse s = Ok v ->
  blen (vdisplay v) <= blen s + 10 /\ vdisplay_writes v <= blen s + 1.
Proof. exact vdisplay_linear. Qed.
Print Assumptions C17_display_linear.

(** ** non-vacuity *)

Example C17_nonvacuous_vnums :
  incr_from 1 [1; 2; 3; 5; 9] /\
  vnums_cost [1; 2; 3; 5; 9] = 4 /\
  validate_version_nums true [mkV 1 0; mkV 2 0; mkV 3 0; mkV 5 0; mkV 9 0] = Ok (mkC 4 9) /\
  validate_version_nums false [mkV 1 3; mkV 400000000 3; mkV U32MAX 0] = Ok (mkC 2 3) /\
  vnums_padding [mkV 1 0; mkV 2 2] = (true, false).
Proof. exact vnums_example. Qed.

Example C17_nonvacuous_visit :
  visit (IId (SStr (b "urn:x")) :: ok_tail) = (PInv, [(E010, 0)]).
Proof. exact nonblank_id_ok. Qed.

(** the formerly known inputs are ordinary verdicts of the model now *)
Example C17_blank_id_is_an_error :
  visit (IId (SStr []) :: ok_tail) = (PNoInv, [(E037, 1); (E010, 0)]) /\
  visit (ok_tail ++ [IId (SStr [])]) = (PNoInv, [(E010, 0); (E037, 1)]).
Proof. exact blank_id_is_an_error. Qed.

Example C17_absurd_keys_verdict :
  visit [IId (SStr (b "urn:x")); IType (SStr (b "t")); IAlg (SStr (b "sha512")); IHead (SStr (b "v1"));
         IManifest CObj; IVersions (VObj [(b "v1", BSome); (b "v400000000", BSome); (b "v4294967295", BSome)])]
  = (PNoInv, [(E010, 2); (E040, 1)]).
Proof. exact absurd_keys_verdict. Qed.

Example C17_display_wide :
  blen (vdisplay (mkV 1 65536)) = 65537 /\ vdisplay_writes (mkV 1 65536) = 65537.
Proof. exact vdisplay_wide_example. Qed.

Example C17_nonvacuous_cross :
  exists root v1, closed root /\ closed v1 /\ contiguous root /\ dir_ok root (1, v1) /\
    cross_check true root [(1, v1)] = XOk 0.
Proof. exact cross_check_nonvacuous. Qed.

Example C17_nonvacuous_iter :
  iter_run 100 [TObj true; TDir [TObj false; TLeaf; TDir [TBadDir; TObj true]]; TObj true] [] =
  [VResult true; VResult false; VListErr; VResult true; VResult true].
Proof. exact iter_example. Qed.

Example C17_nonvacuous_cpi :
  cpi_walk vnum_eq_rust true 10 (mkV 5 3) (fun n => n =? 2) = Ok (Some (mkV 2 3)).
Proof. exact cpi_example. Qed.

(** the scheme test of is_uri and the panic set of the third-party parser on the former members *)
Example C17_uri_guard_members :
  uri_guard (b ":") = false /\ uri_guard (b "1:x") = false /\ uri_guard (b "%3A:") = false /\
  uri_guard (b "-:x") = false /\ uri_guard (b "::") = false /\ uri_guard (b "") = false /\
  uri_guard (b "no colon") = false /\ uri_guard (b "a/b:c") = false /\
  uri_guard (b "urn:x") = true /\ uri_guard (b "a+.-1:x") = true /\ uri_guard (b "mailto:a@b") = true /\
  uri_try_from_panics (b ":") = true /\ uri_try_from_panics (b "1:x") = true /\
  uri_try_from_panics (b "%3A:") = true /\ uri_try_from_panics (b "urn:x") = false /\
  uri_try_from_panics (b "//h:1/p") = false /\ uri_try_from_panics (b "a/b:c") = false.
Proof. exact uri_guard_examples. Qed.
