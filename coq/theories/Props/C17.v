(** C17 - validate always terminates with a verdict, whatever is on disk (partial).
    Property theorems only; each closed by [exact] of a lemma from Proofs/VCodeFacts.v.
    Panic freedom, time and memory of the real process are run-time facts: these
    theorems cover the arithmetic and guard logic of the modelled fragments
    (Model/VCode.v); the classes of Model/KnownC17.v are genuine defects that remain.
    Repaired in /repo and therefore stated unconditionally here: blank id (b116ae5),
    version gaps (719e6a5, f842f41), wide padding (d5a9e2d). *)
From Rocfl Require Import Base.Bytes Model.VersionNum Model.VCode Model.KnownC17 Proofs.VCodeFacts.
Open Scope N_scope.

(** ** vnums_cost_linear: cost of validate_version_nums (serde.rs:1321-1391, after the repairs
    719e6a5 and f842f41) *)

(** the loop, in both build modes and for EVERY list of u32 version numbers (any order, any
    padding), returns normally - no panic, the built-in fuel MAX_MISSING_VERSIONS_LISTED of the
    inner loop is never exhausted - and records exactly the closed form [vnums_fast] *)
Theorem C17_vnums_exact : forall dbg vs,
  Forall (fun v => vn_number v <= U32MAX) vs ->
  validate_version_nums dbg vs = Ok (vnums_fast (map vn_number vs) 1 c0).
Proof. exact validate_version_nums_exact. Qed.
Print Assumptions C17_vnums_exact.

(** linear cost, all inputs: at most 100 E010 errors and 101 loop iterations per key
    (100 = MAX_MISSING_VERSIONS_LISTED read from the source, see C17_vnums_constant) *)
Theorem C17_vnums_cost_linear : forall dbg vs,
  Forall (fun v => vn_number v <= U32MAX) vs ->
  exists c, validate_version_nums dbg vs = Ok c /\
            c_errors c <= 100 * nlen vs /\ c_iters c <= 101 * nlen vs /\
            c_errors c = vnums_cost (map vn_number vs).
Proof. exact validate_version_nums_linear. Qed.
Print Assumptions C17_vnums_cost_linear.

(** the same bound for whatever the constant is *)
Theorem C17_vnums_cost_linear_generic : forall vs,
  vnums_cost vs <= N.max 1 MAX_LISTED * nlen vs /\ vnums_iters vs <= (MAX_LISTED + 1) * nlen vs.
Proof. exact vnums_cost_linear_generic. Qed.
Print Assumptions C17_vnums_cost_linear_generic.

Theorem C17_vnums_constant : MAX_LISTED = 100.
Proof. exact max_listed_pinned. Qed.
Print Assumptions C17_vnums_constant.

(** for the "versions" object of an inventory, whatever its keys and values are: the set handed
    to validate_version_nums (serde.rs:619) makes it return normally with a cost linear in the
    number of keys, and the E010 count is the one the model of the visitor records *)
Theorem C17_versions_block_cost : forall dbg l nums keys e ab,
  versions_value l = (nums, keys, e, ab) ->
  exists c, validate_version_nums dbg nums = Ok c /\
            c_errors c = vnums_cost (map vn_number nums) /\
            c_errors c <= 100 * nlen l /\ c_iters c <= 101 * nlen l.
Proof. exact versions_value_cost. Qed.
Print Assumptions C17_versions_block_cost.

(** the bound is attained (a gap of exactly 100 numbers is listed one by one); a larger gap,
    also the former known inputs v400000000 and v4294967295, costs one error *)
Theorem C17_vnums_cost_bound_tight :
  vnums_cost [101] = 100 * nlen [101] /\ vnums_iters [101] = 101 * nlen [101] /\
  vnums_cost [102] = 1 /\ vnums_cost [1; 102] = 100 /\ vnums_cost [1; 103] = 1 /\
  vnums_cost [400000000] = 1 /\ vnums_cost [U32MAX] = 1 /\
  vnums_cost [1; 2; U32MAX] = 1.
Proof. exact vnums_cost_bound_tight. Qed.
Print Assumptions C17_vnums_cost_bound_tight.

(** historical note, NOT the current code: the closed form of the loop before commit 719e6a5
    ([vnums_cost_before_fix], one error per missing number) had no linear bound *)
Theorem C17_history_vnums_cost_before_fix_not_linear : forall c,
  exists vs, nlen vs = 1 /\ incr_from 1 vs /\ c * nlen vs < vnums_cost_before_fix vs /\
             vnums_cost vs <= 100 * nlen vs.
Proof. exact vnums_cost_before_fix_not_linear. Qed.
Print Assumptions C17_history_vnums_cost_before_fix_not_linear.

(** no E010 from the loop => the keys are exactly v1..vn (used by the get_version guard) *)
Theorem C17_vnums_zero_cost_contiguous : forall vs, incr_from 1 vs ->
  Forall (fun v => v <= U32MAX) vs -> vnums_cost vs = 0 ->
  vs = iota 1 (List.length vs).
Proof. exact vnums_cost_zero_contiguous. Qed.
Print Assumptions C17_vnums_zero_cost_contiguous.

(** ** inventory_new_guarded: serde.rs:402-516 against inventory.rs:95-131 *)

(** no error recorded => an inventory is returned: all the [.unwrap()]s of serde.rs:504-514 are
    guarded, for every document (since commit b116ae5 also for "id": "") *)
Theorem C17_inventory_new_guarded : forall items r e,
  visit items = (r, e) -> has_errors e = false -> r = PInv.
Proof. exact visit_guarded. Qed.
Print Assumptions C17_inventory_new_guarded.

(** what is guarded: all six Options are Some, the id is not blank, algorithm, content directory
    and head pass; Inventory::new succeeds *)
Theorem C17_inventory_new_guard_details : forall items st,
  run p0 items = inl st -> has_errors (snd (finish st)) = false ->
  exists id a h nums,
    p_id st = Some id /\ id <> [] /\ p_type st = true /\ p_alg st = Some a /\ alg_allowed a = true /\
    p_head st = Some h /\ p_manifest st = true /\ p_versions st = Some (nums, nums) /\
    vset_mem h nums = true /\
    (forall d, p_cdir st = Some d -> cdir_kind d = None) /\
    inventory_new id a h (p_cdir st) nums = Ok tt.
Proof. exact visit_args. Qed.
Print Assumptions C17_inventory_new_guard_details.

Theorem C17_visit_no_panic : forall items, fst (visit items) <> PPanicked.
Proof. exact visit_no_panic. Qed.
Print Assumptions C17_visit_no_panic.

(** ** get_version_guarded, content_paths_guarded: mod.rs:607-641, 1534-1707 *)

(** [found] = ANY inventories that parse without error in the version directories below the
    head, whatever their heads are (a copy of v1's inventory in v2, of the root inventory in v1 ...):
    the head check of validate_inventory (mod.rs:1008-1019, [head_accepted] in the model) keeps those
    with a foreign head away from the loop, and for the others every [get_version(..).unwrap()]
    of mod.rs:1551-1552, 1624-1625 finds its version.  [contiguous]: versions v1..head all present,
    which an inventory without recorded error has (C17_vnums_zero_cost_contiguous, E010/E040). *)
Theorem C17_get_version_guarded : forall dbg root found,
  contiguous root -> Forall (found_ok root) found -> desc_from (i_head root) found ->
  object_cross_check dbg root found <> XPanic SGetVersion.
Proof. exact object_cross_check_get_version_guarded. Qed.
Print Assumptions C17_get_version_guarded.

(** the loop itself, for inventories whose head is at least their directory number *)
Theorem C17_get_version_guarded_loop : forall dbg root dirs,
  contiguous root -> Forall (dir_ok root) dirs -> desc_from (i_head root) dirs ->
  cross_check dbg root dirs <> XPanic SGetVersion.
Proof. exact cross_check_get_version_guarded. Qed.
Print Assumptions C17_get_version_guarded_loop.

(** the dependency is real: without the rejection a valid inventory with a lower head (v1's
    inventory found in v2) panics at mod.rs:1552; with it: one E040, no cross check *)
Theorem C17_get_version_needs_head_check :
  cross_check false w3_root [(2, w3_v1)] = XPanic SGetVersion /\
  object_cross_check false w3_root [(2, w3_v1)] = XOk 0 /\ head_rejected_count [(2, w3_v1)] = 1 /\
  contiguous w3_root /\ found_ok w3_root (2, w3_v1).
Proof. exact get_version_needs_head_check. Qed.
Print Assumptions C17_get_version_needs_head_check.

Theorem C17_content_paths_guarded : forall dbg root dirs,
  good root -> Forall (fun d => good (snd d)) dirs ->
  cross_check dbg root dirs <> XPanic SContentPaths.
Proof. exact cross_check_content_paths_guarded. Qed.
Print Assumptions C17_content_paths_guarded.

(** refuted without the classifier: E050 holds (closed) and the unwrap still fails *)
Theorem C17_known_empty_manifest_entry_refuted :
  cross_check false w_root [(1, w_v1)] = XPanic SContentPaths /\
  closed w_root /\ c17_empty_manifest_entry w_root = true /\ contiguous w_root /\ dir_ok w_root (1, w_v1).
Proof. exact empty_manifest_entry_panics. Qed.
Print Assumptions C17_known_empty_manifest_entry_refuted.

(** ** pretty_print_total: types.rs:1350-1361 *)

Theorem C17_pretty_print_total : forall dbg len,
  dbg = false \/ len <> 0 -> pps_panics dbg len = false.
Proof. exact pps_total. Qed.
Print Assumptions C17_pretty_print_total.

Theorem C17_pretty_print_release : forall root dirs,
  cross_check false root dirs <> XPanic SPrettyPrint.
Proof. exact cross_check_pps_release. Qed.
Print Assumptions C17_pretty_print_release.

Theorem C17_pretty_print_guarded : forall dbg root dirs,
  c17_future_content root = false -> Forall (fun d => c17_future_content (snd d) = false) dirs ->
  cross_check dbg root dirs <> XPanic SPrettyPrint.
Proof. exact cross_check_pps_guarded. Qed.
Print Assumptions C17_pretty_print_guarded.

Theorem C17_known_empty_set_reaches_pretty_print :
  cross_check true w2_root [(1, w2_v1)] = XPanic SPrettyPrint /\
  cross_check false w2_root [(1, w2_v1)] = XOk 1 /\
  c17_empty_pps true w2_root = true /\ c17_empty_manifest_entry w2_root = false.
Proof. exact empty_set_reaches_pretty_print. Qed.
Print Assumptions C17_known_empty_set_reaches_pretty_print.

(** ** content_paths_iter_terminates: mod.rs:2106-2127 *)

Theorem C17_content_paths_iter_terminates : forall dbg has fuel n w,
  1 <= n -> n <= N.of_nat fuel + 1 ->
  exists r, cpi_walk vnum_eq_rust dbg fuel (mkV n w) has = Ok r /\
            match r with Some p => vn_number p < n /\ has (vn_number p) = true | None => True end.
Proof. exact cpi_walk_terminates. Qed.
Print Assumptions C17_content_paths_iter_terminates.

Theorem C17_content_paths_iter_needs_number_equality :
  cpi_walk vnum_eqb true 5 (mkV 2 3) (fun _ => false) = Panic /\
  cpi_walk vnum_eq_rust true 5 (mkV 2 3) (fun _ => false) = Ok None.
Proof. exact cpi_walk_strict_eq_panics. Qed.
Print Assumptions C17_content_paths_iter_needs_number_equality.

(** ** iterator_continues: mod.rs:1923-2022 *)

Theorem C17_iterator_continues : forall fuel cur stack,
  (lsize cur + ssize stack < fuel)%nat ->
  iter_run fuel cur stack = objs_list cur ++ flat_map objs_list stack.
Proof. exact iter_run_spec. Qed.
Print Assumptions C17_iterator_continues.

Theorem C17_iterator_continues_after_err : forall pre post item,
  item = TObj false \/ item = TBadDir ->
  exists it, (it = VResult false \/ it = VListErr) /\
  iter_run (S (lsize (pre ++ item :: post))) (pre ++ item :: post) [] =
    objs_list pre ++ it :: objs_list post.
Proof. exact iterator_continues_after_err. Qed.
Print Assumptions C17_iterator_continues_after_err.

(** ** further cost / totality facts found by the search *)

Theorem C17_nonconflict_cost_bounded : forall path,
  c17_quadratic_path (count_slash path) (nlen path) = false -> nonconflict_cost path <= PATH_COST_BOUND.
Proof. exact nonconflict_cost_outside_class. Qed.
Print Assumptions C17_nonconflict_cost_bounded.

Theorem C17_known_nonconflict_quadratic : forall n,
  nonconflict_cost (rep_seg n) = N.of_nat n * N.of_nat n /\ nlen (rep_seg n) = 2 * N.of_nat n.
Proof. exact nonconflict_cost_quadratic. Qed.
Print Assumptions C17_known_nonconflict_quadratic.

(** Display for VersionNum (types.rs:396-406, after commit d5a9e2d): the text written for a
    parsed key or head is at most 10 characters longer than the key, in at most that many writes *)
Theorem C17_display_linear : forall s v, vparse s = Ok v ->
  blen (vdisplay v) <= blen s + 10 /\ vdisplay_writes v <= blen s + 1.
Proof. exact vdisplay_linear. Qed.
Print Assumptions C17_display_linear.

(** ** non-vacuity *)

Example C17_nonvacuous_vnums :
  incr_from 1 [1; 2; 3; 5; 9] /\
  vnums_cost [1; 2; 3; 5; 9] = 4 /\
  validate_version_nums true [mkV 1 0; mkV 2 0; mkV 3 0; mkV 5 0; mkV 9 0] = Ok (mkC 4 9) /\
  validate_version_nums false [mkV 1 3; mkV 400000000 3; mkV U32MAX 0] = Ok (mkC 2 3) /\
  vnums_padding [mkV 1 0; mkV 2 2] = (true, false).
Proof. exact vnums_example. Qed.

Example C17_nonvacuous_visit :
  visit (IId (SStr (b "urn:x")) :: ok_tail) = (PInv, [(E010, 0)]).
Proof. exact nonblank_id_ok. Qed.

(** the formerly known inputs are ordinary verdicts of the model now *)
Example C17_blank_id_is_an_error :
  visit (IId (SStr []) :: ok_tail) = (PNoInv, [(E037, 1); (E010, 0)]) /\
  visit (ok_tail ++ [IId (SStr [])]) = (PNoInv, [(E010, 0); (E037, 1)]).
Proof. exact blank_id_is_an_error. Qed.

Example C17_absurd_keys_verdict :
  visit [IId (SStr (b "urn:x")); IType (SStr (b "t")); IAlg (SStr (b "sha512")); IHead (SStr (b "v1"));
         IManifest CObj; IVersions (VObj [(b "v1", BSome); (b "v400000000", BSome); (b "v4294967295", BSome)])]
  = (PNoInv, [(E010, 2); (E040, 1)]).
Proof. exact absurd_keys_verdict. Qed.

Example C17_display_wide :
  blen (vdisplay (mkV 1 65536)) = 65537 /\ vdisplay_writes (mkV 1 65536) = 65537.
Proof. exact vdisplay_wide_example. Qed.

Example C17_nonvacuous_cross :
  exists root v1, good root /\ good v1 /\ contiguous root /\ dir_ok root (1, v1) /\
    c17_future_content root = false /\ cross_check true root [(1, v1)] = XOk 0.
Proof. exact cross_check_nonvacuous. Qed.

Example C17_nonvacuous_iter :
  iter_run 100 [TObj true; TDir [TObj false; TLeaf; TDir [TBadDir; TObj true]]; TObj true] [] =
  [VResult true; VResult false; VListErr; VResult true; VResult true].
Proof. exact iter_example. Qed.

Example C17_nonvacuous_cpi :
  cpi_walk vnum_eq_rust true 10 (mkV 5 3) (fun n => n =? 2) = Ok (Some (mkV 2 3)).
Proof. exact cpi_example. Qed.

(** the class found in the third-party URI parser (classified by the search only) *)
Example C17_known_colon_uri_members :
  c17_colon_uri (b ":") = true /\ c17_colon_uri (b "1:x") = true /\ c17_colon_uri (b "%3A:") = true /\
  c17_colon_uri (b "urn:x") = false /\ c17_colon_uri (b "//h:1/p") = false /\ c17_colon_uri (b "a/b:c") = false /\
  c17_colon_uri (b "") = false.
Proof. exact colon_uri_examples. Qed.
