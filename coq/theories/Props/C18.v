(** C18 - diff, log and ls -l tell the true history of an object.
    Property theorems only; each closed by [exact] of a lemma from Proofs/.

    The model (Model/Diff.v) follows Version::diff, Inventory::diff_versions,
    list_file_versions, construct_state and update_meta line by line.  A version
    state is an association list [list (P * D)] whose order is the HashMap
    iteration order; all theorems hold for every path type P and digest type D
    with boolean equalities deciding equality, every path order [ple] (used only by
    sort_unstable), and every state without duplicate paths. *)
From Rocfl Require Import Base.Bytes Model.Diff Proofs.DiffFacts Proofs.DiffHistFacts.
From Coq Require Import Permutation Sorted.
Open Scope N_scope.

(** [left_only P D peqb l r q d]  : lookup q l = Some d /\ lookup q r = None
    [right_only P D peqb l r q d] : lookup q r = Some d /\ lookup q l = None *)

(** each constructor of the report <-> its digest-level definition *)
Theorem diff_characterisation :
  forall (P D : Type) (peqb : P -> P -> bool) (deqb : D -> D -> bool) (ple : P -> P -> bool),
  (forall x y, peqb x y = true <-> x = y) -> (forall x y, deqb x y = true <-> x = y) ->
  forall l r : state P D, NoDup (keys l) -> NoDup (keys r) ->
  let ds := diff peqb deqb ple (Some l) r in
  (forall p, In (Added p) ds <->
             exists d, right_only P D peqb l r p d /\ ~ exists q, left_only P D peqb l r q d) /\
  (forall p, In (Modified p) ds <->
             exists dl dr, lookup peqb p l = Some dl /\ lookup peqb p r = Some dr /\ dl <> dr) /\
  (forall p, In (Deleted p) ds <->
             exists d, left_only P D peqb l r p d /\ ~ exists q, right_only P D peqb l r q d) /\
  (forall O R, In (Renamed O R) ds ->
             exists d, O <> [] /\ R <> [] /\ NoDup O /\ NoDup R /\
                       (forall q, In q O <-> left_only P D peqb l r q d) /\
                       (forall q, In q R <-> right_only P D peqb l r q d)) /\
  (forall d, (exists q, left_only P D peqb l r q d) -> (exists q, right_only P D peqb l r q d) ->
             exists O R, In (Renamed O R) ds /\
                         (forall q, In q O <-> left_only P D peqb l r q d) /\
                         (forall q, In q R <-> right_only P D peqb l r q d)).
Proof. exact DiffFacts.diff_characterisation. Qed.
Print Assumptions diff_characterisation.

(** no path is mentioned twice by a report: every path belongs to at most one entry
    (and no entry is repeated) *)
Theorem diff_mentions_each_path_once :
  forall (P D : Type) (peqb : P -> P -> bool) (deqb : D -> D -> bool) (ple : P -> P -> bool),
  (forall x y, peqb x y = true <-> x = y) -> (forall x y, deqb x y = true <-> x = y) ->
  forall l r : state P D, NoDup (keys l) -> NoDup (keys r) ->
  NoDup (mentions (diff peqb deqb ple (Some l) r)).
Proof. exact diff_mentions_nodup. Qed.
Print Assumptions diff_mentions_each_path_once.

(** applying the report to the left path set yields exactly the right path set *)
Theorem C18_diff_apply :
  forall (P D : Type) (peqb : P -> P -> bool) (deqb : D -> D -> bool) (ple : P -> P -> bool),
  (forall x y, peqb x y = true <-> x = y) -> (forall x y, deqb x y = true <-> x = y) ->
  forall l r : state P D, NoDup (keys l) -> NoDup (keys r) ->
  forall p, In p (apply_diff peqb (diff peqb deqb ple (Some l) r) (keys l)) <-> In p (keys r).
Proof. exact diff_apply. Qed.
Print Assumptions C18_diff_apply.

(** the same for every ordered pair (i, j) of versions of an object, i = j included,
    together with the reading of Modified *)
Theorem C18_diff_apply_versions :
  forall (P D : Type) (peqb : P -> P -> bool) (deqb : D -> D -> bool),
  (forall x y, peqb x y = true <-> x = y) -> (forall x y, deqb x y = true <-> x = y) ->
  forall (ple : P -> P -> bool) (h : history P D) (i j : N) (si sj : state P D),
  get_version h i = Some si -> get_version h j = Some sj -> NoDup (keys si) -> NoDup (keys sj) ->
  exists ds, diff_versions peqb deqb ple h (Some i) j = Ok ds /\
             (forall p, In p (apply_diff peqb ds (keys si)) <-> In p (keys sj)) /\
             (forall p, In (Modified p) ds <->
                        exists dl dr, lookup peqb p si = Some dl /\ lookup peqb p sj = Some dr /\ dl <> dr).
Proof. exact history_diff_apply. Qed.
Print Assumptions C18_diff_apply_versions.

(** a missing version is refused (unless left = right, where the early return answers first) *)
Theorem diff_missing_version_refused :
  forall (P D : Type) (peqb : P -> P -> bool) (deqb : D -> D -> bool) (ple : P -> P -> bool)
         (h : history P D) (i j : N),
  i <> j -> get_version h i = None \/ get_version h j = None ->
  diff_versions peqb deqb ple h (Some i) j = Err.
Proof. exact diff_versions_missing. Qed.
Print Assumptions diff_missing_version_refused.

(** a version diffed with itself is empty: by the early return of diff_versions ... *)
Theorem diff_self_empty :
  forall (P D : Type) (peqb : P -> P -> bool) (deqb : D -> D -> bool) (ple : P -> P -> bool)
         (h : history P D) (v : N),
  diff_versions peqb deqb ple h (Some v) v = Ok [].
Proof. exact diff_versions_same. Qed.
Print Assumptions diff_self_empty.

(** ... and also by the rename detector itself *)
Theorem diff_self_empty_detector :
  forall (P D : Type) (peqb : P -> P -> bool) (deqb : D -> D -> bool) (ple : P -> P -> bool),
  (forall x y, peqb x y = true <-> x = y) -> (forall x y, deqb x y = true <-> x = y) ->
  forall s : state P D, NoDup (keys s) -> diff peqb deqb ple (Some s) s = [].
Proof. exact diff_self_nil. Qed.
Print Assumptions diff_self_empty_detector.

(** show = diff against the preceding version; everything is an Add for v1 *)
Theorem show_is_diff_with_predecessor :
  forall (P D : Type) (peqb : P -> P -> bool) (deqb : D -> D -> bool) (ple : P -> P -> bool)
         (h : history P D) (v : N),
  (1 < v -> diff_versions peqb deqb ple h None v = diff_versions peqb deqb ple h (Some (v - 1)) v) /\
  diff_versions peqb deqb ple h None 1 =
    match get_version h 1 with
    | Some s => Ok (map (fun e => Added (fst e)) s)
    | None => Err
    end.
Proof. exact DiffHistFacts.show_is_diff_with_predecessor. Qed.
Print Assumptions show_is_diff_with_predecessor.

(** diff_staged = diff of the last committed version with the staged state *)
Theorem diff_staged_is_diff_with_head :
  forall (P D : Type) (peqb : P -> P -> bool) (deqb : D -> D -> bool) (ple : P -> P -> bool)
         (h : history P D) (s : state P D),
  diff_staged peqb deqb ple h (Some s) =
    Ok (diff peqb deqb ple (match h with [] => None | _ => get_version h (N.of_nat (List.length h)) end) s) /\
  diff_staged peqb deqb ple h None = Ok [].
Proof. exact diff_staged_spec. Qed.
Print Assumptions diff_staged_is_diff_with_head.

(** the HashMap iteration orders are irrelevant: equal as sets for all permutations
    ([diff_equiv]: every entry has an equivalent entry on the other side; Renamed
    entries are compared as a pair of sets) *)
Theorem diff_order_independent :
  forall (P D : Type) (peqb : P -> P -> bool) (deqb : D -> D -> bool) (ple : P -> P -> bool),
  (forall x y, peqb x y = true <-> x = y) -> (forall x y, deqb x y = true <-> x = y) ->
  forall (l r : state P D) (l' r' : list (P * D)),
  NoDup (keys l) -> NoDup (keys r) -> Permutation l l' -> Permutation r r' ->
  diff_equiv P (diff peqb deqb ple (Some l) r) (diff peqb deqb ple (Some l') r') /\
  diff_equiv P (diff peqb deqb ple None r) (diff peqb deqb ple None r').
Proof. exact DiffFacts.diff_order_independent. Qed.
Print Assumptions diff_order_independent.

(** log of a file: V is listed <-> V is a version and the path's entry differs from the
    entry in V-1 (state 0 = empty): appeared, changed content, or disappeared; ascending;
    refused exactly when the path never existed *)
Theorem file_log_spec :
  forall (P D : Type) (peqb : P -> P -> bool) (deqb : D -> D -> bool),
  (forall x y, peqb x y = true <-> x = y) -> (forall x y, deqb x y = true <-> x = y) ->
  forall (h : history P D) (p : P),
  (forall vs, list_file_versions peqb deqb h p = Ok vs ->
     (forall V, In V vs <-> get_version h V <> None /\
                            lookup peqb p (state_at P D h V) <> lookup peqb p (state_at P D h (V - 1))) /\
     StronglySorted N.lt vs) /\
  (list_file_versions peqb deqb h p = Err <-> forall V, lookup peqb p (state_at P D h V) = None) /\
  list_file_versions peqb deqb h p <> Panic.
Proof. exact DiffHistFacts.file_log_spec. Qed.
Print Assumptions file_log_spec.

(** ls -l: every file of version T is attributed to the start of the maximal run of
    consecutive versions ending at T on which it keeps its digest
    ([run_start h p T u]: exists d, p has digest d at T, 1 <= u <= T, p has digest d on
    all of u..T, and u = 1 or p does not have digest d at u-1) *)
Theorem last_update_spec :
  forall (P D : Type) (peqb : P -> P -> bool) (deqb : D -> D -> bool),
  (forall x y, peqb x y = true <-> x = y) -> (forall x y, deqb x y = true <-> x = y) ->
  forall (h : history P D) (T : N),
  (forall sT, get_version h T = Some sT -> NoDup (keys sT) ->
     exists lus, last_updates peqb deqb h T = Ok lus /\
                 Permutation (map fst lus) (keys sT) /\
                 forall p u, In (p, u) lus -> run_start P D peqb h p T u) /\
  (get_version h T = None -> last_updates peqb deqb h T = Err).
Proof. exact DiffHistFacts.last_update_spec. Qed.
Print Assumptions last_update_spec.

Theorem last_update_unique :
  forall (P D : Type) (peqb : P -> P -> bool) (deqb : D -> D -> bool),
  (forall x y, peqb x y = true <-> x = y) -> (forall x y, deqb x y = true <-> x = y) ->
  forall (h : history P D) (p : P) (T u u' : N),
  run_start P D peqb h p T u -> run_start P D peqb h p T u' -> u = u'.
Proof. exact run_start_unique. Qed.
Print Assumptions last_update_unique.

(** log: a version carries exactly the name / address / message / timestamp given at commit *)
Theorem log_meta :
  forall (T : Type) (name address message : option bytes) (created : option T) (now : T)
         (m : commit_meta T) (v : vmeta T),
  with_user cm_new name address = Ok m ->
  details (update_meta now (with_created (with_message m message) created) v) =
    (name, address, message, match created with Some c => c | None => now end).
Proof. exact DiffHistFacts.log_meta. Qed.
Print Assumptions log_meta.

(** log lists every version once, in ascending order *)
Theorem log_lists_every_version :
  forall (T : Type) (h : list (vmeta T)),
  map fst (object_log h) = map N.of_nat (seq 1 (List.length h)) /\
  forall V m, get_version h V = Some m -> In (V, details m) (object_log h).
Proof. exact object_log_spec. Qed.
Print Assumptions log_lists_every_version.

(** Non-vacuity: concrete states with unique paths; paths and digests are numbers.
    left : 1->10 2->10 3->11 4->12 5->13 ;  right : 3->11 4->99 6->10 7->10 8->10 9->50
    1,2 -> 6,7,8 is a many-to-many rename of digest 10; 4 is modified; 5 deleted; 9 added. *)
Example C18_nonvacuous_diff :
  let l := [(1, 10); (2, 10); (3, 11); (4, 12); (5, 13)] in
  let r := [(3, 11); (4, 99); (6, 10); (7, 10); (8, 10); (9, 50)] in
  NoDup (keys l) /\ NoDup (keys r) /\
  diff N.eqb N.eqb N.leb (Some l) r = [Modified 4; Added 9; Deleted 5; Renamed [1; 2] [6; 7; 8]] /\
  apply_diff N.eqb (diff N.eqb N.eqb N.leb (Some l) r) (keys l) = [3; 4; 9; 6; 7; 8] /\
  diff N.eqb N.eqb N.leb (Some (rev l)) (rev r) = [Modified 4; Added 9; Deleted 5; Renamed [1; 2] [6; 7; 8]].
Proof.
  cbv zeta. split; [|split; [|split; [|split]]]; try (vm_compute; reflexivity);
    cbn; repeat constructor; cbn; intuition discriminate.
Qed.

(** history: v1 {1->10}, v2 {1->10, 2->20}, v3 {2->20}, v4 {1->10, 2->21}, v5 = v4 *)
Example C18_nonvacuous_history :
  let h : history N N := [[(1, 10)]; [(1, 10); (2, 20)]; [(2, 20)]; [(1, 10); (2, 21)]; [(1, 10); (2, 21)]] in
  list_file_versions N.eqb N.eqb h 1 = Ok [1; 3; 4] /\
  list_file_versions N.eqb N.eqb h 2 = Ok [2; 4] /\
  list_file_versions N.eqb N.eqb h 3 = Err /\
  last_updates N.eqb N.eqb h 5 = Ok [(1, 4); (2, 4)] /\
  last_updates N.eqb N.eqb h 2 = Ok [(2, 2); (1, 1)] /\
  last_updates N.eqb N.eqb h 6 = Err /\
  diff_versions N.eqb N.eqb N.leb h None 4 = Ok [Modified 2; Added 1] /\
  diff_versions N.eqb N.eqb N.leb h (Some 4) 5 = Ok [] /\
  diff_versions N.eqb N.eqb N.leb h None 1 = Ok [Added 1] /\
  diff_versions N.eqb N.eqb N.leb h (Some 6) 1 = Err /\
  diff_versions N.eqb N.eqb N.leb h (Some 6) 6 = Ok [].
Proof. cbv zeta. repeat split; vm_compute; reflexivity. Qed.

Example C18_nonvacuous_meta :
  with_user (T := N) cm_new (Some (b "n")) (Some (b "a")) = Ok (mkCM (Some (b "n")) (Some (b "a")) None None) /\
  with_user (T := N) cm_new None (Some (b "a")) = Err.
Proof. split; reflexivity. Qed.
