(** C19 - every committed object is found, exactly once, under any layout.
    Property theorems only; each closed by [exact] of a lemma from Proofs/.
    [gm] is the glob matcher (globset; external, universally quantified),
    [m] the mapping of the configured storage layout (C11's subject). *)
From Rocfl Require Import Base.Bytes Generated.Consts Model.Listing Model.KnownC19
  Proofs.ListingFacts Proofs.ListingWalkFacts Proofs.ListingGetFacts Proofs.ListingWitness.
From Coq Require Import Permutation.
Open Scope N_scope.

(** the regex of the id pre-filter is the one the model transcribes *)
Theorem C19_regex_pinned : K_OBJECT_ID_MATCHER = b """id""\s*:\s*""([^""]+)""".
Proof. exact object_id_matcher_pinned. Qed.
Print Assumptions C19_regex_pinned.

(** listing without a glob: every committed object exactly once, no error item
    (only the extensions class has to be excluded; ids that need escaping are
    listed correctly because no pre-filter runs) *)
Theorem C19_listing_exact : forall gm t,
  WellFormedRepo t -> c19_root_named_extensions t = false ->
  Permutation (listed_ids (list_objects gm t None)) (committed_ids t) /\
  NoDup (listed_ids (list_objects gm t None)) /\
  listed_errors (list_objects gm t None) = [].
Proof. exact listing_exact. Qed.
Print Assumptions C19_listing_exact.

(** listing with a glob: exactly the committed ids the glob matches *)
Theorem C19_listing_glob : forall gm t g,
  WellFormedRepo t -> c19 t = false ->
  Permutation (listed_ids (list_objects gm t (Some g))) (filter (gm g) (committed_ids t)) /\
  listed_errors (list_objects gm t (Some g)) = [].
Proof. exact listing_glob_lemma. Qed.
Print Assumptions C19_listing_glob.

(** nothing at or below a directory named extensions is ever yielded (in
    particular no staged-only object of extensions/rocfl-staging); holds for
    every tree and every glob.  This very rule causes finding root-named-extensions. *)
Theorem C19_no_extension_objects : forall gm t glob it,
  In it (list_objects gm t glob) ->
  has_ext (match it with IOk p _ => p | IErr p => p end) = false.
Proof. exact no_extension_items. Qed.
Print Assumptions C19_no_extension_objects.

(** the pre-filter reads the id off an inventory written by rocfl iff the id
    needs no JSON escape (the right-hand side is the classifier); in general it
    reads the escaped text up to the first quote *)
Theorem C19_extract_id_spec : forall pretty i rest,
  i <> [] ->
  (extract_object_id (serialize_inventory pretty i rest) = Some i <-> needs_escape i = false).
Proof. exact extract_id_spec_lemma. Qed.
Print Assumptions C19_extract_id_spec.

Theorem C19_extract_is_raw_capture : forall pretty i rest,
  i <> [] -> extract_object_id (serialize_inventory pretty i rest) = Some (raw_capture i).
Proof. exact extract_serialized. Qed.
Print Assumptions C19_extract_is_raw_capture.

(** lookup by scanning (repository without a layout): found iff committed, and
    then it is that object; never another answer *)
Theorem C19_get_found_iff_committed : forall t id,
  Forall wf_root (spec_roots t) -> c19 t = false ->
  (forall p j, scan_for_inventory t id = Found p j -> j = id /\ In id (committed_ids t)) /\
  (In id (committed_ids t) -> exists p, scan_for_inventory t id = Found p id) /\
  (~ In id (committed_ids t) -> scan_for_inventory t id = NotFound) /\
  scan_for_inventory t id <> Corrupt /\ scan_for_inventory t id <> GenErr.
Proof. exact scan_spec. Qed.
Print Assumptions C19_get_found_iff_committed.

(** lookup through the layout path: a committed object placed where the layout
    says is found (also below a directory named extensions), a free path is NotFound *)
Theorem C19_get_by_layout_path : forall m t i,
  names_unique t = true -> Placed m t ->
  (In i (committed_ids t) -> get_inventory_by_path t i (m i) = Found (m i) i) /\
  (lookup_path t (m i) = None -> get_inventory_by_path t i (m i) = NotFound).
Proof. exact get_by_layout_path_lemma. Qed.
Print Assumptions C19_get_by_layout_path.

(** get_inventory with the id->path cache of the handle *)
Theorem C19_get_inventory_nolayout : forall c t i,
  Forall wf_root (spec_roots t) -> names_unique t = true -> c19 t = false -> c19_cache_stale c t i = false ->
  (In i (committed_ids t) -> exists p, fst (get_inventory None c t i) = Found p i) /\
  (~ In i (committed_ids t) -> fst (get_inventory None c t i) = NotFound).
Proof. exact get_inventory_nolayout. Qed.
Print Assumptions C19_get_inventory_nolayout.

Theorem C19_get_inventory_layout : forall m c t i,
  names_unique t = true -> Placed m t -> c19_cache_stale c t i = false ->
  (In i (committed_ids t) -> exists p, fst (get_inventory (Some m) c t i) = Found p i) /\
  (~ In i (committed_ids t) -> lookup_path t (m i) = None -> fst (get_inventory (Some m) c t i) = NotFound).
Proof. exact get_inventory_layout. Qed.
Print Assumptions C19_get_inventory_layout.

(** purge removes exactly that id: from the listing, from the scan and from the path *)
Theorem C19_purged_not_found : forall gm t p ces i,
  WellFormedRepo t -> names_unique t = true -> c19 t = false ->
  In (p, ces) (walk t) -> In i (root_id (p, ces)) ->
  Permutation (listed_ids (list_objects gm (remove_at t p) None))
              (filter (fun j => negb (bytes_eqb j i)) (committed_ids t)) /\
  scan_for_inventory (remove_at t p) i = NotFound /\
  (forall j, j <> i -> In j (committed_ids t) -> exists p', scan_for_inventory (remove_at t p) j = Found p' j) /\
  get_inventory_by_path (remove_at t p) i p = NotFound.
Proof. exact purged_not_found_lemma. Qed.
Print Assumptions C19_purged_not_found.

(** the staged listing is the same walk over the staging root *)
Theorem C19_staged_listing_exact : forall gm s,
  WellFormedRepo s -> c19_root_named_extensions s = false ->
  Permutation (listed_ids (list_staged_objects gm s None)) (committed_ids s) /\
  NoDup (listed_ids (list_staged_objects gm s None)) /\
  listed_errors (list_staged_objects gm s None) = [].
Proof. exact staged_listing_exact_lemma. Qed.
Print Assumptions C19_staged_listing_exact.

Theorem C19_staged_listing_glob : forall gm s g,
  WellFormedRepo s -> c19 s = false ->
  Permutation (listed_ids (list_staged_objects gm s (Some g))) (filter (gm g) (committed_ids s)) /\
  listed_errors (list_staged_objects gm s (Some g)) = [].
Proof. exact staged_listing_glob_lemma. Qed.
Print Assumptions C19_staged_listing_glob.

(** The excluded classes are genuine defects of the modelled code (known findings). *)
Theorem C19_known_root_named_extensions_refuted :
  WellFormedRepo w_ext /\
  c19_root_named_extensions w_ext = true /\ c19_id_needs_escape w_ext = false /\
  committed_ids w_ext = [b "extensions"] /\
  list_objects lit_match w_ext None = [] /\
  scan_for_inventory w_ext (b "extensions") = NotFound /\
  get_inventory_by_path w_ext (b "extensions") w_ext_path = Found w_ext_path (b "extensions").
Proof. exact (conj w_ext_wf w_ext_facts). Qed.
Print Assumptions C19_known_root_named_extensions_refuted.

Theorem C19_known_id_needs_escape_refuted :
  WellFormedRepo w_esc /\
  c19_root_named_extensions w_esc = false /\ c19_id_needs_escape w_esc = true /\
  listed_ids (list_objects lit_match w_esc None) = [w_idq; b "plain"] /\
  raw_capture w_idq = w_idb /\
  scan_for_inventory w_esc w_idq = NotFound /\
  scan_for_inventory w_esc w_idb = Found [b "objs"; b "x"] w_idq /\
  list_objects lit_match w_esc (Some w_idq) = [].
Proof. exact (conj w_esc_wf w_esc_facts). Qed.
Print Assumptions C19_known_id_needs_escape_refuted.

Theorem C19_known_layout_path_occupied_refuted :
  ~ In (b "extensions") (committed_ids w_good) /\
  c19_layout_path_occupied w_good [b "extensions"] = true /\
  get_inventory_by_path w_good (b "extensions") [b "extensions"] = GenErr /\
  get_inventory_by_path w_good (b "0=ocfl_1.1") [b "0=ocfl_1.1"] = GenErr.
Proof. exact w_occupied_facts. Qed.
Print Assumptions C19_known_layout_path_occupied_refuted.

Theorem C19_known_stale_cache_refuted :
  committed_ids w_stale = [b "B1"] /\ c19 w_stale = false /\
  c19_cache_stale w_cache w_stale (b "A1") = true /\
  fst (get_inventory None w_cache w_stale (b "A1")) = Corrupt /\
  fst (get_inventory None [] w_stale (b "A1")) = NotFound.
Proof. exact w_stale_facts. Qed.
Print Assumptions C19_known_stale_cache_refuted.

(** Non-vacuity: a well-formed repository outside every class, with a staged-only
    object that is not listed, and its staging root as a repository of its own. *)
Example C19_nonvacuous :
  WellFormedRepo w_good /\ names_unique w_good = true /\ c19 w_good = false /\
  committed_ids w_good = [b "one"; b "two*[x]"] /\
  list_objects lit_match w_good None = [IOk [b "a"; b "b"] (b "one"); IOk [b "a"; b "c"] (b "two*[x]")] /\
  list_objects lit_match w_good (Some (b "two*[x]")) = [IOk [b "a"; b "c"] (b "two*[x]")] /\
  scan_for_inventory w_good (b "one") = Found [b "a"; b "b"] (b "one") /\
  scan_for_inventory w_good (b "staged-only") = NotFound /\
  In ([b "a"; b "b"], w_obj true (b "one")) (walk w_good) /\
  listed_ids (list_objects lit_match (remove_at w_good [b "a"; b "b"]) None) = [b "two*[x]"].
Proof. exact (conj w_good_wf w_good_facts). Qed.

Example C19_nonvacuous_staging :
  WellFormedRepo w_staging /\ c19 w_staging = false /\
  list_staged_objects lit_match w_staging None = [IOk [b "abc"] (b "staged-only")].
Proof. exact w_staging_wf. Qed.
