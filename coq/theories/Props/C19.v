(** C19 - every committed object is found, exactly once, under any layout.
    Property theorems only; each closed by [exact] of a lemma from Proofs/.
    [gm] is the glob matcher (globset; external, universally quantified),
    [m] the mapping of the configured storage layout (C11's subject).
    Four former known classes are repaired in /repo and no longer excluded:
    root-named-extensions (38fe584), stale-id-path-cache (4564259),
    layout-path-occupied (01aa490, 3802aa0) and id-needs-json-escape (5a727de).
    No theorem carries a classifier hypothesis any more (the remaining known
    class, glob-qmark-one-byte, concerns the external glob matcher [gm]). *)
From Rocfl Require Import Base.Bytes Generated.Consts Model.Listing Model.KnownC19
  Proofs.ListingFacts Proofs.ListingWalkFacts Proofs.ListingGetFacts Proofs.ListingHandle Proofs.ListingWitness.
From Coq Require Import Permutation.
Open Scope N_scope.

(** the regex of the id pre-filter is the one the model transcribes *)
Theorem C19_regex_pinned : K_OBJECT_ID_MATCHER = b """id""\s*:\s*(""(?:[^""\\]|\\.)+"")".
Proof. exact object_id_matcher_pinned. Qed.
Print Assumptions C19_regex_pinned.

(** listing without a glob: every committed object exactly once, no error item -
    for every well-formed repository (objects below a directory that is merely
    NAMED extensions included) *)
Theorem C19_listing_exact : forall gm t,
  WellFormedRepo t ->
  Permutation (listed_ids (list_objects gm t None)) (committed_ids t) /\
  NoDup (listed_ids (list_objects gm t None)) /\
  listed_errors (list_objects gm t None) = [].
Proof. exact listing_exact. Qed.
Print Assumptions C19_listing_exact.

(** listing with a glob: exactly the committed ids the glob matches - the glob
    is applied to the id itself, also when the id is spelled with JSON escapes
    in the inventory (quotes, backslashes, control characters) *)
Theorem C19_listing_glob : forall gm t g,
  WellFormedRepo t ->
  Permutation (listed_ids (list_objects gm t (Some g))) (filter (gm g) (committed_ids t)) /\
  listed_errors (list_objects gm t (Some g)) = [].
Proof. exact listing_glob_lemma. Qed.
Print Assumptions C19_listing_glob.

(** nothing at or below the storage root's extensions directory is ever yielded
    (in particular no staged-only object of extensions/rocfl-staging); holds for
    every tree and every glob *)
Theorem C19_no_extension_objects : forall gm t glob it,
  In it (list_objects gm t glob) ->
  in_root_ext (match it with IOk p _ => p | IErr p => p end) = false.
Proof. exact no_extension_items. Qed.
Print Assumptions C19_no_extension_objects.

(** the walk yields exactly the object roots of the repository: directories with
    an object declaration, outside other objects and outside the storage root's
    extensions directory *)
Theorem C19_walk_is_spec : forall t, walk t = spec_roots t.
Proof. exact walk_is_spec. Qed.
Print Assumptions C19_walk_is_spec.

(** the pre-filter reads the id off an inventory written by rocfl, whatever bytes
    the id is made of: the captured JSON string decodes to the id (5a727de) *)
Theorem C19_extract_id_spec : forall pretty i rest,
  i <> [] -> extract_object_id (serialize_inventory pretty i rest) = Some i.
Proof. exact extract_serialized. Qed.
Print Assumptions C19_extract_id_spec.

(** lookup by scanning (repository without a layout): found iff committed, and
    then it is that object; never another answer - for every id, ids that need
    a JSON escape included *)
Theorem C19_get_found_iff_committed : forall t id,
  Forall wf_root (spec_roots t) ->
  (forall p j, scan_for_inventory t id = Found p j -> j = id /\ In id (committed_ids t)) /\
  (In id (committed_ids t) -> exists p, scan_for_inventory t id = Found p id) /\
  (~ In id (committed_ids t) -> scan_for_inventory t id = NotFound) /\
  scan_for_inventory t id <> Corrupt /\ scan_for_inventory t id <> GenErr.
Proof. exact scan_spec. Qed.
Print Assumptions C19_get_found_iff_committed.

(** lookup through the layout path: a committed object placed where the layout
    says is found (also below a directory named extensions); a path that holds
    nothing, a regular file, or a directory without object declaration and
    inventory (e.g. [extensions], a directory other objects are stored beneath)
    is NotFound *)
Theorem C19_get_by_layout_path : forall m t i,
  names_unique t = true -> Placed m t ->
  (In i (committed_ids t) -> get_inventory_by_path t i (m i) = Found (m i) i) /\
  (object_like t (m i) = false -> get_inventory_by_path t i (m i) = NotFound).
Proof. exact get_by_layout_path_lemma. Qed.
Print Assumptions C19_get_by_layout_path.

(** nothing inside another object is ever taken for an object (3802aa0) *)
Theorem C19_inside_object_not_found : forall t i p,
  nested_in_object t p = true -> get_inventory_by_path t i p = NotFound.
Proof. exact get_by_path_nested. Qed.
Print Assumptions C19_inside_object_not_found.

Theorem C19_free_path_not_object : forall t p, lookup_path t p = None -> object_like t p = false.
Proof. exact object_like_free. Qed.
Print Assumptions C19_free_path_not_object.

(** get_inventory with the id->path cache of the handle.  [reachable lay t c]:
    the handle was opened and then used for any sequence of lookups (get_inventory,
    or only the root path as in write_new_object / validate_object) and purges
    while objects were created and versions committed ([Keeps]: every existing
    object stays where it is); without layout every state a lookup or purge ran
    on was in the class [Good] (well formed, unique names).  The cache then never lies. *)
Theorem C19_handle_cache_sound : forall t c, reachable None t c -> cache_sound c t = true.
Proof. exact reachable_sound. Qed.
Print Assumptions C19_handle_cache_sound.

Theorem C19_get_inventory_nolayout : forall t c i,
  reachable None t c -> Good t ->
  (In i (committed_ids t) -> exists p, fst (get_inventory None c t i) = Found p i) /\
  (~ In i (committed_ids t) -> fst (get_inventory None c t i) = NotFound).
Proof. exact handle_nolayout. Qed.
Print Assumptions C19_get_inventory_nolayout.

Theorem C19_get_inventory_layout : forall m t c i,
  reachable (Some m) t c -> names_unique t = true -> Placed m t ->
  (In i (committed_ids t) -> exists p, fst (get_inventory (Some m) c t i) = Found p i) /\
  (~ In i (committed_ids t) -> object_like t (m i) = false -> fst (get_inventory (Some m) c t i) = NotFound).
Proof. exact handle_layout. Qed.
Print Assumptions C19_get_inventory_layout.

(** the same for ANY cache content that names true object roots / layout paths *)
Theorem C19_get_inventory_sound_cache : forall c t i,
  Forall wf_root (spec_roots t) -> names_unique t = true ->
  cache_sound c t = true ->
  (In i (committed_ids t) -> exists p, fst (get_inventory None c t i) = Found p i) /\
  (~ In i (committed_ids t) -> fst (get_inventory None c t i) = NotFound).
Proof. exact get_inventory_nolayout. Qed.
Print Assumptions C19_get_inventory_sound_cache.

(** purge removes exactly that id: from the listing, from the scan and from the path *)
Theorem C19_purged_not_found : forall gm t p ces i,
  WellFormedRepo t -> names_unique t = true ->
  In (p, ces) (walk t) -> In i (root_id (p, ces)) ->
  Permutation (listed_ids (list_objects gm (remove_at t p) None))
              (filter (fun j => negb (bytes_eqb j i)) (committed_ids t)) /\
  scan_for_inventory (remove_at t p) i = NotFound /\
  (forall j, j <> i -> In j (committed_ids t) -> exists p', scan_for_inventory (remove_at t p) j = Found p' j) /\
  get_inventory_by_path (remove_at t p) i p = NotFound.
Proof. exact purged_not_found_lemma. Qed.
Print Assumptions C19_purged_not_found.

(** purge_object through a handle without layout: the object's root (and nothing
    else) is removed, the cached path is forgotten, and the SAME handle then
    reports the id as not found and still finds every other object *)
Theorem C19_purge_through_handle : forall gm t c i,
  reachable None t c -> Good t -> In i (committed_ids t) ->
  exists p, Rooted t i p /\
    purge_object None c t i = (POk, remove_at t p, cache_remove c i) /\
    Permutation (listed_ids (list_objects gm (remove_at t p) None))
                (filter (fun j => negb (bytes_eqb j i)) (committed_ids t)) /\
    fst (get_inventory None (cache_remove c i) (remove_at t p) i) = NotFound /\
    (forall j, j <> i -> In j (committed_ids t) ->
       exists p', fst (get_inventory None (cache_remove c i) (remove_at t p) j) = Found p' j).
Proof. exact handle_purge_nolayout. Qed.
Print Assumptions C19_purge_through_handle.

(** purge of an id that is not committed changes nothing *)
Theorem C19_purge_absent : forall t c i,
  reachable None t c -> Good t -> ~ In i (committed_ids t) -> purge_object None c t i = (POk, t, c).
Proof. exact handle_purge_absent_nolayout. Qed.
Print Assumptions C19_purge_absent.

Theorem C19_purge_through_handle_layout : forall m t c i,
  reachable (Some m) t c -> names_unique t = true -> Placed m t -> In i (committed_ids t) ->
  fst (purge_object (Some m) c t i) = (POk, remove_at t (m i)) /\
  fst (get_inventory (Some m) (snd (purge_object (Some m) c t i)) (remove_at t (m i)) i) = NotFound.
Proof. exact handle_purge_layout. Qed.
Print Assumptions C19_purge_through_handle_layout.

(** the guard of purge (validate_object_root) accepts the root of every object of the repository *)
Theorem C19_object_roots_pass_guard : forall t p ces,
  names_unique t = true -> In (p, ces) (walk t) -> validate_object_root t p = true.
Proof. exact walk_root_validates. Qed.
Print Assumptions C19_object_roots_pass_guard.

(** the staged listing is the same walk over the staging root *)
Theorem C19_staged_listing_exact : forall gm s,
  WellFormedRepo s ->
  Permutation (listed_ids (list_staged_objects gm s None)) (committed_ids s) /\
  NoDup (listed_ids (list_staged_objects gm s None)) /\
  listed_errors (list_staged_objects gm s None) = [].
Proof. exact staged_listing_exact_lemma. Qed.
Print Assumptions C19_staged_listing_exact.

Theorem C19_staged_listing_glob : forall gm s g,
  WellFormedRepo s ->
  Permutation (listed_ids (list_staged_objects gm s (Some g))) (filter (gm g) (committed_ids s)) /\
  listed_errors (list_staged_objects gm s (Some g)) = [].
Proof. exact staged_listing_glob_lemma. Qed.
Print Assumptions C19_staged_listing_glob.

(** The four repaired classes, as examples of the theorems above, each with a
    historical note: the definitions [walk_before_fix] / [purge_cache_before_fix] /
    [get_inventory_by_path_before_fix] / [extract_object_id_before_fix] are the
    code before 38fe584 / 4564259 / 01aa490 + 3802aa0 / 5a727de and violated the
    property. *)
Example C19_repaired_id_needs_escape :
  WellFormedRepo w_esc /\ names_unique w_esc = true /\
  needs_escape w_idq = true /\ needs_escape w_idc = true /\
  listed_ids (list_objects lit_match w_esc None) = [w_idq; b "plain"; w_idc] /\
  extract_object_id (serialize_inventory false w_idq w_rest) = Some w_idq /\
  extract_object_id (serialize_inventory true w_idc w_rest) = Some w_idc /\
  scan_for_inventory w_esc w_idq = Found [b "objs"; b "x"] w_idq /\
  scan_for_inventory w_esc w_idc = Found [b "objs"; b "z"] w_idc /\
  scan_for_inventory w_esc w_idb = NotFound /\
  list_objects lit_match w_esc (Some w_idq) = [IOk [b "objs"; b "x"] w_idq] /\
  list_objects lit_match w_esc (Some w_idb) = [] /\
  get_inventory None [] w_esc w_idq = (Found [b "objs"; b "x"] w_idq, [(w_idq, [b "objs"; b "x"])]) /\
  fst (get_inventory None [(w_idq, [b "objs"; b "x"])] w_esc w_idq) = Found [b "objs"; b "x"] w_idq /\
  get_inventory None [] w_esc w_idb = (NotFound, []) /\
  purge_object None [(w_idq, [b "objs"; b "x"])] w_esc w_idq = (POk, remove_at w_esc [b "objs"; b "x"], []).
Proof. exact (conj w_esc_wf w_esc_facts). Qed.

(** before 5a727de the pre-filter read the escaped text cut at its first quote:
    the id itself exactly when the id needs no JSON escape *)
Theorem C19_history_id_needs_escape_before_fix : forall pretty i rest,
  i <> [] ->
  extract_object_id_before_fix (serialize_inventory pretty i rest) = Some (raw_capture i) /\
  (extract_object_id_before_fix (serialize_inventory pretty i rest) = Some i <-> needs_escape i = false).
Proof. exact extract_before_fix_history. Qed.
Print Assumptions C19_history_id_needs_escape_before_fix.

Example C19_history_id_needs_escape_witness_before_fix :
  raw_capture w_idq = w_idb /\
  extract_object_id_before_fix (serialize_inventory false w_idq w_rest) = Some w_idb /\
  extract_object_id_before_fix (serialize_inventory true w_idc w_rest) = Some (b "q\").
Proof. exact w_esc_before_fix. Qed.

(** hand-written inventories: what the pre-filter reads, the decoding fallback (fs.rs:1069) *)
Example C19_prefilter_examples :
  extract_object_id (b "{""id"":""a\""id\"":\""zz""" ++ w_tail) = Some (b "a""id"":""zz") /\
  parse_inventory_id (b "{""id"":""a\""id\"":\""zz""" ++ w_tail) = Some (b "a""id"":""zz") /\
  extract_object_id (b "{ ""id"" : ""c6\u0041\ud83d\ude00""" ++ w_tail) = Some (b "c6A" ++ bs [240; 159; 152; 128]) /\
  parse_inventory_id (b "{ ""id"" : ""c6\u0041\ud83d\ude00""" ++ w_tail) = Some (b "c6A" ++ bs [240; 159; 152; 128]) /\
  extract_object_id (b "{""id"":""a" ++ bs [9] ++ b "b""" ++ w_tail) = Some (b "a" ++ bs [9] ++ b "b") /\
  parse_inventory_id (b "{""id"":""a" ++ bs [9] ++ b "b""" ++ w_tail) = None /\
  extract_object_id (b "{""id"":""x\qy""" ++ w_tail) = Some (b "x\qy") /\
  parse_inventory_id (b "{""id"":""x\qy""" ++ w_tail) = None /\
  extract_object_id (b "{""id"":""\ud800x""" ++ w_tail) = Some (b "\ud800x") /\
  extract_object_id (b "{""id"":""\u00""" ++ w_tail) = Some (b "\u00") /\
  extract_object_id (b "{""id"":"""",""x"":{""id"":""in""}}") = Some (b "in") /\
  extract_object_id (b "{""id"":""a" ++ bs [10] ++ b "b"",""id"":""second""}") = Some (b "second") /\
  extract_object_id (b "{""id"":""a\" ++ bs [10] ++ b """}") = None.
Proof. exact w_prefilter_examples. Qed.

Example C19_repaired_layout_path_occupied :
  ~ In (b "extensions") (committed_ids w_good) /\
  object_like w_good [b "extensions"] = false /\
  get_inventory_by_path w_good (b "extensions") [b "extensions"] = NotFound /\
  get_inventory_by_path w_good (b "0=ocfl_1.1") [b "0=ocfl_1.1"] = NotFound /\
  get_inventory_by_path w_good (b "a") [b "a"] = NotFound /\
  nested_in_object w_good [b "a"; b "b"; b "v1"] = true /\
  object_like w_good [b "a"; b "b"; b "v1"] = true /\
  get_inventory_by_path w_good (b "a/b/v1") [b "a"; b "b"; b "v1"] = NotFound /\
  fst (get_inventory (Some (fun i => [i])) [] w_good (b "extensions")) = NotFound /\
  get_inventory_by_path w_good (b "one") [b "a"; b "b"] = Found [b "a"; b "b"] (b "one") /\
  get_inventory_by_path w_good (b "zzz") [b "a"; b "b"] = Corrupt.
Proof. exact w_occupied_facts. Qed.

Example C19_history_layout_path_occupied_before_fix :
  get_inventory_by_path_before_fix w_good (b "extensions") [b "extensions"] = GenErr /\
  get_inventory_by_path_before_fix w_good (b "0=ocfl_1.1") [b "0=ocfl_1.1"] = GenErr /\
  get_inventory_by_path_before_fix w_good (b "a") [b "a"] = GenErr /\
  get_inventory_by_path_before_fix w_good (b "a/b/v1") [b "a"; b "b"; b "v1"] = Corrupt.
Proof. exact w_occupied_before_fix. Qed.

Example C19_repaired_root_named_extensions :
  WellFormedRepo w_ext /\
  committed_ids w_ext = [b "extensions"] /\
  list_objects lit_match w_ext None = [IOk w_ext_path (b "extensions")] /\
  list_objects lit_match w_ext (Some (b "extensions")) = [IOk w_ext_path (b "extensions")] /\
  scan_for_inventory w_ext (b "extensions") = Found w_ext_path (b "extensions") /\
  get_inventory_by_path w_ext (b "extensions") w_ext_path = Found w_ext_path (b "extensions") /\
  validate_object_root w_ext w_ext_path = true /\
  validate_object_root w_ext [EXT; b "rocfl-staging"; b "abc"] = false.
Proof. exact (conj w_ext_wf w_ext_facts). Qed.

Example C19_history_root_named_extensions_before_fix :
  walk_before_fix w_ext = [] /\ walk w_ext = [(w_ext_path, w_obj false (b "extensions"))].
Proof. exact w_ext_before_fix. Qed.

Example C19_repaired_stale_cache :
  snd (get_inventory None [] w_stale0 (b "A1")) = w_cache /\
  purge_object None w_cache w_stale0 (b "A1") = (POk, remove_at w_stale0 [b "reuse"; b "x"], []) /\
  committed_ids w_stale = [b "B1"] /\
  reachable None w_stale [] /\
  fst (get_inventory None [] w_stale (b "A1")) = NotFound /\
  fst (get_inventory None [] w_stale (b "B1")) = Found [b "reuse"; b "x"] (b "B1").
Proof. exact w_stale_history. Qed.

Example C19_history_stale_cache_before_fix :
  purge_cache_before_fix None w_cache w_stale0 (b "A1") = w_cache /\
  cache_sound w_cache w_stale = false /\
  fst (get_inventory None w_cache w_stale (b "A1")) = Corrupt.
Proof. exact w_stale_before_fix. Qed.

(** Non-vacuity: a well-formed repository, with a staged-only
    object that is not listed, and its staging root as a repository of its own. *)
Example C19_nonvacuous :
  WellFormedRepo w_good /\ names_unique w_good = true /\
  committed_ids w_good = [b "one"; b "two*[x]"] /\
  list_objects lit_match w_good None = [IOk [b "a"; b "b"] (b "one"); IOk [b "a"; b "c"] (b "two*[x]")] /\
  list_objects lit_match w_good (Some (b "two*[x]")) = [IOk [b "a"; b "c"] (b "two*[x]")] /\
  scan_for_inventory w_good (b "one") = Found [b "a"; b "b"] (b "one") /\
  scan_for_inventory w_good (b "staged-only") = NotFound /\
  In ([b "a"; b "b"], w_obj true (b "one")) (walk w_good) /\
  listed_ids (list_objects lit_match (remove_at w_good [b "a"; b "b"]) None) = [b "two*[x]"].
Proof. exact (conj w_good_wf w_good_facts). Qed.

Example C19_nonvacuous_staging :
  WellFormedRepo w_staging /\
  list_staged_objects lit_match w_staging None = [IOk [b "abc"] (b "staged-only")].
Proof. exact w_staging_wf. Qed.
