(** C20 - the command line does what the library does and its exit status is truthful
    (partial: the decision logic is proved; clap's tokenisation, terminal styling and
    the stdout plumbing are exercised by the correspondence run, not modelled).
    Property theorems only; each closed by [exact] of a lemma from Proofs/CliFacts.v. *)
From Rocfl Require Import Base.Bytes Generated.Consts Model.Cli Proofs.CliFacts.
Open Scope N_scope.

(** The exit statuses written in the sources on this run (regenerated constants). *)
Theorem C20_exit_codes_pinned :
  K_MAIN_EXIT_CODES = [1] /\ K_VALIDATE_EXIT_CODES = [1; 2].
Proof. exact (conj main_exit_codes_pinned validate_exit_codes_pinned). Qed.
Print Assumptions C20_exit_codes_pinned.

(** Exit status 0 exactly when the command succeeded: every library call returned Ok,
    no item of a listing failed and, for validate, nothing invalid is left after
    suppression (storage root included: src/cmd/validate.rs:144 after commit 33c0c45). *)
Theorem C20_exit_zero_iff_success : forall c,
  cli_exit c = 0 <-> cmd_success c = true.
Proof. exact exit_zero_iff_success. Qed.
Print Assumptions C20_exit_zero_iff_success.

Theorem C20_main_exit_zero_iff_all_calls_ok : forall o,
  main_exit o = 0 <-> forallb is_lok o = true.
Proof. exact main_exit_zero_iff. Qed.
Print Assumptions C20_main_exit_zero_iff_all_calls_ok.

(** A partial failure of cp / mv (CopyMoveError) is a failure. *)
Theorem C20_partial_cp_mv_nonzero : forall pre n post,
  main_exit (pre ++ LErr (ECopyMove n) :: post) = 1.
Proof. exact main_exit_partial_copy_move. Qed.
Print Assumptions C20_partial_cp_mv_nonzero.

(** An object that could not be read while listing makes ls exit with 1. *)
Theorem C20_ls_item_error_nonzero : forall items e,
  In (LErr e) items -> ls_exit (LsObjects LOk items) = 1.
Proof. exact ls_exit_item_error. Qed.
Print Assumptions C20_ls_item_error_nonzero.

(** validate <ids>: 2 exactly when some validated object keeps an unsuppressed error. *)
Theorem C20_validate_objects_exit_2_iff_invalid_after_suppression : forall f objs,
  validate_objects_exit f objs = 2 <->
  exists r e, In (VRes r) objs /\ In e (vr_errors r) /\ ~ In e (vf_sup_e f).
Proof. exact validate_objects_exit_2_iff_prop. Qed.
Print Assumptions C20_validate_objects_exit_2_iff_invalid_after_suppression.

(** validate (repository): 2 exactly when the storage root, some object or the storage
    hierarchy keeps an unsuppressed error.  For ALL options and results: -e / -w are applied
    to the storage root result (validate.rs:144), to every object result (:163) and to the
    storage hierarchy result (:201). *)
Theorem C20_validate_exit_2_iff_invalid_after_suppression : forall f rr,
  validate_repo_exit f rr = 2 <->
  (exists e, In e (vr_errors (rr_root rr)) /\ ~ In e (vf_sup_e f)) \/
  (exists r e, In (VRes r) (rr_objects rr) /\ In e (vr_errors r) /\ ~ In e (vf_sup_e f)) \/
  (exists e, In e (vr_errors (rr_hier rr)) /\ ~ In e (vf_sup_e f)).
Proof. exact validate_repo_exit_2_iff_prop. Qed.
Print Assumptions C20_validate_exit_2_iff_invalid_after_suppression.

(** What validate writes about the storage itself agrees with the verdict: a written
    "Storage root / hierarchy is ..." block lists exactly the unsuppressed errors of that
    result and no suppressed warning ... *)
Theorem C20_validate_storage_blocks_list_only_unsuppressed : forall f rr,
  (forall es ws, validate_repo_root_block f rr = Some (es, ws) ->
     (forall e, In e es <-> In e (vr_errors (rr_root rr)) /\ ~ In e (vf_sup_e f)) /\
     (forall w, In w ws -> In w (vr_warnings (rr_root rr)) /\ ~ In w (vf_sup_w f))) /\
  (forall es ws, validate_repo_hier_block f rr = Some (es, ws) ->
     (forall e, In e es <-> In e (vr_errors (rr_hier rr)) /\ ~ In e (vf_sup_e f)) /\
     (forall w, In w ws -> In w (vr_warnings (rr_hier rr)) /\ ~ In w (vf_sup_w f))).
Proof. exact validate_repo_blocks_sound. Qed.
Print Assumptions C20_validate_storage_blocks_list_only_unsuppressed.

(** ... every unsuppressed storage error is written whatever -l says, every unsuppressed
    storage warning unless -l error ... *)
Theorem C20_validate_unsuppressed_storage_problems_written : forall f rr,
  (forall e, In e (vr_errors (rr_root rr)) -> ~ In e (vf_sup_e f) ->
     exists es ws, validate_repo_root_block f rr = Some (es, ws) /\ In e es) /\
  (forall e, In e (vr_errors (rr_hier rr)) -> ~ In e (vf_sup_e f) ->
     exists es ws, validate_repo_hier_block f rr = Some (es, ws) /\ In e es) /\
  (forall w, In w (vr_warnings (rr_root rr)) -> ~ In w (vf_sup_w f) -> vf_level f <> LvError ->
     exists es ws, validate_repo_root_block f rr = Some (es, ws) /\ In w ws) /\
  (forall w, In w (vr_warnings (rr_hier rr)) -> ~ In w (vf_sup_w f) -> vf_level f <> LvError ->
     exists es ws, validate_repo_hier_block f rr = Some (es, ws) /\ In w ws).
Proof. exact validate_repo_blocks_complete. Qed.
Print Assumptions C20_validate_unsuppressed_storage_problems_written.

(** ... and the summary says "Storage issues: 0" exactly when every error of the storage
    root and of the storage hierarchy is suppressed. *)
Theorem C20_validate_storage_issues_zero_iff_all_suppressed : forall f rr,
  validate_repo_storage_issues f rr = 0 <->
  (forall e, In e (vr_errors (rr_root rr)) -> In e (vf_sup_e f)) /\
  (forall e, In e (vr_errors (rr_hier rr)) -> In e (vf_sup_e f)).
Proof. exact validate_repo_storage_issues_zero_iff. Qed.
Print Assumptions C20_validate_storage_issues_zero_iff_all_suppressed.

(** Historical note (about [validate_repo_exit_before_fix], which is NOT the model of /repo):
    before commit 33c0c45 line 144 suppressed the hierarchy result instead of the root
    result.  The repair changed the exit status exactly where the user suppresses an error
    of the storage root and nothing invalid is left; there the old code answered 2, which
    violated the property (former known finding validate-root-suppression). *)
Theorem C20_note_before_fix_differs_exactly_on_suppressed_root_errors : forall f rr,
  validate_repo_exit_before_fix f rr <> validate_repo_exit f rr <->
  (exists e, In e (vr_errors (rr_root rr)) /\ In e (vf_sup_e f)) /\
  repo_invalid_after_suppression f rr = false.
Proof. exact validate_repo_before_fix_differs_iff. Qed.
Print Assumptions C20_note_before_fix_differs_exactly_on_suppressed_root_errors.

Theorem C20_note_before_fix_violated_the_property :
  exists f rr, validate_repo_exit_before_fix f rr = 2 /\ repo_invalid_after_suppression f rr = false /\
               validate_repo_exit f rr = 0.
Proof. exact validate_before_fix_violated_property. Qed.
Print Assumptions C20_note_before_fix_violated_the_property.

(** Exit status 1: nothing invalid, but some validation could not be performed. *)
Theorem C20_validate_objects_exit_1_iff_only_operational_errors : forall f objs,
  validate_objects_exit f objs = 1 <->
  objects_invalid_after_suppression f objs = false /\ existsb is_verr objs = true.
Proof. exact validate_objects_exit_1_iff. Qed.
Print Assumptions C20_validate_objects_exit_1_iff_only_operational_errors.

Theorem C20_validate_exit_1_iff_only_operational_errors : forall f rr,
  validate_repo_exit f rr = 1 <->
  repo_invalid_after_suppression f rr = false /\ existsb is_verr (rr_objects rr) = true.
Proof. exact validate_repo_exit_1_iff. Qed.
Print Assumptions C20_validate_exit_1_iff_only_operational_errors.

Theorem C20_validate_exit_in_0_1_2 : forall f objs rr,
  (validate_objects_exit f objs = 0 \/ validate_objects_exit f objs = 1 \/ validate_objects_exit f objs = 2) /\
  (validate_repo_exit f rr = 0 \/ validate_repo_exit f rr = 1 \/ validate_repo_exit f rr = 2).
Proof. exact validate_exit_range. Qed.
Print Assumptions C20_validate_exit_in_0_1_2.

(** Suppressing more codes never turns exit status 0 into 2. *)
Theorem C20_suppression_monotone : forall f f' objs rr,
  incl (vf_sup_e f) (vf_sup_e f') ->
  (validate_objects_exit f objs = 0 -> validate_objects_exit f' objs <> 2) /\
  (validate_repo_exit f rr = 0 -> validate_repo_exit f' rr <> 2).
Proof. exact suppression_monotone_all. Qed.
Print Assumptions C20_suppression_monotone.

(** Totality of the option mapping on the generated grammar: every command line clap
    accepts, on a filesystem repository, is dispatched to a determined, non-empty (but
    for a declined purge and diff of equal versions) sequence of library calls on the
    repository named by -r / -s (default root "."). *)
Theorem C20_argv_to_call_total : forall g s,
  fs_globals g -> clap_accepts s = true ->
  exists open_repo calls,
    argv_to_call g s = Calls open_repo (dflt (b ".") (g_root g)) (g_staging g) calls /\
    calls = calls_of (dflt (b ".") (g_root g)) (g_staging g) s /\
    (no_call_cmd s = false -> calls <> []) /\
    (open_repo = false <-> (exists v c l, s = SInit v c l) \/ s = SConfig).
Proof. exact argv_to_call_total. Qed.
Print Assumptions C20_argv_to_call_total.

Theorem C20_argv_rejected_iff_clap_constraint : forall g s,
  argv_to_call g s = Rejected <-> clap_accepts s = false.
Proof. exact argv_to_call_rejected_iff. Qed.
Print Assumptions C20_argv_rejected_iff_clap_constraint.

Theorem C20_argv_defaults : forall root staging id,
  calls_of root staging (SInit None None None) = [InitFsRepo root staging Ocfl1_1 LyHashedNTuple None] /\
  calls_of root staging (SNew None None None None id) = [CreateObject id None Sha512 K_DEFAULT_CONTENT_DIR 0] /\
  calls_of root staging (SReset false id []) = [ResetAll id] /\
  calls_of root staging (SCat false None id (b "p")) = [LogicalPathTryFrom (b "p"); GetObjectFile id (b "p") VHead] /\
  calls_of root staging (SValidate false false None [] [] []) = [ValidateRepo true].
Proof. exact argv_defaults. Qed.
Print Assumptions C20_argv_defaults.

Theorem C20_argv_options_forwarded :
  forall root staging id src dst paths r v d c z sv n a m cr oroot p,
  calls_of root staging (SNew sv (Some d) (Some c) (Some z) id) = [CreateObject id sv d c z] /\
  calls_of root staging (SCp r false None id src dst) = [CopyFilesExternal id src dst r] /\
  calls_of root staging (SCp r true v id src dst) = [CopyFilesInternal id (vref_of v) src dst r] /\
  calls_of root staging (SMv true id src dst) = [MoveFilesInternal id src dst] /\
  calls_of root staging (SMv false id src dst) = [MoveFilesExternal id src dst] /\
  calls_of root staging (SRm r id paths) = [RemoveFiles id paths r] /\
  calls_of root staging (SCommit p n a m cr oroot id) = [CommitMetaWithUser n a; Commit id n a m cr oroot p] /\
  calls_of root staging (SCat true None id dst) = [LogicalPathTryFrom dst; GetStagedObjectFile id dst] /\
  calls_of root staging (SCat false v id dst) = [LogicalPathTryFrom dst; GetObjectFile id dst (vref_of v)] /\
  calls_of root staging (SValidate true true None [] [] [id]) = [ValidateObjectAt id false] /\
  calls_of root staging (SValidate false false None [] [] [id]) = [ValidateObject id true].
Proof. exact argv_options_forwarded. Qed.
Print Assumptions C20_argv_options_forwarded.

(** Non-vacuity: the hypotheses are met, and each exit status is reached. *)
Example C20_nonvacuous_validate :
  let f := mkVF false false LvInfo [5] [69; 92] in
  let ok := VRes (mkVR [] [5]) in
  let bad := VRes (mkVR [92; 23] []) in
  (* a root error that is not suppressed *)
  validate_repo_exit f (mkRR (mkVR [80] []) [ok] empty_vr) = 2 /\
  (* the only problem is a suppressed root error: exit 0, nothing listed, no storage issue *)
  validate_repo_exit f (mkRR (mkVR [69] []) [ok] empty_vr) = 0 /\
  validate_repo_root_block f (mkRR (mkVR [69] []) [ok] empty_vr) = Some ([], []) /\
  validate_repo_storage_issues f (mkRR (mkVR [69] []) [ok] empty_vr) = 0 /\
  (* a suppressed root error next to an unsuppressed one / an invalid object / a hierarchy error *)
  validate_repo_exit f (mkRR (mkVR [69; 80] []) [ok] empty_vr) = 2 /\
  validate_repo_root_block f (mkRR (mkVR [69; 80] [16]) [ok] empty_vr) = Some ([80], [16]) /\
  validate_repo_exit f (mkRR (mkVR [69] []) [ok; bad] empty_vr) = 2 /\
  validate_repo_exit f (mkRR (mkVR [69] []) [ok] (mkVR [72] [])) = 2 /\
  validate_repo_storage_issues f (mkRR (mkVR [69] []) [ok] (mkVR [72] [])) = 1 /\
  (* -w on a root warning, -l error hides the block of a result that only has warnings *)
  validate_repo_root_block (mkVF false false LvWarn [16] []) (mkRR (mkVR [] [16]) [ok] empty_vr) = None /\
  validate_repo_root_block (mkVF false false LvWarn [] []) (mkRR (mkVR [] [16]) [ok] empty_vr) = Some ([], [16]) /\
  validate_repo_root_block (mkVF false false LvError [] []) (mkRR (mkVR [] [16]) [ok] empty_vr) = None /\
  (* hierarchy error suppressed: honoured *)
  validate_repo_exit (mkVF false false LvInfo [] [72]) (mkRR empty_vr [ok] (mkVR [72] [])) = 0 /\
  validate_repo_exit f (mkRR empty_vr [ok; VErr] empty_vr) = 1 /\
  validate_objects_exit f [ok; bad] = 2 /\
  validate_objects_exit (mkVF false false LvInfo [] [92; 23]) [ok; bad] = 0 /\
  validate_objects_exit f [ok; VErr] = 1 /\
  validate_objects_exit f [ok] = 0.
Proof. vm_compute. repeat split; reflexivity. Qed.

Example C20_nonvacuous_exit :
  cli_exit (OPlain [LOk; LOk]) = 0 /\
  cli_exit (OValidateRepo (mkVF false false LvInfo [] [69]) (Some (mkRR (mkVR [69] []) [VRes (mkVR [] [5])] empty_vr))) = 0 /\
  cmd_success (OValidateRepo (mkVF false false LvInfo [] [69]) (Some (mkRR (mkVR [69] []) [VRes (mkVR [] [5])] empty_vr))) = true /\
  cli_exit (OPlain [LOk; LErr (ECopyMove 1)]) = 1 /\
  cli_exit (OLs (LsObjects LOk [LOk; LErr EOther; LOk])) = 1 /\
  ls_objects_entries [LOk; LErr EOther; LOk] = 2 /\
  cli_exit ONoRepo = 1 /\ cli_exit OUsage = 2.
Proof. vm_compute. repeat split; reflexivity. Qed.

Example C20_nonvacuous_argv :
  let g := mkG (Some (b "repo")) None None None None in
  fs_globals g /\
  clap_accepts (SCp true true (Some (b "v2")) (b "o") [b "a/*"] (b "dst/")) = true /\
  argv_to_call g (SCp true true (Some (b "v2")) (b "o") [b "a/*"] (b "dst/")) =
    Calls true (b "repo") None [CopyFilesInternal (b "o") (VNumber (b "v2")) [b "a/*"] (b "dst/") true] /\
  argv_to_call g (SCp false false (Some (b "v2")) (b "o") [b "x"] (b "y")) = Rejected /\
  argv_to_call (mkG None None None (Some (b "us-east-1")) None) (SInfo false None) = NoRepo /\
  argv_to_call (mkG None None None None None) (SPurge false false (b "o")) = Calls true (b ".") None [].
Proof. vm_compute. repeat split; reflexivity. Qed.
