//! Interactive history runner: one JSON command per stdin line, one JSON
//! result per stdout line.  Several repository handles may be open at once
//! (clients with different staging roots).
use std::collections::HashMap;
use std::convert::TryFrom;
use std::io::{self, BufRead, Write};
use std::panic::{catch_unwind, AssertUnwindSafe};
use std::path::{Path, PathBuf};
use std::str::FromStr;

use chrono::{DateTime, Local};
use rocfl::ocfl::*;
use rusoto_core::Region;
use serde_json::{json, Value};

use crate::{err_json, layout_from, panic_msg, sha256_hex};

pub fn run() {
    let stdin = io::stdin();
    let stdout = io::stdout();
    let mut repos: HashMap<String, OcflRepo> = HashMap::new();
    for line in stdin.lock().lines() {
        let line = line.unwrap();
        if line.trim().is_empty() {
            continue;
        }
        let v: Value = match serde_json::from_str(&line) {
            Ok(v) => v,
            Err(e) => {
                let mut out = stdout.lock();
                writeln!(out, "{}", json!({"err": {"kind": "harness", "msg": format!("bad json: {}", e)}})).unwrap();
                out.flush().unwrap();
                continue;
            }
        };
        let r = match catch_unwind(AssertUnwindSafe(|| exec(&mut repos, &v))) {
            Ok(Ok(val)) => json!({ "ok": val }),
            Ok(Err(e)) => err_json(&e),
            Err(e) => json!({ "panic": panic_msg(&e) }),
        };
        let mut out = stdout.lock();
        writeln!(out, "{}", r).unwrap();
        out.flush().unwrap();
        if v["cmd"] == "quit" {
            break;
        }
    }
}

fn s<'a>(v: &'a Value, k: &str) -> &'a str {
    v[k].as_str().unwrap_or_else(|| panic!("harness: missing string field {}", k))
}

fn opt_s(v: &Value, k: &str) -> Option<String> {
    v[k].as_str().map(|x| x.to_string())
}

fn strs(v: &Value, k: &str) -> Vec<String> {
    v[k].as_array()
        .map(|a| a.iter().map(|x| x.as_str().unwrap().to_string()).collect())
        .unwrap_or_default()
}

fn spec(v: &Value, k: &str) -> Result<Option<SpecVersion>> {
    match v[k].as_str() {
        None => Ok(None),
        Some(x) => Ok(Some(SpecVersion::try_from_num(x)?)),
    }
}

fn vref(v: &Value, k: &str) -> Result<VersionRef> {
    match &v[k] {
        Value::Null => Ok(VersionRef::Head),
        Value::Number(n) => Ok(VersionRef::try_from(n.as_u64().unwrap() as u32)?),
        Value::String(x) => Ok(VersionRef::try_from(x.as_str())?),
        _ => panic!("harness: bad version"),
    }
}

fn vnum(v: &Value, k: &str) -> Result<Option<VersionNum>> {
    match &v[k] {
        Value::Null => Ok(None),
        Value::Number(n) => Ok(Some(VersionNum::try_from(n.as_u64().unwrap() as u32)?)),
        Value::String(x) => Ok(Some(VersionNum::try_from(x.as_str())?)),
        _ => panic!("harness: bad version"),
    }
}

fn meta(v: &Value) -> Result<CommitMeta> {
    let created: Option<DateTime<Local>> = match v["created"].as_str() {
        Some(c) => Some(DateTime::from_str(c).map_err(|e| RocflError::InvalidValue(format!("{}", e)))?),
        None => None,
    };
    Ok(CommitMeta::new()
        .with_user(opt_s(v, "name"), opt_s(v, "address"))?
        .with_message(opt_s(v, "message"))
        .with_created(created))
}

fn vd_json(d: &VersionDetails) -> Value {
    json!({
        "version": d.version_num.to_string(),
        "num": d.version_num.number,
        "created": d.created.to_rfc3339(),
        "name": d.user_name,
        "address": d.user_address,
        "message": d.message,
    })
}

fn ov_json(o: &ObjectVersion) -> Value {
    let mut state = serde_json::Map::new();
    for (p, d) in &o.state {
        state.insert(
            p.to_string(),
            json!({
                "digest": d.digest.to_string(),
                "content_path": d.content_path.to_string(),
                "storage_path": d.storage_path,
                "last_update": d.last_update.version_num.number,
            }),
        );
    }
    json!({
        "id": o.id,
        "object_root": o.object_root,
        "alg": o.digest_algorithm.to_string(),
        "details": vd_json(&o.version_details),
        "state": state,
    })
}

fn ovd_json(o: &ObjectVersionDetails) -> Value {
    json!({
        "id": o.id,
        "object_root": o.object_root,
        "alg": o.digest_algorithm.to_string(),
        "details": vd_json(&o.version_details),
    })
}

fn diff_json(d: &[Diff]) -> Value {
    let mut out = Vec::new();
    for x in d {
        out.push(match x {
            Diff::Added(p) => json!({"a": p.to_string()}),
            Diff::Modified(p) => json!({"m": p.to_string()}),
            Diff::Deleted(p) => json!({"d": p.to_string()}),
            Diff::Renamed { original, renamed } => json!({
                "r": [original.iter().map(|p| p.to_string()).collect::<Vec<_>>(),
                       renamed.iter().map(|p| p.to_string()).collect::<Vec<_>>()]
            }),
        });
    }
    Value::Array(out)
}

fn loc_json(l: &ProblemLocation) -> Value {
    match l {
        ProblemLocation::StorageRoot => json!("root"),
        ProblemLocation::StorageHierarchy => json!("hierarchy"),
        ProblemLocation::ObjectRoot => json!("object"),
        ProblemLocation::ObjectVersion(v) => json!(v.to_string()),
    }
}

fn vres_json<T: ValidationResult>(r: &T) -> Value {
    json!({
        "errors": r.errors().iter().map(|e| json!([e.code.to_string(), loc_json(&e.location), e.text])).collect::<Vec<_>>(),
        "warnings": r.warnings().iter().map(|w| json!([w.code.to_string(), loc_json(&w.location), w.text])).collect::<Vec<_>>(),
    })
}

fn ovres_json(r: &ObjectValidationResult) -> Value {
    let mut v = vres_json(r);
    v["id"] = json!(r.object_id);
    v["path"] = json!(r.storage_path);
    v
}

fn bytes_json(buf: &[u8]) -> Value {
    let mut v = json!({"len": buf.len(), "sha256": sha256_hex(buf)});
    if buf.len() <= 512 {
        v["hex"] = json!(hex::encode(buf));
    }
    v
}

fn region(v: &Value) -> Region {
    Region::Custom {
        name: v["region"].as_str().unwrap_or("custom").to_string(),
        endpoint: s(v, "endpoint").to_string(),
    }
}

fn exec(repos: &mut HashMap<String, OcflRepo>, v: &Value) -> Result<Value> {
    let cmd = s(v, "cmd");
    match cmd {
        "quit" => return Ok(json!(null)),
        "init" => {
            let staging = opt_s(v, "staging").map(PathBuf::from);
            let sv = spec(v, "spec")?.unwrap();
            let layout = layout_from(&v["layout"])?;
            let repo = OcflRepo::init_fs_repo(s(v, "root"), staging.as_deref(), sv, layout)?;
            repos.insert(s(v, "h").to_string(), repo);
            return Ok(json!(null));
        }
        "open" => {
            let staging = opt_s(v, "staging").map(PathBuf::from);
            let repo = OcflRepo::fs_repo(s(v, "root"), staging.as_deref())?;
            repos.insert(s(v, "h").to_string(), repo);
            return Ok(json!(null));
        }
        "init_s3" => {
            let sv = spec(v, "spec")?.unwrap();
            let layout = layout_from(&v["layout"])?;
            let repo = OcflRepo::init_s3_repo(
                region(v),
                s(v, "bucket"),
                v["prefix"].as_str(),
                None,
                s(v, "staging"),
                sv,
                layout,
            )?;
            repos.insert(s(v, "h").to_string(), repo);
            return Ok(json!(null));
        }
        "open_s3" => {
            let repo = OcflRepo::s3_repo(region(v), s(v, "bucket"), v["prefix"].as_str(), s(v, "staging"), None)?;
            repos.insert(s(v, "h").to_string(), repo);
            return Ok(json!(null));
        }
        "drop" => {
            repos.remove(s(v, "h"));
            return Ok(json!(null));
        }
        _ => {}
    }

    let repo = repos
        .get(s(v, "h"))
        .unwrap_or_else(|| panic!("harness: no such handle"));

    match cmd {
        "close" => {
            repo.close();
            Ok(json!(null))
        }
        "new" => {
            let alg = DigestAlgorithm::from_str(v["alg"].as_str().unwrap_or("sha512"))
                .map_err(|_| RocflError::InvalidValue("bad algorithm".to_string()))?;
            repo.create_object(
                s(v, "id"),
                spec(v, "spec")?,
                alg,
                v["cdir"].as_str().unwrap_or("content"),
                v["pad"].as_u64().unwrap_or(0) as u32,
            )?;
            Ok(json!(null))
        }
        "cp_ext" => {
            let src: Vec<PathBuf> = strs(v, "src").into_iter().map(PathBuf::from).collect();
            repo.copy_files_external(s(v, "id"), &src, s(v, "dst"), v["recursive"].as_bool().unwrap_or(false))?;
            Ok(json!(null))
        }
        "mv_ext" => {
            let src: Vec<PathBuf> = strs(v, "src").into_iter().map(PathBuf::from).collect();
            repo.move_files_external(s(v, "id"), &src, s(v, "dst"))?;
            Ok(json!(null))
        }
        "cp_int" => {
            repo.copy_files_internal(
                s(v, "id"),
                vref(v, "version")?,
                &strs(v, "src"),
                s(v, "dst"),
                v["recursive"].as_bool().unwrap_or(false),
            )?;
            Ok(json!(null))
        }
        "mv_int" => {
            repo.move_files_internal(s(v, "id"), &strs(v, "src"), s(v, "dst"))?;
            Ok(json!(null))
        }
        "rm" => {
            repo.remove_files(s(v, "id"), &strs(v, "paths"), v["recursive"].as_bool().unwrap_or(false))?;
            Ok(json!(null))
        }
        "reset" => {
            repo.reset(s(v, "id"), &strs(v, "paths"), v["recursive"].as_bool().unwrap_or(false))?;
            Ok(json!(null))
        }
        "reset_all" => {
            repo.reset_all(s(v, "id"))?;
            Ok(json!(null))
        }
        "commit" => {
            repo.commit(
                s(v, "id"),
                meta(v)?,
                v["object_root"].as_str(),
                v["pretty"].as_bool().unwrap_or(false),
            )?;
            Ok(json!(null))
        }
        "upgrade_object" => {
            repo.upgrade_object(
                s(v, "id"),
                spec(v, "spec")?.unwrap(),
                meta(v)?,
                v["pretty"].as_bool().unwrap_or(false),
            )?;
            Ok(json!(null))
        }
        "upgrade_repo" => {
            repo.upgrade_repo(spec(v, "spec")?.unwrap())?;
            Ok(json!(null))
        }
        "purge" => {
            repo.purge_object(s(v, "id"))?;
            Ok(json!(null))
        }
        // ---- reads
        "get_object" => Ok(ov_json(&repo.get_object(s(v, "id"), vref(v, "version")?)?)),
        "get_staged_object" => Ok(ov_json(&repo.get_staged_object(s(v, "id"))?)),
        "get_object_details" => Ok(ovd_json(&repo.get_object_details(s(v, "id"), vref(v, "version")?)?)),
        "get_staged_object_details" => Ok(ovd_json(&repo.get_staged_object_details(s(v, "id"))?)),
        "cat" => {
            let mut buf: Vec<u8> = Vec::new();
            let p = LogicalPath::try_from(s(v, "path"))?;
            repo.get_object_file(s(v, "id"), &p, vref(v, "version")?, &mut buf)?;
            Ok(bytes_json(&buf))
        }
        "cat_staged" => {
            let mut buf: Vec<u8> = Vec::new();
            let p = LogicalPath::try_from(s(v, "path"))?;
            repo.get_staged_object_file(s(v, "id"), &p, &mut buf)?;
            Ok(bytes_json(&buf))
        }
        "list_objects" | "list_staged" => {
            let glob = v["glob"].as_str();
            let iter = if cmd == "list_objects" {
                repo.list_objects(glob)?
            } else {
                repo.list_staged_objects(glob)?
            };
            let mut out = Vec::new();
            for o in iter {
                out.push(match o {
                    Ok(d) => json!({ "ok": ovd_json(&d) }),
                    Err(e) => err_json(&e),
                });
            }
            Ok(Value::Array(out))
        }
        "versions" => Ok(Value::Array(
            repo.list_object_versions(s(v, "id"))?.iter().map(vd_json).collect(),
        )),
        "file_versions" => {
            let p = LogicalPath::try_from(s(v, "path"))?;
            Ok(Value::Array(
                repo.list_file_versions(s(v, "id"), &p)?.iter().map(vd_json).collect(),
            ))
        }
        "diff" => {
            let right = vnum(v, "right")?.unwrap();
            Ok(diff_json(&repo.diff(s(v, "id"), vnum(v, "left")?, right)?))
        }
        "diff_staged" => Ok(diff_json(&repo.diff_staged(s(v, "id"))?)),
        "validate_object" => Ok(ovres_json(
            &repo.validate_object(s(v, "id"), v["fixity"].as_bool().unwrap_or(true))?,
        )),
        "validate_object_at" => Ok(ovres_json(
            &repo.validate_object_at(s(v, "path"), v["fixity"].as_bool().unwrap_or(true))?,
        )),
        "validate_repo" => {
            let mut val = repo.validate_repo(v["fixity"].as_bool().unwrap_or(true))?;
            let root = vres_json(val.storage_root_result());
            let mut objs = Vec::new();
            for o in val.by_ref() {
                objs.push(match o {
                    Ok(r) => json!({ "ok": ovres_json(&r) }),
                    Err(e) => err_json(&e),
                });
            }
            let hier = vres_json(val.storage_hierarchy_result());
            Ok(json!({"root": root, "hierarchy": hier, "objects": objs}))
        }
        "describe_repo" => {
            let i = repo.describe_repo()?;
            Ok(json!({"spec": i.spec_version, "layout": i.layout, "extensions": i.extensions}))
        }
        "describe_object" | "describe_staged_object" => {
            let i = if cmd == "describe_object" {
                repo.describe_object(s(v, "id"))?
            } else {
                repo.describe_staged_object(s(v, "id"))?
            };
            Ok(json!({"spec": i.spec_version, "alg": i.digest_algorithm, "extensions": i.extensions}))
        }
        _ => panic!("harness: unknown command {}", cmd),
    }
}

#[allow(dead_code)]
fn unused(_: &Path) {}
