//! vh - verification harness for rocfl.  Drives the real library on inputs
//! produced by the Python driver and prints one JSON value per input line.
//!
//!   vh vnum    < lines      VersionNum parse/display/next/previous
//!   vh layout  < lines      StorageLayout::new / map_object_id
//!   vh lpath   < lines      LogicalPath::try_from
//!   vh hist                 interactive history runner (one command per line)
use std::collections::BTreeMap;
use std::convert::TryFrom;
use std::io::{self, BufRead, Write};
use std::panic::{catch_unwind, AssertUnwindSafe};
use std::path::{Path, PathBuf};
use std::str::FromStr;

use chrono::{DateTime, Local};
use rocfl::ocfl::*;
use serde_json::{json, Map, Value};
use sha2::{Digest as _, Sha256};

mod hist;

fn main() {
    // panics are reported in the JSON result, keep stderr quiet
    std::panic::set_hook(Box::new(|_| {}));
    let args: Vec<String> = std::env::args().collect();
    let cmd = args.get(1).map(|s| s.as_str()).unwrap_or("");
    match cmd {
        "vnum" => batch(vnum_line),
        "layout" => batch(layout_line),
        "lpath" => batch(lpath_line),
        "hist" => hist::run(),
        _ => {
            eprintln!("usage: vh vnum|layout|lpath|hist");
            std::process::exit(2);
        }
    }
}

fn batch(f: fn(&Value) -> Value) {
    let stdin = io::stdin();
    let stdout = io::stdout();
    let mut out = stdout.lock();
    for line in stdin.lock().lines() {
        let line = line.unwrap();
        if line.trim().is_empty() {
            continue;
        }
        let v: Value = serde_json::from_str(&line).expect("bad json line");
        let r = match catch_unwind(AssertUnwindSafe(|| f(&v))) {
            Ok(r) => r,
            Err(e) => json!({ "panic": panic_msg(&e) }),
        };
        writeln!(out, "{}", r).unwrap();
    }
}

pub fn panic_msg(e: &Box<dyn std::any::Any + Send>) -> String {
    if let Some(s) = e.downcast_ref::<&str>() {
        s.to_string()
    } else if let Some(s) = e.downcast_ref::<String>() {
        s.clone()
    } else {
        "panic".to_string()
    }
}

pub fn err_kind(e: &RocflError) -> &'static str {
    match e {
        RocflError::CorruptObject { .. } => "CorruptObject",
        RocflError::NotFound(_) => "NotFound",
        RocflError::InvalidValue(_) => "InvalidValue",
        RocflError::InvalidConfiguration(_) => "InvalidConfiguration",
        RocflError::IllegalState(_) => "IllegalState",
        RocflError::IllegalOperation(_) => "IllegalOperation",
        RocflError::LockAcquire(_, _) => "LockAcquire",
        RocflError::General(_) => "General",
        RocflError::CopyMoveError(_) => "CopyMoveError",
        RocflError::Closed => "Closed",
        RocflError::Io(_) => "Io",
        RocflError::Wrapped(_) => "Wrapped",
    }
}

pub fn err_json(e: &RocflError) -> Value {
    json!({"err": {"kind": err_kind(e), "msg": format!("{}", e)}})
}

fn vn_json(v: &VersionNum) -> Value {
    json!({"n": v.number, "w": v.width})
}

fn vnum_line(v: &Value) -> Value {
    let op = v["op"].as_str().unwrap();
    let mk = || VersionNum {
        number: v["n"].as_u64().unwrap() as u32,
        width: v["w"].as_u64().unwrap() as u32,
    };
    match op {
        "parse" => match VersionNum::try_from(v["s"].as_str().unwrap()) {
            Ok(x) => json!({ "ok": vn_json(&x) }),
            Err(e) => err_json(&e),
        },
        "display" => json!({"ok": format!("{}", mk())}),
        "next" => match mk().next() {
            Ok(x) => json!({ "ok": vn_json(&x) }),
            Err(e) => err_json(&e),
        },
        "prev" => match mk().previous() {
            Ok(x) => json!({ "ok": vn_json(&x) }),
            Err(e) => err_json(&e),
        },
        _ => json!({"err": {"kind": "harness", "msg": "unknown op"}}),
    }
}

pub fn layout_from(v: &Value) -> Result<Option<StorageLayout>> {
    if v.is_null() {
        return Ok(None);
    }
    let name = LayoutExtensionName::from_str(v["ext"].as_str().unwrap())
        .map_err(|_| RocflError::InvalidValue("unknown layout".to_string()))?;
    let cfg = v["config"].as_str().map(|s| s.as_bytes().to_vec());
    Ok(Some(StorageLayout::new(name, cfg.as_deref())?))
}

/// Case information of a string computed with the Rust standard library only (no rocfl code):
/// per char its UTF-8 text and `char::to_lowercase`, plus `str::to_lowercase` / `str::to_uppercase`
/// of the whole string.  Input of the C11 model (Unicode case mapping is external to rocfl).
fn case_info(s: &str) -> Value {
    let chars: Vec<Value> = s
        .chars()
        .map(|c| json!([c.to_string(), c.to_lowercase().collect::<String>()]))
        .collect();
    json!({"chars": chars, "lower": s.to_lowercase(), "upper": s.to_uppercase()})
}

fn layout_line(v: &Value) -> Value {
    let mut r = layout_line_inner(v);
    if v["case"].as_bool().unwrap_or(false) {
        let ids: Vec<Value> = v["ids"]
            .as_array()
            .unwrap()
            .iter()
            .map(|id| case_info(id.as_str().unwrap()))
            .collect();
        let strs: Vec<Value> = v["strs"]
            .as_array()
            .map(|a| a.iter().map(|s| case_info(s.as_str().unwrap())).collect())
            .unwrap_or_default();
        r["case"] = json!({"ids": ids, "strs": strs});
    }
    r
}

fn layout_line_inner(v: &Value) -> Value {
    let layout = match catch_unwind(AssertUnwindSafe(|| layout_from(v))) {
        Ok(Ok(Some(l))) => l,
        Ok(Ok(None)) => return json!({"new": "none"}),
        Ok(Err(e)) => return json!({"new": "err", "msg": format!("{}", e)}),
        Err(e) => return json!({"new": "panic", "msg": panic_msg(&e)}),
    };
    let mut paths = Vec::new();
    for id in v["ids"].as_array().unwrap() {
        let id = id.as_str().unwrap();
        let r = catch_unwind(AssertUnwindSafe(|| layout.map_object_id(id)));
        paths.push(match r {
            Ok(p) => json!({ "ok": p }),
            Err(e) => json!({ "panic": panic_msg(&e) }),
        });
    }
    json!({"new": "ok", "paths": paths})
}

fn lpath_line(v: &Value) -> Value {
    match LogicalPath::try_from(v["s"].as_str().unwrap()) {
        Ok(p) => json!({"ok": p.to_string()}),
        Err(e) => err_json(&e),
    }
}

pub fn sha256_hex(bytes: &[u8]) -> String {
    let mut h = Sha256::new();
    h.update(bytes);
    hex::encode(h.finalize())
}

#[allow(dead_code)]
pub fn unused(_: &Path, _: PathBuf, _: BTreeMap<u8, u8>, _: Map<String, Value>, _: DateTime<Local>) {}
