#!/usr/bin/env python3
"""Regenerates MANIFEST.json from the table below (keeps it valid at all times)."""
import json

CHECKS = {}  # id -> dict(level, text, note, technique, design)

def add(pid, text, note, technique, category="proof", design=None):
    CHECKS[pid] = dict(text=text, note=note, technique=technique, category=category,
                       design=design or ("DESIGN.md section 4, " + pid))

add("C14",
    "Coq theorems over the VersionNum model (next = number+1 with the same width, refusal past the width's maximum, "
    "display/parse round trip, constant name length) for all version numbers outside the recorded overflow class; "
    "the model is tied to the code by a differential run of the real VersionNum (debug build) on boundary and random "
    "inputs evaluated inside Coq, plus a model-free oracle of the property on the same outputs.",
    "Trusted: Coq kernel, the hand-written model Model/VersionNum.v, harness and driver. The theorems are about the "
    "model; the correspondence is differential testing. Known finding: u32 overflow for widths > 10 / number u32::MAX.",
    "machine-checked proof in Coq (induction/arith) + model-vs-code correspondence evaluated by vm_compute")

NOT_APPLICABLE = []  # filled below for every property without a check yet

ALL = ["C%02d" % i for i in range(1, 21)]

def main():
    checks = []
    for pid in ALL:
        if pid not in CHECKS:
            continue
        c = CHECKS[pid]
        checks.append({
            "property_id": pid,
            "quick_cmd": "./check %s --tier quick" % pid,
            "thorough_cmd": "./check %s --tier thorough" % pid,
            "evidence_file": "/verif/evidence/%s.json" % pid,
            "replay_cmd_template": "./check --replay {path}",
            "engine": "coq+harness",
            "level_claimed": {"category": c["category"], "text": c["text"], "design_ref": c["design"]},
            "level_note": c["note"],
            "technique": c["technique"],
        })
    na = [{"property_id": pid, "reason": "no check registered yet in this revision (work in progress; see DESIGN.md section 4 for the planned model, theorems and correspondence)"}
          for pid in ALL if pid not in CHECKS]
    m = {
        "version": 1,
        "setup_cmd": "./setup.sh",
        "hooks": {
            "guard": "--cfg rocfl_verif",
            "enable": "RUSTFLAGS='--cfg rocfl_verif' (set by vplib/common.py for the harness and the release binary); no hook code exists in /repo at this revision",
            "baseline_off_cmd": "cd /repo && cargo test --workspace --no-fail-fast --offline",
            "source_commits": [],
            "add_only": True,
        },
        "engines": [{
            "name": "coq+harness", "path": "/verif/check",
            "serves_properties": [c["property_id"] for c in checks],
            "kind_free_text": "Coq 8.16 development (coq/theories: Model, Proofs, Props, Corr) + Rust harness linking /repo as a library + Python driver; per property: proof stage (make Props/Cxx.vo, Print Assumptions, forbidden-word scan), correspondence stage (cases evaluated by coqc vm_compute), direct search stage (model-free oracle)",
        }],
        "checks": checks,
        "not_applicable": na,
        "notes": "All checks rebuild the harness / CLI from /repo's working tree on every run. Known findings: /verif/known-findings.txt.",
    }
    json.dump(m, open("MANIFEST.json", "w"), indent=1)

if __name__ == "__main__":
    main()
