#!/usr/bin/env python3
"""Regenerates MANIFEST.json from the table below (keeps it valid at all times)."""
import json

CHECKS = {}  # id -> dict(level, text, note, technique, design)

def add(pid, text, note, technique, category="proof", design=None):
    CHECKS[pid] = dict(text=text, note=note, technique=technique, category=category,
                       design=design or ("DESIGN.md section 4, " + pid))

add("C14",
    "Coq theorems (i) over the VersionNum model for ALL widths and numbers: next = number+1 with the same width, refusal past "
    "min(u32::MAX, 10^(w-1)-1), never a panic, debug = release, display/parse round trip, constant name length; (ii) over a multi-client "
    "model (Model/MultiClient.v: one main repository, any number of clients with private staging; a committed version = (metadata token, "
    "state), objects carry width and a configuration token; New / Stage / Commit / ResetAll / Purge as the code: write_new_object refuses "
    "an existing id, write_new_version compares head numbers, width / digest algorithm / content directory, and every existing version "
    "with the staged copy's), for ALL interleavings of any number of clients and objects, unconditionally: an accepted commit changes only "
    "that id, appends exactly one version with head+1 and keeps every earlier version's metadata and state; a stale commit, a commit "
    "based on foreign versions or on another configuration is refused and changes nothing (staged changes kept); staging is refused at "
    "the width's maximum; under the hypothesis that commit metadata never repeats (what Local::now() gives): per lineage the version list "
    "only grows by push-back, a staged copy cloned from another lineage is always refused, no silent merge. Correspondence: VersionNum "
    "differential in a debug AND a release build; 2 and 3 real clients (library handles and CLI with distinct -s directories) over "
    "exhaustive interleavings of 2 clients x <= 2 operations, sampled longer ones, scenarios with purge + re-create (other states, same "
    "states, same explicit metadata, other width / algorithm / content directory), widths 0..200000: result class, main state and all "
    "staged inventories compared inside Coq after every step; model-free oracle (changed version directory, skipped/repeated number, "
    "commit accepted on a stale base, refused commit changed something, object invalid).",
    "Trusted: Coq kernel, Model/VersionNum.v, Model/MultiClient.v, harness and driver. No known finding is left: the u32 overflow (476b184), "
    "the Display panic for paddings above 65535 (d5a9e2d) and commits onto a re-created lineage (e1679ed, 5c18ef1) were repaired and are "
    "must-pass inputs. A re-created object with identical states AND identical explicit metadata and configuration is indistinguishable "
    "from the old one; accepting a commit there is proved harmless (C14_commit_keeps_history). NAME_MAX (widths above 254 are refused by "
    "the file system) is not modelled.",
    "machine-checked proof in Coq (arith + invariant over all interleavings) + exhaustive/sampled interleavings of real clients")


add("C01",
    "Coq theorems over the inventory model (std++ gmap): every reachable committed inventory is valid (E050/E107/E095/E101, "
    "version bounds, reads never look into the future) for all histories of new/cp/mv/rm/reset/commit/reset-all/purge and all "
    "hash-order outcomes of dedup_head; staged invariant preserved by every resolved staging operation; at most one new content "
    "path per new digest. Tied to the code by per-step refinement of generated histories (model applied to the implementation's own "
    "pre-state must equal its post-state, evaluated in Coq) and searched with an independent OCFL validator (vplib/ocflv.py) plus the "
    "structural clauses of the property after every commit/upgrade/purge. File-system clauses proved for the protocol model "
    "(Model/Commit.v + Model/CommitAbs.v): for every tree satisfying commit_pre + commit_pre_tree the fault-free commit (first and "
    "further versions, dedup, orphans, emptied directories, delete-only versions, declaration swap) leaves an object root that "
    "abstracts to a written_by_rocfl tree (every version directory with inventory + sidecar, head copy = root copy, content files "
    "<=> manifest <=> states, no empty directory, no stray entry) which the transcription of rocfl's validator accepts "
    "(C01_commit_yields_written_object); the object stays so over histories of commits (C01_reachable_tree_valid); purge leaves "
    "nothing of the object and no emptied ancestor (C01_purge_leaves_nothing). The boolean hypotheses are evaluated inside Coq on the "
    "abstraction of the REAL pre-state of every successful commit of the generated histories, with written_by_rocflb of the real "
    "post-state and model result = real result.",
    "Trusted: Coq kernel, Model/Inventory.v + Model/Staging.v + Model/Commit.v + Model/CommitAbs.v, abs (vplib/absinv.py, vplib/commitabs.py), "
    "harness, ocflv.py. Decided by the search on executed histories only: storage-root files and layout placement (also C11/C12), "
    "upgrade_object's own staging step, operations under faults (C04/C05), staging operations at tree level. No known finding "
    "left: the former class failed-commit-dedup-persisted (a commit refused after its de-duplication step left two staged paths "
    "sharing one file) is repaired by 890d206 - refused commits are part of the model now (Model/RefusedCommit.v: "
    "C01_refused_commit_keeps_invariant, C01_reachable_valid_with_refused_commits), every refused commit of the histories is "
    "compared with it (Corr.CheckStage.check_refused_commit) and clause I5 is evaluated on the real staged inventory; the 4 scripted "
    "histories are must-pass.",
    "machine-checked proof in Coq (invariant by induction over operations) + per-step refinement correspondence + independent validator")

add("C09",
    "Coq theorems: the staged logical view after any resolved cp/mv/rm/reset equals an abstract cp/mv/rm/reset specification "
    "(no manifest, no content paths); every staged path of every reachable staged object is backed by its own staged file or by "
    "committed content; no file/directory conflicts; removed paths absent; reset restores the previous entry; a failing source "
    "changes nothing and leaves the object well formed; a reset of several paths is the fold of the single-path resets over all named "
    "paths whether or not it reports a failure, and leaves the object well formed. Correspondence: per-step refinement including the destination rules of "
    "external and internal cp/mv (files, directories, globs, recursive or not, one/many sources, trailing slash, root). Search: listing = "
    "staged inventory, every staged path readable with the ingested bytes, staged files present, objects committable at the end, "
    "a reset that reports a failure restored every named path nothing blocks.",
    "Trusted as C01. globset syntax beyond literal/*/? is not generated; hash-order dependent steps are accepted if some order "
    "reproduces the observation (counted in the evidence).",
    "machine-checked proof in Coq (refinement to an abstract spec + invariants) + per-step refinement correspondence")


add("C02",
    "Coq theorems: in every valid inventory each path of each committed version resolves to a content path of a version <= V "
    "carrying the path's digest, for every candidate the hash-set iteration may pick (resolution_total); after any further "
    "operations except purge a committed version keeps its listing and its candidate set (committed_versions_stable, by induction "
    "over histories through the Extends/Grows lineage invariants); a commit installs exactly the staged state. Correspondence: "
    "per-step refinement. Search: after EVERY step all versions of all committed objects are re-read (listing and bytes) and "
    "compared with the state staged at commit time and the ingested bytes.",
    "Trusted as C01, plus digest injectivity (equal digest = equal bytes). Byte streaming itself (File::open + io::copy) is exercised, not modelled.",
    "machine-checked proof in Coq (lineage invariant by induction over histories) + per-step refinement + read-back oracle")

add("C08",
    "Coq theorems over a multi-object repository (gmap id -> life cycle): operations on one id leave every other id's state "
    "untouched; new/cp/mv/rm/reset/reset-all never change the committed inventory; read answers are functions of the committed "
    "inventory (identical with or without staged changes); reset-all after any staging operations restores the exact previous state; "
    "purge resets exactly the named object. Search (byte level): snapshots of the storage root and every object's staged directory "
    "around every step, the full read API (listing, every file, log, diffs, validate) around every staging step, exact expected "
    "trees (subtree removed, emptied ancestors pruned) after reset-all and purge.",
    "The byte-level half (no write outside the footprint) is decided by snapshots on executed histories, and for system calls by C03/C12's traces; the theorems are at the inventory level.",
    "machine-checked proof in Coq (frame lemmas) + snapshot/read-API differential on histories")

add("C18",
    "Coq theorems (association-list states with NoDup keys, abstract path/digest types): full characterisation of Version::diff "
    "(Added/Modified/Deleted/Renamed), diff-apply yields the right state, self-diff empty, show = diff with predecessor, order "
    "independence under all permutations of both hash-map iterations, file log = versions where the path's entry changes, "
    "last_update = start of the maximal run, log metadata. Correspondence: all ordered version pairs, diff_staged, versions, "
    "file_versions, last_update of generated objects compared inside Coq; model-free oracle from the driver's own states.",
    "Trusted: Coq kernel, Model/Diff.v, harness, driver's numbering of paths/digests. CLI rendering is C20's.",
    "machine-checked proof in Coq (characterisation lemmas, permutation invariance) + differential correspondence")


add("C10",
    "Coq theorems over the JSON string codec model: serde_json's escaping followed by a conforming RFC 8259 decoder is the identity on all byte "
    "strings / all valid UTF-8 (no bound on length), the escaped token is a valid JSON string without raw control bytes and is injective; "
    "rocfl's reader and the validator's reader, position by position (id, paths, digests, content directory, user, address, message, version "
    "keys), read back exactly what was written - unconditionally; the readers before the fixes are kept as `_before_fix` definitions with "
    "historical witness lemmas; create_object accepts exactly the content directories that are usable file names and stores ids verbatim. "
    "Correspondence: generated hostile strings placed in every string position through the real create_object / copy / commit, inventories "
    "re-read with an independent JSON parser, tokens compared in Coq with the model; foreign spellings (one token of a committed inventory "
    "respelled, all 14 positions) compared with the model of both readers. Search: accepted operation followed by a failing "
    "open/list/cat/reset/commit, or a string read back that differs, or rocfl validate rejecting what rocfl wrote.",
    "Trusted: Coq kernel, Model/Json.v, harness, Python json. clap's argument decoding and chrono's timestamp grammar are outside. No known "
    "finding is left: json-escape-borrowed (bb69bb9), validator-json-escape (2f36fc5), id-trimmed (031a721), cdir-empty and "
    "cdir-collides-with-inventory (d88c1da) and a content directory that cannot be a file name (29bc659) were repaired and are must-pass "
    "regression inputs. Stated as a hypothesis, not a finding: the main reader refuses an escaped JSON spelling of `head` or of a key of "
    "`versions` (VersionNum is deserialized through try_from = \"&str\"); rocfl never writes such a token (theorem "
    "C10_rocfl_never_writes_escaped_version_name), only inventories written by other software can contain one.",
    "machine-checked proof in Coq (round-trip laws by induction on byte strings) + correspondence on generated strings")

add("C11",
    "Coq theorems: for each of the five layout extensions the code model of map_object_id (byte-index slicing, to_tuples, lower_percent_escape, "
    "padding, reversal, the character-wise case-insensitive search of 0006, rfind on the lower-cased ASCII id of 0007) equals an independent "
    "Gallina transcription of the extension document for every validated configuration, every id and every digest - no theorem carries a "
    "known-class hypothesis any more; C11_0006_meaning: the path is the suffix of the ORIGINAL id after the right-most case-insensitive "
    "occurrence of the delimiter; unmappable ids are refused, never mapped elsewhere; "
    "StorageLayout::new accepts exactly the configurations the documents allow, never panics for ANY form of "
    "configuration, debug and release arithmetic agree, accepted 0003/0004 configurations obey the bounds (generated constant "
    "MAX_TUPLE_CONFIG), product and shortObjectRoot rules; helper laws "
    "(percent-escape lowering, tuple splitting, 100-character truncation, prefix stripping). "
    "Correspondence: StorageLayout::new / map_object_id of the real library on a configuration grid x id pool compared inside Coq with both models; "
    "system level: the directory an object occupies after commit, refusal of forbidden configurations with nothing written.",
    "Trusted: Coq kernel, Model/Layout.v, Model/LayoutSpec.v (my reading of the five documents in /repo/resources/main/specs; 'case-insensitive' "
    "read as 'same lower-case form', per-character lower-casing - C11_case_readings_agree shows the candidate readings differ only for U+0130), "
    "hashlib digests, Rust's Unicode case mapping (an input to both models; the four facts about it that the 0006/0007 theorems assume, "
    "Layout.unicode_ok, are evaluated on every generated pair and a failing pair is reported). No known findings: all seven former classes - "
    "0003 zero tuples, 0007 control characters, tuple bounds, shortObjectRoot, case-fold index (0006), 0007 defaults, array configurations - "
    "were repaired by e1de1bb, 970818d, d1aca14, a91c61b, 91d5aeb, dec6d3f, 8478633 and are must-pass regression inputs.",
    "machine-checked proof in Coq (code model = document model, for all ids/configs) + function-level differential correspondence")

add("C13",
    "PARTIAL. Coq theorems over an interleaving model of acquire ; body ; release (Model/Lock.v), for every schedule of any number of operations: "
    "mutual exclusion per object, lock file present exactly while an operation is inside its body, released on every outcome (Ok, Err, panic), no "
    "mutation of an object's data outside its lock, refused acquire changes nothing and is refused exactly when the lock is held, steps on "
    "different objects commute, every complete interleaving equals the serial execution of the granted operations in acquire order; each "
    "operation takes its object's lock exactly once: for every schedule its events are one acquire, then only its mutations of that object, "
    "then the matching release and nothing after it, whatever the outcome (C13_one_bracket_per_operation, C13_returned_operation_one_bracket). "
    "Correspondence: real CLI processes under strace - every mutating command (also failing and fault-injected) is accepted by the strict "
    "one-bracket automaton (strict_ok / strict_done, proved to accept every model trace: C13_traces_strictly_bracketed); a second process "
    "(commit, cp, reset, upgrade) run while the first is held (delay injection) at sampled system calls, at the removal of its lock file (entry "
    "and exit) and at any call after a release is refused exactly when the first has begun and is not finished, and the final tree equals the "
    "serial reference (also for a process held BEFORE its acquire: whatever it looked at before the lock must not decide its answer); N-way races. Search: call pattern A M* R per command, snapshot equality, result in the set of serial results.",
    "Atomicity of O_CREAT|O_EXCL and genuinely parallel interleavings are assumptions of the model (runtime facts); the correspondence exercises "
    "'B atomic inside A' schedules and whole-command races only. Lock key = sha256(id) assumed injective.",
    "machine-checked proof in Coq (invariants by induction over schedules, commutation => serializability) + strace trace correspondence")

add("C15",
    "PARTIAL. Coq theorems over Model/S3.v: listing by pages of any size >= 1 equals the unpaged listing (induction over the page sequence), "
    "the recursive listing of a path is exactly the subtree below `path/` (segments lemma: `obj10/..` is not below `obj1`) and purge_object "
    "removes exactly that subtree, "
    "laws of paths::join (unit tests as lemmas, unit, single slash at the seam, associativity), keys <-> file tree bijection, exact prefix "
    "stripping for EVERY given prefix (S3Client::new trims trailing slashes: client_prefix), list_objects returns exactly the object roots of the bucket. Search: the same "
    "generated histories driven through the real library on a filesystem repository and on a local TLS S3 stand-in (bucket root / nested prefix, "
    "page sizes 1,2,3,1000, both sides of the multipart threshold): step results, key set = file set, bytes, every read-API answer compared. "
    "Correspondence: the Gallina scan / paging model evaluated on the observed bucket dumps and request sequences.",
    "HTTP, rusoto, tokio, request signing and real S3 semantics are outside the model; the stand-in (vplib/s3stub.py) is trusted. Prefixes "
    "spelled with trailing, only, leading and inner double slashes are generated as must-pass (repaired by 1405318). The S3 object-root "
    "validation and purge guards (1c63a11, 900305c) are modelled (purge of an arbitrary id removes exactly the subtree iff not spared, a "
    "refused purge leaves everything); refused-root, guarded-purge and prefix-overlapping-root histories are must-pass. Hypothesis: ids "
    "map to normalised relative object roots (no empty, `.` or `..` part): the file system normalises such roots, S3 keys are literal.",
    "machine-checked proof in Coq (paging independence, join laws, bijection) + fs-vs-S3 differential on histories")

add("C16",
    "Coq theorems over the S3 request programs (Model/S3.v, two oracles: the k-th mutating request / the j-th read fails once): for every "
    "directory walk a new object's requests are the ordinary files, then the root inventory.json, then its sidecar; a fault-free version commit "
    "from a ready bucket succeeds with requests = reads of what it replaces, everything below vN/, root inventory, root sidecar, declaration "
    "swap; for EVERY failing mutating request (upload, root inventory, root sidecar, declaration PUT/DELETE of an upgrade) the commit reports an "
    "error and every key reads as before the commit, nothing is left below vN/, the bucket is ready again and the retry succeeds; a failing "
    "read ends the commit before its first write; refused commits send nothing; historical `_before_fix` lemmas show the old violations. Search: "
    "real library on the stand-in, every mutating request and every read of every commit failed once with HTTP 500 and once by dropping the "
    "connection, then keys, read-back, staged state and retry checked; order oracle on the request log. Correspondence: model request sequence "
    "(incl. GETs and restore PUTs) and final bucket vs log.",
    "As C15. No known finding left (new-object-walk-order, root-inventory-rollback repaired by 4953bf6, 9053efb; read-before-upload 862b96a). A "
    "second failure during the rollback is outside the single-failure quantifier. Keeping the staged version is observed, not modelled.",
    "machine-checked proof in Coq (all fault positions of the request programs) + request-level fault enumeration on the S3 stand-in")

add("C17",
    "PARTIAL. Coq theorems over literal models of the validator fragments the property names (Model/VCode.v): validate_version_nums is "
    "total and costs at most 100 E010 errors and 101 iterations per version key for all inputs in both build modes (constant generated "
    "from the source), Inventory::new(..).unwrap() is guarded for every document, get_version unwraps guarded by the head check, the "
    "content-path comparison and PrettyPrintSet total for all inputs, the cross-inventory checks return a verdict for all admissible "
    "inventories in both build modes, is_uri total for every answer function of the third-party URI parser and never calling it on a value "
    "without a scheme, ContentPathsIter termination, repository iterator continues after an error, Display linear; only the prefix-hashing "
    "cost is proved outside a known class (with a witness inside). Correspondence: error counts / panic "
    "sites of the real validator vs the model on three exactly-abstractable families. Search: object roots mutated at byte, JSON and directory "
    "level validated by the real code in child processes under wall-clock and address-space limits; oracle = panic, abort, timeout, memory "
    "blow-up, repository validation not reaching the remaining objects.",
    "Panic freedom, running time and memory of the real process are runtime facts: the theorems cover arithmetic and guard logic only; the rest is "
    "shown on executed inputs. Known finding: quadratic path check (quadratic-path). Blank id, version gaps (v400000000, v4294967295), "
    "paddings above 65535 digits, the empty PrettyPrintSet of debug builds, a manifest entry with no content paths and ids / addresses "
    "without a scheme whose first segment contains ':' - repaired by b116ae5, 719e6a5, f842f41, d5a9e2d, 547c92e, 7c90d82, 389bfd0 - are "
    "must-pass regression inputs (verdict required). Trusted in addition: the panic set of uriparse 0.6.4 read off its source, approximated from above.",
    "machine-checked proof in Coq (cost and guard lemmas) + resource-limited search over mutated objects")

add("C19",
    "Coq theorems over Model/Listing.v (depth-first walk, object-root test, skipping of the storage root's own `extensions` directory, regex id "
    "pre-filter with JSON decoding of the captured string and raw-text fallback, glob filter, lookup via layout path / scan / cache, purge_object with its guards and cache eviction): for every repository "
    "tree list_objects returns each committed id exactly once (unconditional), walk = specification of object roots, a glob listing = the "
    "filtered list, no staged or extension object is listed, get_object finds an id iff it is committed, purged ids are not found (also "
    "through the SAME handle: the cache of a handle is sound along every history of open/get/purge/write), staged listing exact; the regex "
    "text is pinned to the generated constant; no theorem carries a classifier hypothesis: the id extracted from a rocfl-written inventory is "
    "the id for ALL id bytes (quotes, backslashes, control characters), so by-id lookup without layout finds exactly that object and globs "
    "test the decoded id. Correspondence: "
    "repositories built by the real library from hostile id sets under every layout and none; after every commit/purge the on-disk tree is "
    "abstracted to a model tree and list_objects(None|glob), list_staged_objects, get_object compared inside Coq. Search: listed ids = the "
    "driver's own record as a multiset.",
    "Trusted: Coq kernel, Model/Listing.v, tree abstraction in checks/c19.py, globset behaviour on the generated subset. Known finding: '?' matching one byte "
    "(external glob matcher). Ids needing a JSON escape (5a727de), roots named `extensions` below the storage root (38fe584), the stale id-path "
    "cache (4564259) and occupied / nested layout paths (01aa490, 3802aa0) are must-pass regression inputs; hand-written inventory spellings "
    "(escapes, surrogate pairs, strings that do not decode) are correspondence-checked only; the Gallina glob matcher treats LF as an ordinary "
    "byte (globset dot_matches_new_line); every purge is compared with the model and validate_repo must visit "
    "exactly the committed objects.",
    "machine-checked proof in Coq (walk/lookup invariants over arbitrary trees) + correspondence on built repositories")

add("C20",
    "PARTIAL. Coq theorems over Model/Cli.v: exit status 0 iff every library call succeeded (partial cp/mv and per-item ls errors non-zero), "
    "validate exits 2 iff something is invalid after suppression (unconditional since the repair 33c0c45), the storage root / hierarchy "
    "blocks list exactly the unsuppressed problems and `Storage issues` counts them, exit 1 iff only operational errors, suppression "
    "monotone, the option -> library-call mapping is total on the generated grammar with defaults and forwarding pinned. Correspondence: every generated history replayed through the release "
    "binary and through the library harness in two scratch repositories: Coq evaluates argv_to_call and cli_exit per invocation. Search: trees "
    "equal, cat stdout byte-identical, one listing entry per library result, exit status truthful, validate verdicts under generated options.",
    "clap parsing, terminal styling and stdout plumbing are exercised, not modelled; only the decision logic is proved. `validate -e <root "
    "code>` inputs (the defect repaired by 33c0c45) are generated in every run as must-pass.",
    "machine-checked proof in Coq (decision-logic lemmas) + CLI-vs-library differential on histories")


add("C03",
    "Coq theorems over Model/Footprint.v (path algebra on segment lists, rocfl's path computations, the guards validate_object_root / "
    "purge_removes, a per-operation predicate `allowed` on file-system calls and a generating model of the calls each operation issues): "
    "for every operation other than purge of that object, no target of an allowed call lies inside a committed version directory of any "
    "object, the only entries of an existing object that may be touched are its root inventory, sidecar, declaration and the version "
    "directory that does not exist yet; purge touches only its own object; every call of the generating model is allowed, for every PREFIX "
    "of the trace (failure or kill at any call). Correspondence: every mutating system call (strace) of every operation of generated "
    "histories - also failing operations and EIO/ENOSPC/EACCES/SIGKILL/SIGINT-injected runs - satisfies `allowed` (evaluated in Coq); the "
    "generating model covers the observed calls of fault-free operations. Search: byte snapshots of every committed version directory "
    "around every operation; no traced call may target a path inside one.",
    "Hypotheses (env_ok): the staging root is the default one or a -s directory disjoint from the storage root and all object roots; "
    "objects are not nested (preserved by the guard); a named mv source contains no symbolic link (symlinked and `..`-spelled sources are "
    "covered by the correspondence and the model-free oracle). strace sees every mutation (rocfl uses no mmap / io_uring writes). No "
    "known finding is left: an external mv whose source lies inside the repository (128b230) is a must-pass (refused) input.",
    "machine-checked proof in Coq (footprint lemmas over all operations and all trace prefixes) + system-call trace correspondence")

add("C12",
    "Coq theorems over Model/Footprint.v: a relative path without `..` resolves inside its base (witnesses that `..` / absolute escape); "
    "for EVERY id (the id enters staging paths only through hex digits), accepted logical path and content directory, all staged paths, "
    "the staged root and the lock file lie strictly below the staging root; if validate_object_root accepts, the object root is strictly "
    "inside the storage root, outside `extensions`, neither inside nor above any existing object or the staging root; layouts 0003 "
    "(configured with tuples) and 0004 are safe for every id (via C11's map theorem); a refused commit issues calls in the staging area only; operations other than purge "
    "touch of other objects nothing, of their own object only inventory/sidecar/declaration/new version directory; purge touches no other "
    "object; every call of the generating model (every prefix) stays within storage root + staging root + named mv sources. "
    "Correspondence: all traced calls of histories with hostile ids / destinations / content-directory names / --object-root values under "
    "every layout satisfy `allowed`; the guards agree with the real outcome. Search: normalised path of every mutating call inside the two "
    "roots, sentinel tree around the roots unchanged, pre-existing objects still valid (rocfl validate + independent validator), refused "
    "commit changes nothing.",
    "Hypotheses as C03. Symlinks planted by a third party are out of scope. No known finding is left: mv sources inside the repository "
    "(128b230) and objects planted outside the storage root at a layout path (3fb070d) are must-pass inputs; hostile absolute ids and "
    "roots point into the scratch directory, none are generated under layout 0007.",
    "machine-checked proof in Coq (containment algebra, guard lemmas, footprint of all operations) + system-call trace correspondence")


add("C06",
    "Coq theorems over an abstract stored object (Model/ObjTree.v: tree of directories, files with abstract content tokens, symlinks; "
    "inventories, sidecars and declarations through abstract parse functions) and a transcription of validate_object's rules "
    "(Model/TreeValidate.v): what rocfl writes validates without error; for EVERY tree written by rocfl and EVERY single corruption of the 16 "
    "kinds the property lists (content change/truncate/extend, delete, add, rename, swap, symlink, empty-directory replacement of a file or "
    "directory, any change of a root/head/old-version inventory, sidecar digest, declaration deleted/altered, stray file, version directory "
    "removed) outside the two recorded known classes, validation with fixity reports an error, and structural corruptions also with fixity "
    "off - the only assumption is injectivity of the digest function. Witness lemmas inside the known classes. Correspondence: objects "
    "written by the real library through histories are abstracted to model trees (written_by_rocfl checked as a boolean), each corruption "
    "applied in the model and to a scratch copy, model verdict = verdict of the real CLI (exit status 2, with and without fixity, by id, by "
    "path, repository-wide). Search: exit status != 2 or no error line for a corruption outside the known classes.",
    "Trusted: Coq kernel, Model/ObjTree.v, TreeValidate.v, Corrupt.v, the abstraction in vplib/corruptlib.py, digest collision freedom. "
    "Known findings (spec-conformant, W010): contentless-version-dir, version-inventory-dropped. The inserted byte that leaves the user address without a valid scheme (former C17 known "
    "finding uri-colon-segment, repaired by 389bfd0) is a must-pass corruption: a validator panic anywhere is a violation.",
    "machine-checked proof in Coq (all trees x all corruption kinds, digest injectivity) + corruption enumeration against the real CLI")


add("C04",
    "Coq theorems over an executable model of the commit protocol (Model/FsTree.v: abstract file tree with the OS refusals; Model/Commit.v: "
    "commit_inner, write_new_object, write_new_version incl. the rollback that restores the root inventory pair, copy_inventory_files, "
    "stage_inventory, rm_staged_files, rm_orphaned_files, purge, clean_dirs_up, lock file, as monadic programs with a fault oracle over "
    "every mutating call and a stop oracle): for every tree satisfying commit_pre and EVERY single fault position (or none) the main object "
    "is afterwards the old one or the one of the fault-free run, success is reported only for the new one, and while the version directory "
    "is not installed the object is old and all staged content is still staged; same for a stop request at every position (existing "
    "objects). C04_fault_atomic_any_type / C04_stop_atomic_any_type prove the same for the commit that changes the inventory type (upgrade of "
    "an existing object, with or without other staged changes): write_new_version's declaration swap and its rollback (unlink the new "
    "declaration, write back the saved root inventory pair, rename the version directory back) at every position, under the decidable "
    "hypothesis decl_swap_ok (no version directory named like a declaration, no declaration listed twice - each shown necessary for the model "
    "by an evaluated witness) instead of same_type. The prefix of upgrade_object before commit_inner (it only acts inside the staged object), "
    "the stop request on a first version and retry-succeeds / reset-succeeds are decided by the correspondence only; the validity of the "
    "fault-free result is C01_commit_yields_written_object. "
    "Correspondence: real CLI under strace - the fault-free trace equals the model's step log; then EVERY mutating call of every scenario "
    "(new object, new version, dedup + orphans, delete-only, nested, upgrades; layouts 0004/0002; default/external staging) is failed once "
    "(EIO/ENOSPC/EACCES rotated; all three in the thorough tier) and hit once by SIGINT; outcome class and exit status match the model; "
    "then retry and, in a second copy, reset are run and the results validated with the independent validator and rocfl validate.",
    "Trusted: Coq kernel, Model/FsTree.v + Model/Commit.v, strace, the tree abstraction in vplib/commitlib.py, vplib/ocflv.py. A fault inside a "
    "partially completed write is modelled as truncate + partial file. No known class is left (the upgrade declaration swap is rolled back "
    "since f6ecfaf). Faults are injected into mutating AND non-mutating calls (reads go through the ORead oracle of Corr.CheckCommit). Faults in the staging "
    "clean-up (rmdir) and in the staged declaration rewrite of a never-committed object - repaired by 9d3a720, 7857f07, 9f4b67d - are "
    "must-pass regression inputs (Examples C04_retry_after_cleanup_fault / C04_retry_after_staged_declaration_fault).",
    "machine-checked proof in Coq (all fault / stop positions of the commit programs) + single-fault enumeration of the real commit under strace")

add("C05",
    "Coq theorem C05_kill_safe over the same commit model: for every tree satisfying commit_pre (a decidable predicate, proved sound, "
    "evaluated on the abstraction of every real scenario) and EVERY kill position: every earlier version directory is unchanged, every "
    "content file of the new version is complete in the staged object or in the main object, and the main object is old, new, or rejected "
    "by the structural validator obj_validb (unknown version directory, sidecar/inventory mismatch, partial inventory, head copy differs). "
    "C05_kill_safe_any_type proves the same for type-changing commits (upgrade): the extra kill states - new inventory without its "
    "declaration, an empty new declaration, both declarations present - are each proved rejected; hypothesis decl_swap_ok instead of same_type. "
    "Correspondence: SIGKILL injected at every mutating call of every scenario and at sampled write calls inside inventory, sidecar and "
    "declaration files; the three clauses are evaluated on the real trees, invalid states must be rejected by BOTH the independent "
    "validator and rocfl validate; outcome classes match the model at every aligned position.",
    "Process-kill model (calls already made are durable and ordered) is the property's stated model and is assumed. After every kill of the dedup scenarios the stale lock is removed and the commit retried: a "
    "successful retry must give the object of the uninterrupted commit (valid, every ingested content readable, no extra or missing "
    "entry), a refused one must leave every ingested content in staging or in the object (recovery clause).",
    "machine-checked proof in Coq (all kill positions) + kill enumeration of the real commit under strace")


add("C07",
    "Coq theorems over an independent Gallina validator written from the OCFL 1.0/1.1 text (Model/JsonValue.v: JSON values, fuelled "
    "parser, printer; Model/Validate.v: 37 inventory rules + object-level rules over a directory listing; Model/ValidateSpec.v: the "
    "inventory MUST clauses as a declarative Prop): the executable inventory validator is sound and complete for the declarative spec "
    "(all 31 clauses, every JSON value); the verdict (the whole error list) is invariant under reordering object members at any depth; "
    "two byte strings that parse to the same value get the same verdict; every RFC 8259 spelling of a UTF-8 string (raw, two-character "
    "escapes, \\uXXXX in either case, surrogate pairs, serde's own escaping, \\/) decodes to the string; parse (print v) = v for "
    "well-formed values. Correspondence / search: on the official fixtures (78/78 by both independent validators), the custom fixtures, "
    "objects written by rocfl through histories, 159 kinds of single spec-relevant edits (re-serialised with regenerated sidecars) and "
    "structure edits, and respellings (escapes, key order, whitespace) of valid inventories, rocfl's verdict (CLI, with and without "
    "fixity) is compared with the Gallina validator (evaluated by vm_compute) and with vplib/ocflv.py; a disagreement where the two "
    "independent validators agree against rocfl is a violation with the object as replay.",
    "Trusted: Coq kernel, Model/Validate.v + JsonValue.v (my reading of the spec), vplib/ocflv.py (second independent reading), hashlib "
    "digests, the object abstraction in vplib/vallib.py. Object-level rules (layer 3) and document-level agreement with rocfl are "
    "correspondence-checked only. No known class is left: escaped spellings at every string position (repaired by 2f36fc5), the "
    "same-algorithm fixity digest (b049716) and the empty logical path (95fb10c) are must-pass / must-detect regression inputs.",
    "machine-checked proof in Coq (validator = declarative spec, permutation and respelling invariance) + three-way differential on fixtures, written objects and single edits")

NOT_APPLICABLE = []  # filled below for every property without a check yet

ALL = ["C%02d" % i for i in range(1, 21)]

def main():
    checks = []
    for pid in ALL:
        if pid not in CHECKS:
            continue
        c = CHECKS[pid]
        checks.append({
            "property_id": pid,
            "quick_cmd": "./check %s --tier quick" % pid,
            "thorough_cmd": "./check %s --tier thorough" % pid,
            "evidence_file": "/verif/evidence/%s.json" % pid,
            "replay_cmd_template": "./check --replay {path}",
            "engine": "coq+harness",
            "level_claimed": {"category": c["category"], "text": c["text"], "design_ref": c["design"]},
            "level_note": c["note"],
            "technique": c["technique"],
        })
    na = [{"property_id": pid, "reason": "no check registered yet in this revision (work in progress; see DESIGN.md section 4 for the planned model, theorems and correspondence)"}
          for pid in ALL if pid not in CHECKS]
    m = {
        "version": 1,
        "setup_cmd": "./setup.sh",
        "hooks": {
            "guard": "--cfg rocfl_verif",
            "enable": "RUSTFLAGS='--cfg rocfl_verif' (set by vplib/common.py for the harness and the release binary); no hook code exists in /repo at this revision",
            "baseline_off_cmd": "cd /repo && cargo test --workspace --no-fail-fast --offline",
            "source_commits": [],
            "add_only": True,
        },
        "engines": [{
            "name": "coq+harness", "path": "/verif/check",
            "serves_properties": [c["property_id"] for c in checks],
            "kind_free_text": "Coq 8.16 development (coq/theories: Model, Proofs, Props, Corr) + Rust harness linking /repo as a library + Python driver; per property: proof stage (make Props/Cxx.vo, Print Assumptions, forbidden-word scan), correspondence stage (cases evaluated by coqc vm_compute), direct search stage (model-free oracle)",
        }],
        "checks": checks,
        "not_applicable": na,
        "notes": "All checks rebuild the harness / CLI from /repo's working tree on every run. Known findings: /verif/known-findings.txt.",
    }
    json.dump(m, open("MANIFEST.json", "w"), indent=1)

if __name__ == "__main__":
    main()
