#!/usr/bin/env python3
"""Regenerates MANIFEST.json from the table below (keeps it valid at all times)."""
import json

CHECKS = {}  # id -> dict(level, text, note, technique, design)

def add(pid, text, note, technique, category="proof", design=None):
    CHECKS[pid] = dict(text=text, note=note, technique=technique, category=category,
                       design=design or ("DESIGN.md section 4, " + pid))

add("C14",
    "Coq theorems over the VersionNum model (next = number+1 with the same width, refusal past the width's maximum, "
    "display/parse round trip, constant name length) for all version numbers outside the recorded overflow class; "
    "the model is tied to the code by a differential run of the real VersionNum (debug build) on boundary and random "
    "inputs evaluated inside Coq, plus a model-free oracle of the property on the same outputs.",
    "Trusted: Coq kernel, the hand-written model Model/VersionNum.v, harness and driver. The theorems are about the "
    "model; the correspondence is differential testing. Known finding: u32 overflow for widths > 10 / number u32::MAX.",
    "machine-checked proof in Coq (induction/arith) + model-vs-code correspondence evaluated by vm_compute")


add("C01",
    "Coq theorems over the inventory model (std++ gmap): every reachable committed inventory is valid (E050/E107/E095/E101, "
    "version bounds, reads never look into the future) for all histories of new/cp/mv/rm/reset/commit/reset-all/purge and all "
    "hash-order outcomes of dedup_head; staged invariant preserved by every resolved staging operation; at most one new content "
    "path per new digest. Tied to the code by per-step refinement of generated histories (model applied to the implementation's own "
    "pre-state must equal its post-state, evaluated in Coq) and searched with an independent OCFL validator (vplib/ocflv.py) plus the "
    "structural clauses of the property after every commit/upgrade/purge.",
    "Trusted: Coq kernel, Model/Inventory.v + Model/Staging.v, abs (vplib/absinv.py), harness, ocflv.py. File-system clauses "
    "(stray files, empty directories, version inventories/sidecars, storage root) are decided by the search on executed histories only.",
    "machine-checked proof in Coq (invariant by induction over operations) + per-step refinement correspondence + independent validator")

add("C09",
    "Coq theorems: the staged logical view after any resolved cp/mv/rm/reset equals an abstract cp/mv/rm/reset specification "
    "(no manifest, no content paths); every staged path of every reachable staged object is backed by its own staged file or by "
    "committed content; no file/directory conflicts; removed paths absent; reset restores the previous entry; a failing source "
    "changes nothing and leaves the object well formed. Correspondence: per-step refinement including the destination rules of "
    "external and internal cp/mv (files, directories, globs, recursive or not, one/many sources, trailing slash, root). Search: listing = "
    "staged inventory, every staged path readable with the ingested bytes, staged files present, objects committable at the end.",
    "Trusted as C01. globset syntax beyond literal/*/? is not generated; hash-order dependent steps are accepted if some order "
    "reproduces the observation (counted in the evidence).",
    "machine-checked proof in Coq (refinement to an abstract spec + invariants) + per-step refinement correspondence")


add("C02",
    "Coq theorems: in every valid inventory each path of each committed version resolves to a content path of a version <= V "
    "carrying the path's digest, for every candidate the hash-set iteration may pick (resolution_total); after any further "
    "operations except purge a committed version keeps its listing and its candidate set (committed_versions_stable, by induction "
    "over histories through the Extends/Grows lineage invariants); a commit installs exactly the staged state. Correspondence: "
    "per-step refinement. Search: after EVERY step all versions of all committed objects are re-read (listing and bytes) and "
    "compared with the state staged at commit time and the ingested bytes.",
    "Trusted as C01, plus digest injectivity (equal digest = equal bytes). Byte streaming itself (File::open + io::copy) is exercised, not modelled.",
    "machine-checked proof in Coq (lineage invariant by induction over histories) + per-step refinement + read-back oracle")

add("C08",
    "Coq theorems over a multi-object repository (gmap id -> life cycle): operations on one id leave every other id's state "
    "untouched; new/cp/mv/rm/reset/reset-all never change the committed inventory; read answers are functions of the committed "
    "inventory (identical with or without staged changes); reset-all after any staging operations restores the exact previous state; "
    "purge resets exactly the named object. Search (byte level): snapshots of the storage root and every object's staged directory "
    "around every step, the full read API (listing, every file, log, diffs, validate) around every staging step, exact expected "
    "trees (subtree removed, emptied ancestors pruned) after reset-all and purge.",
    "The byte-level half (no write outside the footprint) is decided by snapshots on executed histories, and for system calls by C03/C12's traces; the theorems are at the inventory level.",
    "machine-checked proof in Coq (frame lemmas) + snapshot/read-API differential on histories")

add("C18",
    "Coq theorems (association-list states with NoDup keys, abstract path/digest types): full characterisation of Version::diff "
    "(Added/Modified/Deleted/Renamed), diff-apply yields the right state, self-diff empty, show = diff with predecessor, order "
    "independence under all permutations of both hash-map iterations, file log = versions where the path's entry changes, "
    "last_update = start of the maximal run, log metadata. Correspondence: all ordered version pairs, diff_staged, versions, "
    "file_versions, last_update of generated objects compared inside Coq; model-free oracle from the driver's own states.",
    "Trusted: Coq kernel, Model/Diff.v, harness, driver's numbering of paths/digests. CLI rendering is C20's.",
    "machine-checked proof in Coq (characterisation lemmas, permutation invariance) + differential correspondence")

NOT_APPLICABLE = []  # filled below for every property without a check yet

ALL = ["C%02d" % i for i in range(1, 21)]

def main():
    checks = []
    for pid in ALL:
        if pid not in CHECKS:
            continue
        c = CHECKS[pid]
        checks.append({
            "property_id": pid,
            "quick_cmd": "./check %s --tier quick" % pid,
            "thorough_cmd": "./check %s --tier thorough" % pid,
            "evidence_file": "/verif/evidence/%s.json" % pid,
            "replay_cmd_template": "./check --replay {path}",
            "engine": "coq+harness",
            "level_claimed": {"category": c["category"], "text": c["text"], "design_ref": c["design"]},
            "level_note": c["note"],
            "technique": c["technique"],
        })
    na = [{"property_id": pid, "reason": "no check registered yet in this revision (work in progress; see DESIGN.md section 4 for the planned model, theorems and correspondence)"}
          for pid in ALL if pid not in CHECKS]
    m = {
        "version": 1,
        "setup_cmd": "./setup.sh",
        "hooks": {
            "guard": "--cfg rocfl_verif",
            "enable": "RUSTFLAGS='--cfg rocfl_verif' (set by vplib/common.py for the harness and the release binary); no hook code exists in /repo at this revision",
            "baseline_off_cmd": "cd /repo && cargo test --workspace --no-fail-fast --offline",
            "source_commits": [],
            "add_only": True,
        },
        "engines": [{
            "name": "coq+harness", "path": "/verif/check",
            "serves_properties": [c["property_id"] for c in checks],
            "kind_free_text": "Coq 8.16 development (coq/theories: Model, Proofs, Props, Corr) + Rust harness linking /repo as a library + Python driver; per property: proof stage (make Props/Cxx.vo, Print Assumptions, forbidden-word scan), correspondence stage (cases evaluated by coqc vm_compute), direct search stage (model-free oracle)",
        }],
        "checks": checks,
        "not_applicable": na,
        "notes": "All checks rebuild the harness / CLI from /repo's working tree on every run. Known findings: /verif/known-findings.txt.",
    }
    json.dump(m, open("MANIFEST.json", "w"), indent=1)

if __name__ == "__main__":
    main()
