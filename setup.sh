#!/bin/sh
# setup_cmd: build the framework offline from files on disk only.
set -e
cd "$(dirname "$0")"
export CARGO_NET_OFFLINE=true
mkdir -p .build
python3 - <<'PY'
import sys
sys.path.insert(0, '.')
from vplib import common
common.coq_prepare()
ok, log = common.coq_make([f + 'o' for f in common.coq_files()], timeout=3000)
print(log[-3000:])
if not ok:
    # not fatal here: every check rebuilds the targets it needs and reports a broken proof itself
    print("WARNING: some Coq files did not build during setup")
common.build_harness()
common.build_rocfl_release()
print("setup ok")
PY
