#!/bin/bash
# Development aid: confirm a seeded change (/verif/seeded/<name>/ or a directory with patch.diff + demo)
# and run checks against it WITHOUT touching /repo (VERIF_REPO scratch worktree).
#   tools/seed_eval.sh <dir with patch.diff> <check id>...
# steps: scratch worktree of /repo HEAD -> apply patch -> cargo test (must pass) -> run each check with VERIF_REPO
# prints one summary line per check; removes the worktree afterwards.
set -u
dir=$(realpath "$1"); shift
name=$(basename "$dir")
wt=/tmp/sv_$name
git -C /repo worktree remove --force "$wt" 2>/dev/null
rm -rf "$wt"
git -C /repo worktree add -q --detach "$wt" HEAD || exit 2
if ! git -C "$wt" apply "$dir/patch.diff"; then echo "SEED $name: patch does not apply"; git -C /repo worktree remove --force "$wt"; exit 2; fi
export CARGO_NET_OFFLINE=true
if [ "${SKIP_TESTS:-0}" != 1 ]; then
  cp -r /repo/target "$wt/target" 2>/dev/null
  (cd "$wt" && cargo test --workspace --no-fail-fast --offline 2>&1 | grep -E "^test result" | awk '{p+=$4; f+=$6} END {print "SEED '"$name"': tests passed=" p " failed=" f}')
  # demonstration: a Rust integration test seed_*.rs (fails with the change, passes without)
  for t in "$dir"/seed_*.rs; do
    [ -e "$t" ] || continue
    tn=$(basename "$t" .rs)
    cp "$t" "$wt/tests/$tn.rs"
    (cd "$wt" && cargo test --offline --test "$tn" > /tmp/sv_${name}_demo_with.log 2>&1); with=$?
    git -C "$wt" apply -R "$dir/patch.diff"
    (cd "$wt" && cargo test --offline --test "$tn" > /tmp/sv_${name}_demo_without.log 2>&1); without=$?
    git -C "$wt" apply "$dir/patch.diff"
    rm -f "$wt/tests/$tn.rs"
    echo "SEED $name: demo $tn with-change rc=$with (want != 0), without rc=$without (want 0)"
  done
  for t in "$dir"/seed_*.sh; do
    [ -e "$t" ] || continue
    (cd "$wt" && cargo build --offline > /dev/null 2>&1; ROCFL="$wt/target/debug/rocfl" bash "$t" "$wt/target/debug/rocfl" > /tmp/sv_${name}_demo_with.log 2>&1); with=$?
    git -C "$wt" apply -R "$dir/patch.diff"
    (cd "$wt" && cargo build --offline > /dev/null 2>&1; ROCFL="$wt/target/debug/rocfl" bash "$t" "$wt/target/debug/rocfl" > /tmp/sv_${name}_demo_without.log 2>&1); without=$?
    git -C "$wt" apply "$dir/patch.diff"
    echo "SEED $name: demo $(basename $t) with-change rc=$with (want != 0), without rc=$without (want 0)"
  done
  rm -rf "$wt/target"
fi
cd /verif
for c in "$@"; do
  s=$(date +%s)
  VERIF_REPO=$wt ./check "$c" --tier "${TIER:-quick}" > "/tmp/sv_${name}_$c.log" 2>&1
  rc=$?
  e=$(date +%s)
  echo "SEED $name: check $c rc=$rc t=$((e-s))s $(grep -m1 '^VIOLATION' /tmp/sv_${name}_$c.log)"
done
git -C /repo worktree remove --force "$wt"
# the alt build directories are large: drop them
python3 - <<EOF
import hashlib, shutil, os
t = hashlib.sha1(os.path.abspath("$wt").encode()).hexdigest()[:8]
for d in ("target-alt-" + t, "harness-alt-" + t):
    shutil.rmtree(os.path.join("/verif/.build", d), ignore_errors=True)
EOF
