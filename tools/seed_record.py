#!/usr/bin/env python3
"""tools/seed_record.py <seed dir name> <key=value>...   updates seeded/<name>/meta.json (confirmation + detection record)"""
import json, sys, os
d = os.path.join(os.path.dirname(os.path.dirname(os.path.abspath(__file__))), "seeded", sys.argv[1])
p = os.path.join(d, "meta.json")
m = json.load(open(p)) if os.path.exists(p) else {}
for kv in sys.argv[2:]:
    k, v = kv.split("=", 1)
    try:
        v = json.loads(v)
    except ValueError:
        pass
    m[k] = v
json.dump(m, open(p, "w"), indent=1, ensure_ascii=False)
print(json.dumps(m, indent=1, ensure_ascii=False)[:400])
