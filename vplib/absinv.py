"""abs: on-disk inventories / library answers -> Coq terms of Model/Inventory.v."""
import re

from .common import coq_str


class Tokens:
    """digest strings -> small N tokens, stable within one case"""

    def __init__(self):
        self.m = {}

    def tok(self, d):
        d = d.lower()
        if d not in self.m:
            self.m[d] = len(self.m) + 1
        return self.m[d]


def coq_lpath(p):
    """logical path string 'a/b' -> Coq lpath term (list of segments)"""
    if p == "":
        return "[]"
    return "[" + "; ".join(coq_str(s) for s in p.split("/")) + "]"


def coq_lpath_list(ps):
    return "[" + "; ".join(coq_lpath(p) for p in ps) + "]"


def parse_cpath(cp, cdir):
    """'v0003/content/a/b' -> (3, 'a/b') ; None if it is not of rocfl's direct form"""
    m = re.match(r"^v(\d+)/([^/]+)/(.+)$", cp)
    if not m or m.group(2) != cdir:
        return None
    return int(m.group(1)), m.group(3)


def vnum_of(k):
    return int(k[1:])


def abs_state(state, toks):
    """inventory version state {digest: [paths]} -> Coq term of type state"""
    ents = []
    for d, ps in state.items():
        for p in ps:
            ents.append("(%s, %d)" % (coq_lpath(p), toks.tok(d)))
    return "(list_to_map [%s] : gmap (list (list ascii)) N)" % "; ".join(sorted(ents))


def abs_manifest(manifest, cdir, toks):
    ents = []
    for d, ps in manifest.items():
        for cp in ps:
            pc = parse_cpath(cp, cdir)
            if pc is None:
                raise ValueError("content path %r is not of the direct form" % cp)
            ents.append("((%d, %s), %d)" % (pc[0], coq_lpath(pc[1]), toks.tok(d)))
    return "(list_to_map [%s] : gmap (N * list (list ascii)) N)" % "; ".join(sorted(ents))


def abs_inventory(inv, toks):
    """parsed inventory.json (python dict) -> Coq term `mkInv prev hstate manifest`"""
    cdir = inv.get("contentDirectory", "content")
    keys = sorted(inv["versions"], key=vnum_of)
    nums = [vnum_of(k) for k in keys]
    if nums != list(range(1, len(nums) + 1)) or inv["head"] != keys[-1]:
        raise ValueError("versions are not v1..head")
    prev = [abs_state(inv["versions"][k]["state"], toks) for k in keys[:-1]]
    hst = abs_state(inv["versions"][keys[-1]]["state"], toks)
    return "(mkInv [%s] %s %s)" % ("; ".join(prev), hst, abs_manifest(inv["manifest"], cdir, toks))


def head_state_map(inv):
    """{logical path: digest} of the head version"""
    out = {}
    for d, ps in inv["versions"][inv["head"]]["state"].items():
        for p in ps:
            out[p] = d.lower()
    return out


def manifest_map(inv):
    out = {}
    for d, ps in inv["manifest"].items():
        for p in ps:
            out[p] = d.lower()
    return out
