"""FORMER known finding failed-commit-dedup-persisted (C01; repaired by /repo 890d206): scripted histories that reached
it (now must-pass) and the decidable form of clause I5 used as an oracle after every refused commit.

The Coq side is Model/KnownC01.v (c01_failed_commit_dedup: the staged inventory violates clause I5 of the staged
invariant) with the witness Proofs/KnownC01Facts.v.  The python classifier below decides the same predicate on the
REAL staged inventory that the failing commit started from, and additionally demands the route of the known
finding (an earlier refused commit of the same object with nothing in between that rebuilds the staged version):
an E050 reached any other way stays a violation.
"""
from . import absinv


def scenarios():
    """(configuration, script) pairs: same content staged under two names, a commit that is refused AFTER its
    de-duplication step (no layout, no object root), removal / overwrite of either name, then the real commit.
    Which of the two names owns the surviving content path depends on HashMap order, so both are scripted."""
    out = []
    base = {"layout": "none", "repo_spec": "1.1", "obj_spec": "1.1", "alg": "sha512", "cdir": "content", "pad": 0,
            "ext_staging": False, "fresh_handle": False}
    o = "obj-0"
    for variant, fresh in (("rm", False), ("overwrite", True)):
        for victim in ("a.txt", "b.txt"):
            cfg = dict(base, alg="sha256" if fresh else "sha512", fresh_handle=fresh)
            script = [{"op": "new", "id": o},
                      {"op": "cp_ext", "id": o, "files": [["a.txt", 1]], "dst": "a.txt", "recursive": False},
                      {"op": "cp_ext", "id": o, "files": [["b.txt", 1]], "dst": "b.txt", "recursive": False},
                      {"op": "commit", "id": o, "object_root": None}]
            if variant == "rm":
                script.append({"op": "rm", "id": o, "paths": [victim], "recursive": False})
            else:
                script.append({"op": "cp_ext", "id": o, "files": [[victim, 2]], "dst": victim, "recursive": False})
            script.append({"op": "commit", "id": o})
            out.append((cfg, script))
    return out


def leftover_version_scenarios():
    """(configuration, script) pairs: a version commit that is refused because the version directory already exists in
    the object (left by an interrupted earlier commit / another process; created here by the driver) while the staged
    version holds the same new content under two names; the leftover is removed, either name is overwritten, and
    the commit repeated.  The refusal comes AFTER the store has resolved the object's root."""
    out = []
    for n, victim in enumerate(("x.txt", "y.txt")):
        cfg = {"layout": ("0004", "0002")[n], "repo_spec": "1.1", "obj_spec": "1.1", "alg": ("sha512", "sha256")[n], "cdir": "content",
               "pad": (0, 3)[n], "ext_staging": n == 1, "fresh_handle": n == 1}
        o = "obj-0"
        head2 = "v2" if cfg["pad"] == 0 else "v002"
        cp = lambda name, k: {"op": "cp_ext", "id": o, "files": [[name, k]], "dst": name, "recursive": False}
        script = [{"op": "new", "id": o}, cp("a.txt", 1), {"op": "commit", "id": o},
                  cp("x.txt", 3), cp("y.txt", 3),
                  {"op": "driver", "action": "mkdir", "id": o, "rel": head2},
                  {"op": "commit", "id": o, "driver_dirty": True},                       # refused: the directory exists
                  {"op": "driver", "action": "rmtree", "id": o, "rel": head2},
                  cp(victim, 2),
                  {"op": "commit", "id": o}]
        out.append((cfg, script))
    return out


def i5_fails(inv):
    """c01_failed_commit_dedup of Model/KnownC01.v on a real (staged) inventory: some logical path of the head
    state has neither its own direct content path with its digest nor content committed in an earlier version"""
    if not inv:
        return False
    head = inv.get("head", "")
    cdir = inv.get("contentDirectory", "content")
    man = {str(d).lower(): list(ps) for d, ps in (inv.get("manifest") or {}).items()}
    state = ((inv.get("versions") or {}).get(head) or {}).get("state") or {}
    for d, lps in state.items():
        cps = man.get(str(d).lower(), [])
        older = [cp for cp in cps if not cp.startswith(head + "/")]
        for lp in lps:
            if "%s/%s/%s" % (head, cdir, lp) not in cps and not older:
                return True
    return False


def refused_commit_before(run, st):
    """a commit of the same object was refused earlier and no operation since has discarded the staged version"""
    oid = st.op.get("id")
    seen = False
    for s in run.steps[:st.k]:
        if s.op.get("id") != oid:
            continue
        if s.op["op"] == "commit" and s.rc.startswith("err"):
            seen = True
        elif s.op["op"] in ("reset_all", "purge", "new") and s.rc == "ok":
            seen = False
        elif s.op["op"] == "commit" and s.rc == "ok":
            seen = False
    return seen


def refused_commit_oracle(run, st):
    """after a commit that reports an error the version stays staged and every staged path still has a file of
    its own or committed content (clause I5 of the staged invariant, evaluated on the real staged inventory)"""
    if st.op["op"] != "commit" or not st.rc.startswith("err"):
        return []
    post = (st.post.get("staged") or {}).get(st.op.get("id"))
    if post is not None and i5_fails(post):
        return ["a refused commit left a staged version in which two logical paths share one staged file (clause I5 fails)"]
    return []
