"""C01, file-system level stage: for the commits of the generated histories the real pre- and post-states
(snapshots of storage root and staging root taken by vplib/histrun.py) are abstracted to terms of
Model/FsTree.v + Model/CommitAbs.v and evaluated inside Coq (Model/CommitAbs.v: c01_fs_check):

  (a) the hypotheses of Props/C01.v C01_commit_yields_written_object (commit_pre_b, commit_pre_tree_b) on the
      abstraction of the REAL pre-state - must be true for every successful commit
  (b) written_by_rocflb of the abstraction of the REAL post-state object
  (c) the model's fault-free run from the abstracted pre-state = the abstracted real post-state, at and below the
      object root (the duplicates dedup_head dropped are read off the real result, as in checks/c04.py)

The abstraction mirrors CommitAbs.aseg_tab / enc / atok: names by `enc` (little-endian value of the bytes followed
by a 1), version directory names by their position, content CBlob n <-> sha256, digests abstracted injectively to the
token of the content that has them (dg_id), inventories as ObjTree.inventory terms (manifest and states sorted).
Only the object at hand, the staged object, their ancestor directories and a lock directory are part of the tree."""
import hashlib
import json
import os

from . import common, hist, histrun

IMPORTS = ["Base.Bytes", "Model.FsOps", "Model.FsTree", "Model.Commit", "Model.CommitAbs"]
DECL10, DECL11 = "0=ocfl_object_1.0", "0=ocfl_object_1.1"


def enc(name):
    return int.from_bytes(name.encode("utf-8") + b"\x01", "little")


def seg_term(name):
    return common.coq_str(name)


def path_term(segs):
    return "[" + "; ".join(seg_term(s) for s in segs) + "]"


def vnum(v):
    return int(v[1:])


def vstyle(vkeys):
    """(padding width as rocfl counts it, formatter n -> name) from the version names of an inventory"""
    k = sorted(vkeys, key=vnum)[0]
    digits = k[1:]
    if digits.startswith("0"):
        w = len(digits)
        return w, (lambda n: "v" + str(n).zfill(w))
    return 0, (lambda n: "v%d" % n)


class Unsupported(Exception):
    pass


class Case:
    """one commit step of a history, abstracted"""

    def __init__(self, run, st, store):
        self.run, self.st, self.store = run, st, store
        self.oid = st.op["id"]
        self.kind = st.op["op"]
        self.blob = {}          # sha256 -> n
        self.by_digest = {}     # hex digest (either algorithm) -> n
        self.inv_k = {}         # sha256 of inventory bytes -> k
        self.inv_json = {}      # k -> parsed
        self.inv_digest = {}    # hex digest of inventory bytes (either algorithm) -> k
        self.ids = {}
        self.lps = {}
        self.unknown = {}
        self.build()

    # ---- tables
    def blob_id(self, e):
        sha = e[2]
        if sha not in self.blob:
            self.blob[sha] = len(self.blob) + 1
            self.by_digest[e[2]] = self.blob[sha]
            self.by_digest[e[3]] = self.blob[sha]
        return self.blob[sha]

    def digest_n(self, hexd):
        hexd = hexd.lower()
        n = self.by_digest.get(hexd)
        if n is None:
            data = self.run.pool.get(hexd)
            if data is not None:
                e = ("f", len(data), hashlib.sha256(data).hexdigest(), hashlib.sha512(data).hexdigest())
                n = self.blob_id(e)
            else:
                n = self.unknown.setdefault(hexd, 1000000 + len(self.unknown))
        return 5 * n

    def inv_id(self, sha):
        if sha in self.inv_k:
            return self.inv_k[sha]
        data = self.store.get(sha)
        if data is None:
            return None
        try:
            inv = json.loads(data.decode("utf-8"))
            ok = isinstance(inv, dict) and isinstance(inv.get("versions"), dict) and inv["versions"] \
                and isinstance(inv.get("manifest"), dict) and inv.get("head") in inv["versions"]
        except (ValueError, UnicodeDecodeError):
            ok = False
        if not ok:
            return None
        k = len(self.inv_k) + 1
        self.inv_k[sha] = k
        self.inv_json[k] = inv
        for a in ("sha256", "sha512"):
            self.inv_digest[hashlib.new(a, data).hexdigest()] = k
        return k

    # ---- names
    def aseg(self, name):
        if name == "inventory.json":
            return "ObjTree.SInv"
        if name == self.side:
            return "(ObjTree.SSidecar %s)" % self.alg_t
        if name == DECL10:
            return "(ObjTree.SDecl ObjTree.V10)"
        if name == DECL11:
            return "(ObjTree.SDecl ObjTree.V11)"
        if name in self.vs:
            return "(ObjTree.SVer %d %d)" % (self.pad, self.vs.index(name) + 1)
        return "(ObjTree.SName %d)" % enc(name)

    def opath(self, p):
        return "[" + "; ".join(self.aseg(s) for s in p.split("/")) + "]"

    def inv_term(self, inv):
        ident = self.ids.setdefault(inv.get("id"), len(self.ids) + 1)
        spec = "ObjTree.V11" if str(inv.get("type", "")).rstrip("/").endswith("1.1/spec/#inventory") else "ObjTree.V10"
        alg = {"sha512": "ObjTree.Sha512", "sha256": "ObjTree.Sha256"}[inv["digestAlgorithm"]]
        pad, _ = vstyle(inv["versions"].keys())
        cdir = enc(inv.get("contentDirectory", "content"))
        man = sorted((p, dg) for dg, ps in inv["manifest"].items() for p in ps)
        mterm = "[" + "; ".join("(%d, %s)" % (self.digest_n(dg), self.opath(p)) for p, dg in man) + "]"
        vterms = []
        for v in sorted(inv["versions"], key=vnum):
            stt = sorted((p, dg) for dg, ps in inv["versions"][v]["state"].items() for p in ps)
            vterms.append("[" + "; ".join("(%d, [%d])" % (self.digest_n(dg), self.lps.setdefault(p, len(self.lps) + 1))
                                          for p, dg in stt) + "]")
        fix = inv.get("fixity") or {}
        fterm = "[]" if not any(fix.values()) else "[(0, 0, [])]"
        return "(ObjTree.mkInv %d %s %s %d %d %s [%s] %s)" % (ident, spec, alg, pad, cdir, mterm, "; ".join(vterms), fterm)

    # ---- file tokens
    def token(self, rel, e):
        bn = rel.rsplit("/", 1)[-1]
        if bn == "inventory.json":
            k = self.inv_id(e[2])
            if k is None:
                return "CPartial"
            inv = self.inv_json[k]
            vs = sorted(inv["versions"], key=vnum)
            spec = "0=ocfl_object_" + str(inv.get("type", "")).rstrip("/").split("/")[-3] if "/spec/" in str(inv.get("type", "")) else "0=ocfl_object_?"
            head = inv["head"] + "/"
            man = sorted(p for ps in inv["manifest"].values() for p in ps if p.startswith(head))
            dups = sorted(self.dups.get(k, []))
            return "(CInv %d %s %s [%s] [%s])" % (k, path_term(vs), seg_term(spec),
                                                   "; ".join(path_term(p.split("/")) for p in man),
                                                   "; ".join(path_term(p.split("/")) for p in dups))
        if bn.startswith("inventory.json."):
            data = self.store.get(e[2])
            if data is None:
                return "CPartial"
            parts = data.decode("utf-8", "replace").split()
            if len(parts) == 2 and parts[1] == "inventory.json" and data.endswith(b"\n"):
                return "(CSide %d)" % self.inv_digest.get(parts[0].lower(), 999999)
            return "CPartial"
        if bn.startswith("0=ocfl_object_"):
            want = hashlib.sha256((bn[2:] + "\n").encode()).hexdigest()
            return "(CDecl %s)" % seg_term(bn) if e[2] == want else "CPartial"
        return "(CBlob %d)" % self.blob_id(e)

    def tree_term(self, parts):
        """parts: list of (prefix segment, snapshot, relative roots to include with everything below)"""
        ents = [(["X"], "Dir"), (["X", "locks"], "Dir")]
        for top, snap, rels in parts:
            ents.append(([top], "Dir"))
            want = set()
            for r in rels:
                segs = r.split("/")
                for i in range(1, len(segs)):
                    want.add("/".join(segs[:i]))
            for rel in sorted(snap):
                e = snap[rel]
                inside = any(rel == r or rel.startswith(r + "/") for r in rels)
                if not inside and rel not in want:
                    continue
                if e[0] == "d":
                    ents.append(([top] + rel.split("/"), "Dir"))
                elif e[0] == "f":
                    ents.append(([top] + rel.split("/"), "File " + self.token(rel, e)))
                else:
                    raise Unsupported("entry %r of kind %r" % (rel, e[0]))
        return "[" + "; ".join("(%s, %s)" % (path_term(p), n) for p, n in ents) + "]"

    # ---- the case
    def build(self):
        run, st, oid = self.run, self.st, self.oid
        root, stg = run.r.root, run.r.staging_root
        if oid not in st.post["main"]:
            raise Unsupported("object not found after the commit")
        self.mo_rel = os.path.relpath(st.post["main"][oid][0], root)
        self.so_rel = histrun.staged_rel(oid)
        post_inv = st.post["main"][oid][1]
        self.alg = post_inv["digestAlgorithm"]
        self.alg_t = {"sha512": "ObjTree.Sha512", "sha256": "ObjTree.Sha256"}[self.alg]
        self.side = "inventory.json." + self.alg
        self.pad, fmt = vstyle(post_inv["versions"].keys())
        nhead = vnum(post_inv["head"])
        self.vs = [fmt(n) for n in range(1, nhead + 2)]
        self.cdir = post_inv.get("contentDirectory", "content")
        self.dups = {}
        self.features = []
        # every inventory of the object and of the staged object gets its number first (sidecars refer to them)
        for snap, rel0 in ((st.pre_main_snap, self.mo_rel), (st.post_main_snap, self.mo_rel), (st.pre_stg_snap, self.so_rel)):
            for rel, e in snap.items():
                if (rel == rel0 or rel.startswith(rel0 + "/")) and e[0] == "f" and rel.rsplit("/", 1)[-1] == "inventory.json":
                    self.inv_id(e[2])
        post_root = st.post_main_snap.get(self.mo_rel + "/inventory.json")
        self.newk = self.inv_id(post_root[2]) if post_root and post_root[0] == "f" else None
        if self.newk is None:
            raise Unsupported("root inventory of the result unreadable")
        staged = st.pre_stg_snap.get(self.so_rel + "/inventory.json")
        self.has_staged = bool(staged and staged[0] == "f" and self.inv_id(staged[2]) is not None)
        if self.has_staged:
            k0 = self.inv_id(staged[2])
            i0, i1 = self.inv_json[k0], self.inv_json[self.newk]
            hp = i0["head"] + "/"
            m0 = set(p for ps in i0["manifest"].values() for p in ps if p.startswith(hp))
            m1 = set(p for ps in i1["manifest"].values() for p in ps if p.startswith(hp))
            if k0 != self.newk:
                self.dups[k0] = sorted(m0 - m1)
            self.ndups = len(m0 - m1)
            self.first = len(i0["versions"]) == 1
            cpre = self.so_rel + "/" + hp + self.cdir + "/"
            staged_files = set(rel[len(self.so_rel) + 1:] for rel, e in st.pre_stg_snap.items() if e[0] == "f" and rel.startswith(cpre))
            self.features = [f for f, on in (
                ("dedup", self.ndups > 0), ("orphaned staged files", bool(staged_files - m0)),
                ("version without content", not m1), ("zero-padded", self.pad > 0),
                ("nested content directories", any(p.count("/") > 2 for p in m1)),
                ("duplicates in directories of their own", any(
                    not any(q != p and q.rsplit("/", 1)[0].startswith(p.rsplit("/", 1)[0]) for q in m1) for p in (m0 - m1) if p.count("/") > 2)),
                ("declaration swap (type changes)", (not self.first) and oid in st.pre["main"]
                 and st.pre["main"][oid][1].get("type") != i0.get("type")),
                ("content directory not 'content'", self.cdir != "content"), ("sha256", self.alg == "sha256")) if on]
        self.t_post = self.tree_term([("R", st.post_main_snap, [self.mo_rel])])
        if self.has_staged:
            self.t_pre = self.tree_term([("R", st.pre_main_snap, [self.mo_rel]), ("S", st.pre_stg_snap, [self.so_rel])])
        self.itab = "[" + "; ".join("(%d, %s)" % (k, self.inv_term(self.inv_json[k])) for k in sorted(self.inv_json)) + "]"
        vnext = self.vs[nhead] if nhead < len(self.vs) else self.vs[-1]
        self.cfg = "(mkCfg %s %s %s %s %s %s %s %d 9001 9002 %s %s)" % (
            path_term(["X", "locks"]), seg_term("o.lock"), path_term(["S"] + self.so_rel.split("/")),
            path_term(["R"] + self.mo_rel.split("/")), seg_term("inventory.json"), seg_term(self.side),
            seg_term(self.cdir), self.newk, seg_term(vnext), seg_term(DECL11))
        self.vs_t = path_term(self.vs)

    def check_term(self):
        return "let T := %s in let P := %s in let I := %s in let C := %s in c01_fs_check %s %d %s I C T P" % (
            self.t_pre, self.t_post, self.itab, self.cfg, self.alg_t, self.pad, self.vs_t)

    def detail_term(self):
        return "let T := %s in let I := %s in let C := %s in c01_fs_detail %s %d %s I C T" % (
            self.t_pre, self.itab, self.cfg, self.alg_t, self.pad, self.vs_t)

    def written_term(self):
        return "let P := %s in let I := %s in c01_fs_written %s %d %s I %s %s %s P" % (
            self.t_post, self.itab, self.alg_t, self.pad, self.vs_t, seg_term("inventory.json"), seg_term(self.side),
            path_term(["R"] + self.mo_rel.split("/")))

    def shape(self):
        if not self.has_staged:
            return "upgrade without staged version"
        return "%s%s%s" % ("first version" if self.first else "further version",
                           ", dedup" if self.ndups else "", ", upgrade" if self.kind == "upgrade_object" else "")


class FsStage:
    """hook + deferred evaluation; handed to histcheck.run_history_check as `extra_evidence` (a mapping whose keys()
    runs the evaluation, i.e. after all histories were executed and before the evidence is written)"""

    def __init__(self, ctx, max_cases):
        self.ctx, self.max_cases = ctx, max_cases
        self.cases = []
        self.skipped = {}
        self.result = None

    def hook(self, run, st):
        store = run.__dict__.setdefault("_fs_store", {})
        for base, snap in ((run.r.root, st.post_main_snap), (run.r.staging_root, st.post_stg_snap)):
            for rel, e in snap.items():
                bn = rel.rsplit("/", 1)[-1]
                if e[0] == "f" and bn.startswith("inventory.json") and e[2] not in store:
                    try:
                        with open(os.path.join(base, rel), "rb") as f:
                            store[e[2]] = f.read()
                    except OSError:
                        pass
        if st.op["op"] in ("commit", "upgrade_object") and st.rc == "ok":
            try:
                self.cases.append((run, st, Case(run, st, store)))
            except Unsupported as ex:
                self.skipped[str(ex)] = self.skipped.get(str(ex), 0) + 1

    def __bool__(self):
        return True

    def keys(self):
        if self.result is None:
            self.evaluate()
        return self.result.keys()

    def __getitem__(self, k):
        return self.result[k]

    def evaluate(self):
        import time
        t_start = time.time()
        ctx = self.ctx
        cases = self.cases
        if len(cases) > self.max_cases:
            # keep every rare shape, sample the rest
            idx = list(range(len(cases)))
            ctx.rng.shuffle(idx)
            cases = [cases[i] for i in sorted(idx[:self.max_cases])]
        terms, kinds = [], []
        for run, st, c in cases:
            if c.has_staged and st.op["op"] == "commit":
                terms.append(c.check_term())
                kinds.append("check")
            else:
                terms.append(c.written_term())
                kinds.append("written")
        res = common.coq_eval("c01fs", IMPORTS, terms, batch=max(1, len(terms) // (2 * common.NPROC) + 1), hoist_lets=True) if terms else []
        shapes, feats, pre_false, post_false, model_diff = {}, {}, 0, 0, 0
        bad = []
        for (run, st, c), kind, r in zip(cases, kinds, res):
            shapes[c.shape()] = shapes.get(c.shape(), 0) + 1
            for f in c.features:
                feats[f] = feats.get(f, 0) + 1
            r = r.replace(" ", "")
            if kind == "written":
                if r != "true":
                    post_false += 1
                    bad.append((run, st, c, "written_by_rocflb of the real post-state is %s" % r))
                continue
            vals = r.strip("()").split(",")
            if len(vals) != 4:
                bad.append((run, st, c, "unexpected value %r" % r))
                continue
            p1, p2, w, m = vals
            msgs = []
            if p1 != "true" or p2 != "true":
                pre_false += 1
                msgs.append("hypothesis false on the real pre-state: commit_pre_b=%s commit_pre_tree_b=%s" % (p1, p2))
            if w != "true":
                post_false += 1
                msgs.append("written_by_rocflb of the real post-state is false")
            if m != "true":
                model_diff += 1
                msgs.append("the model's fault-free run differs from the real result below the object root")
            if msgs:
                bad.append((run, st, c, "; ".join(msgs)))
        for run, st, c, msg in bad[:3]:
            detail = None
            if c.has_staged:
                try:
                    detail = common.coq_eval("c01fsd", IMPORTS, [c.detail_term()], hoist_lets=True)[0]
                except common.BuildError as ex:
                    detail = "detail evaluation failed: %s" % str(ex)[-300:]
            real = st.findings.get(ctx.prop) or []
            d = {"config": run.cfg, "history": [s.op for s in run.steps[:st.k + 1]], "step": st.k, "observed": msg,
                 "conjuncts [cfg_ok; staged_ok; main_ok; twf; tok_ok; newk; inv_good; staged_tree; link; main_written]": detail}
            if not real:
                common.corr_break(ctx, "Model.CommitAbs.c01_fs_check (Props/C01.v C01_commit_yields_written_object vs repo.rs/store/fs.rs)", d)
        self.result = {
            "fs_level_commits_seen": len(self.cases),
            "fs_level_commits_evaluated": len(terms),
            "fs_level_shapes": shapes,
            "fs_level_features": feats,
            "fs_level_hypothesis_false": pre_false,
            "fs_level_written_false": post_false,
            "fs_level_model_differs": model_diff,
            "fs_level_skipped": self.skipped,
            "fs_level_seconds": round(time.time() - t_start, 1),
        }
