"""Shared machinery of checks/c04.py and checks/c05.py: commit scenarios built with the real CLI,
step abstraction of traced system calls, abstraction of real trees to the Coq model
(Model/FsTree.v, Model/Commit.v), model-free oracles on real trees, injection runs.

Work directory layout (a template is built once per scenario and copied for every run):
    w/root   storage root           w/stg  external staging root (only with ext staging)
    w/src    source files           all CLI runs use cwd = w and paths relative to nothing (absolute)
"""
import hashlib
import json
import os
import shutil
import threading

from . import common, hist, ocflv
from . import strace as st

META = ["-n", "C04", "-a", "mailto:c04@example.org"]
T1 = "2021-01-01T00:00:00Z"
T2 = "2022-02-02T00:00:00Z"

FILES = {
    "a.txt": b"alpha\n", "b.txt": b"beta\n", "a2.txt": b"alpha\n", "c.txt": b"gamma\n",
    "n1.txt": b"new one\n", "n1b.txt": b"new one\n", "n2.txt": b"new two\n",
    "d/x.txt": b"x\n", "d/e/y.txt": b"y\n", "d/e/f/z.txt": b"zed\n", "big.bin": bytes((i * 7 + 3) % 251 for i in range(70000)),
}

KINDS = ["new", "version", "dedup", "delete", "upgrade", "upgrade_fresh", "upgrade_new", "nested"]


class Scn:
    """one commit scenario: kind x layout x staging"""

    def __init__(self, kind, layout="0004", ext=False):
        self.kind, self.layout, self.ext = kind, layout, ext
        self.name = "%s-%s-%s" % (kind, layout, "ext" if ext else "int")
        self.oid = "obj-" + kind
        self.is_upgrade = kind.startswith("upgrade")
        self.new_object = kind in ("new", "upgrade_new", "nested")

    def setup(self, w):
        """CLI argument lists that prepare the staged version (run in order, all must succeed)"""
        o = self.oid
        s = lambda n: os.path.join(w, "src", n)
        k = self.kind
        v1 = [["new", o], ["cp", o, s("a.txt"), s("b.txt"), "--", "/"], ["cp", "-r", o, s("d"), "--", "d/"],
              ["commit", o, "-m", "v1", "-c", T1] + META]
        if k == "new":
            return [["new", o], ["cp", o, s("a.txt"), s("b.txt"), "--", "/"]]
        if k == "nested":
            return [["new", "-z", "3", o], ["cp", o, s("a.txt"), "--", "top.txt"], ["cp", "-r", o, s("d"), "--", "deep/er/"],
                    ["cp", o, s("a2.txt"), "--", "deep/copy-of-a.txt"], ["cp", o, s("big.bin"), "--", "deep/er/d/e/big.bin"]]
        if k == "version":
            return v1 + [["cp", o, s("c.txt"), s("big.bin"), "--", "/"], ["cp", o, s("n1.txt"), "--", "sub/n1.txt"], ["rm", o, "b.txt"]]
        if k == "dedup":
            return v1 + [["cp", o, s("a2.txt"), "--", "a2.txt"],                       # duplicate of committed content
                         ["cp", o, s("n1.txt"), s("n1b.txt"), "--", "sub/deep/"],      # two new files with equal content
                         ["cp", o, s("n2.txt"), "--", "only/dup/here.txt"], ["cp", o, s("n2.txt"), "--", "keep.txt"],
                         ["cp", o, s("n1.txt"), "--", "n.txt"], ["cp", "-i", o, "b.txt", "--", "n.txt"],      # orphan v2/content/n.txt
                         ["cp", o, s("c.txt"), "--", "orph/an/o.txt"], ["cp", "-i", o, "a.txt", "--", "orph/an/o.txt"],  # orphan in its own dirs
                         ["rm", o, "d/x.txt"]]
        if k == "delete":
            return v1 + [["rm", o, "a.txt"], ["rm", "-r", o, "d"]]
        if k == "upgrade":
            v10 = [["new", "-v", "1.0", o]] + v1[1:]
            return v10 + [["cp", o, s("c.txt"), "--", "c.txt"]]
        if k == "upgrade_fresh":
            return [["new", "-v", "1.0", o]] + v1[1:]
        if k == "upgrade_new":
            return [["new", "-v", "1.0", o], ["cp", o, s("a.txt"), "--", "a.txt"], ["cp", "-r", o, s("d"), "--", "d/"]]
        raise ValueError(k)

    def final(self, w, retry=False):
        """the command under test"""
        o = self.oid
        if self.is_upgrade and not retry:
            return ["upgrade", "-v", "1.1", "-m", "up", "-c", T2, o] + META
        return ["commit", o, "-m", "up" if self.is_upgrade else "second", "-c", T2] + META

    def layout_name(self):
        return {"0004": "0004-hashed-n-tuple-storage-layout", "0002": "0002-flat-direct-storage-layout"}[self.layout]

    def rel_obj(self):
        return st.hashed_ntuple(self.oid) if self.layout == "0004" else self.oid


def root_of(w):
    return os.path.join(w, "root")


def stg_arg(w, scn):
    return os.path.join(w, "stg") if scn.ext else None


def main_root(w, scn):
    return os.path.join(root_of(w), scn.rel_obj())


def staged_root(w, scn):
    return st.staged_object_root(root_of(w), stg_arg(w, scn), scn.oid)


def staging_root(w, scn):
    return st.staging_root(root_of(w), stg_arg(w, scn))


def cmd(w, scn, args):
    return st.rocfl_cmd(root_of(w), stg_arg(w, scn), *args)


class Tpl:
    def __init__(self, ctx, scn, env):
        self.ctx, self.scn, self.env = ctx, scn, env
        self.dir = os.path.join(ctx.tmp, "tpl-" + scn.name)
        self.n = 0
        self.mu = threading.Lock()

    def copy(self, tag, src=None):
        with self.mu:
            self.n += 1
            n = self.n
        w = os.path.join(self.ctx.tmp, "w-%s-%s-%d" % (self.scn.name, tag, n))
        shutil.copytree(src or self.dir, w, symlinks=True)
        return w


def build_template(ctx, scn, env):
    t = Tpl(ctx, scn, env)
    w = t.dir
    for k, v in FILES.items():
        p = os.path.join(w, "src", k)
        os.makedirs(os.path.dirname(p), exist_ok=True)
        with open(p, "wb") as f:
            f.write(v)

    def run(args):
        rc, out, err = st.run_plain(cmd(w, scn, args), env=env, cwd=w)
        if rc != 0:
            raise common.BuildError("template %s: rocfl %s failed: %s" % (scn.name, " ".join(args), err[-500:]))
    run(["init", "-l", scn.layout_name()])
    for a in scn.setup(w):
        run(a)
    if os.path.isdir(st.locks_dir(root_of(w), stg_arg(w, scn))) and os.listdir(st.locks_dir(root_of(w), stg_arg(w, scn))):
        raise common.BuildError("template %s: lock left behind" % scn.name)
    return t


# --------------------------------------------------------------------------- steps of a traced run

def steps_of(tr):
    """abstraction of the counted calls of the main thread to the step vocabulary of Model/Commit.v:
         ("mkdir",p) effective mkdir           ("mkdirp",p) mkdir probe that failed with EEXIST / ENOENT
         ("createnew",p) ("trunc",p) ("chmod",p) ("write",p) first data-carrying write/copy of an open file
         ("tail",p) copy_file_range/sendfile that returned 0 (end of file probe of fs::copy)
         ("rename",a,b) ("unlink",p) ("rmdir",p)   ("unlinkp",p) unlink that failed with ENOENT
       returns list of dict(step=tuple, point=(name,n), ok=bool, call=Call); further writes of the same file are
       attached to their "write" step as .more points (list)"""
    out = []
    by_owner = {}
    for idx, c in enumerate(tr.all_calls):
        if c.pid != tr.main_pid or not c.mutating or c.k is None:
            continue
        n = c.name
        s = None
        if n in ("open", "openat", "creat"):
            fl = c.flags or ()
            s = ("createnew", c.path) if ("O_CREAT" in fl and "O_EXCL" in fl) else ("trunc", c.path)
            by_owner[idx] = {"wrote": False}
        elif n in ("mkdir", "mkdirat"):
            s = ("mkdir", c.path) if (c.ok or c.injected or c.ret is None) else ("mkdirp", c.path)
        elif n in ("rename", "renameat", "renameat2"):
            s = ("rename", c.path, c.path2)
        elif n in ("unlink", "unlinkat", "rmdir"):
            isdir = n == "rmdir" or "AT_REMOVEDIR" in (c.flags or ())
            s = ("rmdir" if isdir else "unlink", c.path)
            if not isdir and c.errno == "ENOENT" and not c.injected:
                s = ("unlinkp", c.path)
        elif n in ("fchmod", "fchmodat", "chmod"):
            s = ("chmod", c.path)
        elif n in ("write", "pwrite64", "writev", "copy_file_range", "sendfile"):
            own = by_owner.get(c.part_of)
            if own is None:
                s = ("write", c.path)
            elif n in ("copy_file_range", "sendfile") and c.ret == 0 and own["wrote"]:
                s = ("tail", c.path)
            elif own["wrote"]:
                own["step"]["more"].append(c.point)
                continue
            else:
                s = ("write", c.path)
                if c.ok and (c.ret or 0) > 0:
                    own["wrote"] = True
        else:
            s = (n, c.path)
        d = {"step": s, "point": c.point, "ok": bool(c.ok), "call": c, "more": []}
        if s[0] == "write" and c.part_of in by_owner:
            by_owner[c.part_of]["step"] = d
        out.append(d)
    return out


def occ_keys(steps):
    """[(step, occurrence index)] so that equal steps of one run can be told apart"""
    seen = {}
    out = []
    for s in steps:
        seen[s] = seen.get(s, 0) + 1
        out.append((s, seen[s]))
    return out


# --------------------------------------------------------------------------- reading real objects

def read_bytes(p):
    try:
        with open(p, "rb") as f:
            return f.read()
    except OSError:
        return None


def norm_inventory(data):
    """parsed inventory without the `created` stamps and with sorted path lists, as canonical JSON text; None if unparsable"""
    try:
        inv = json.loads(data.decode("utf-8"))
        if not isinstance(inv, dict) or not isinstance(inv.get("versions"), dict) or not isinstance(inv.get("manifest"), dict):
            return None
        inv = json.loads(json.dumps(inv))
        for v in inv["versions"].values():
            if isinstance(v, dict):
                v.pop("created", None)
                for paths in (v.get("state") or {}).values():
                    if isinstance(paths, list):
                        paths.sort()
        for paths in inv["manifest"].values():
            if isinstance(paths, list):
                paths.sort()
        for a in (inv.get("fixity") or {}).values():
            if isinstance(a, dict):
                for paths in a.values():
                    if isinstance(paths, list):
                        paths.sort()
        return json.dumps(inv, sort_keys=True)
    except (ValueError, UnicodeDecodeError, AttributeError):
        return None


def sidecar_ok(dirpath):
    """the sidecar next to dirpath/inventory.json records the digest of exactly these bytes"""
    inv = read_bytes(os.path.join(dirpath, "inventory.json"))
    if inv is None:
        return False
    for alg in ("sha512", "sha256"):
        sc = read_bytes(os.path.join(dirpath, "inventory.json." + alg))
        if sc is not None:
            want = hashlib.new(alg, inv).hexdigest()
            parts = sc.decode("utf-8", "replace").split()
            return len(parts) == 2 and parts[0].lower() == want and parts[1] == "inventory.json"
    return False


def obj_view(root):
    """comparison view of an object tree: {rel: entry} where inventories are compared as parsed JSON modulo
    `created`, sidecars by consistency with the inventory next to them, everything else by size + sha256.
    None when the root does not exist."""
    if not os.path.lexists(root):
        return None
    out = {}
    for rel, e in hist.snapshot(root).items():
        bn = os.path.basename(rel)
        full = os.path.join(root, rel)
        if e[0] == "f" and bn == "inventory.json":
            n = norm_inventory(read_bytes(full) or b"")
            out[rel] = ("inv", n) if n is not None else ("f", e[1], e[2])
        elif e[0] == "f" and bn.startswith("inventory.json."):
            out[rel] = ("sidecar", sidecar_ok(os.path.dirname(full)))
        else:
            out[rel] = e[:3]
    return out


def raw_view(root):
    if not os.path.lexists(root):
        return None
    return {k: v[:3] for k, v in hist.snapshot(root).items()}


def view_diff(a, b, limit=6):
    if a is None or b is None:
        return [] if a is b else [("<object root>", "absent" if a is None else "present", "absent" if b is None else "present")]
    return [(k, a.get(k), b.get(k)) for k in sorted(set(a) | set(b)) if a.get(k) != b.get(k)][:limit]


def validate_both(w, scn, env):
    """(ocflv errors, rocfl validate exit status) for the main object"""
    m = main_root(w, scn)
    if not os.path.isdir(m):
        return None, None
    errs = ocflv.validate_object(m, fixity=True)
    rc, out, err = st.run_plain(cmd(w, scn, ["validate", scn.oid]), env=env, cwd=w)
    return [e[0] for e in errs], rc


def version_dirs(view):
    """{version dir name: {rel: entry}} of an object view"""
    out = {}
    for rel, e in (view or {}).items():
        top = rel.split("/", 1)[0]
        if top.startswith("v") and top[1:].isdigit():
            out.setdefault(top, {})[rel] = e
    return out


def head_content(root):
    """{content path: sha256} of the content files the root inventory of the object at `root` lists for its head version"""
    data = read_bytes(os.path.join(root, "inventory.json"))
    inv = json.loads(data.decode("utf-8"))
    head = inv["head"]
    out = {}
    for dg, paths in inv["manifest"].items():
        for p in paths:
            if p.startswith(head + "/"):
                out[p] = dg
    return head, out
