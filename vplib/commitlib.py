"""Shared machinery of checks/c04.py and checks/c05.py: commit scenarios built with the real CLI,
step abstraction of traced system calls, abstraction of real trees to the Coq model
(Model/FsTree.v, Model/Commit.v), model-free oracles on real trees, injection runs.

Work directory layout (a template is built once per scenario and copied for every run):
    w/root   storage root           w/stg  external staging root (only with ext staging)
    w/src    source files           all CLI runs use cwd = w and paths relative to nothing (absolute)
"""
import hashlib
import json
import os
import shutil
import threading

from . import common, hist, ocflv
from . import strace as st

META = ["-n", "C04", "-a", "mailto:c04@example.org"]
T1 = "2021-01-01T00:00:00Z"
T2 = "2022-02-02T00:00:00Z"

FILES = {
    "a.txt": b"alpha\n", "b.txt": b"beta\n", "a2.txt": b"alpha\n", "c.txt": b"gamma\n",
    "n1.txt": b"new one\n", "n1b.txt": b"new one\n", "n2.txt": b"new two\n",
    "many.txt": b"many identical new files\n", "d/x.txt": b"x\n", "d/e/y.txt": b"y\n", "d/e/f/z.txt": b"zed\n", "big.bin": bytes((i * 7 + 3) % 251 for i in range(70000)),
}

KINDS = ["new", "version", "dedup", "delete", "upgrade", "upgrade_fresh", "upgrade_new", "nested", "dupold"]
NCOPIES = 12      # identical new files of the "manydup" scenario (C05: the keeper dedup_head picks is random per process)


class Scn:
    """one commit scenario: kind x layout x staging"""

    def __init__(self, kind, layout="0004", ext=False):
        self.kind, self.layout, self.ext = kind, layout, ext
        self.name = "%s-%s-%s" % (kind, layout, "ext" if ext else "int")
        self.oid = "obj-" + kind
        self.is_upgrade = kind.startswith("upgrade")
        self.new_object = kind in ("new", "upgrade_new", "nested")

    def setup(self, w):
        """CLI argument lists that prepare the staged version (run in order, all must succeed)"""
        o = self.oid
        s = lambda n: os.path.join(w, "src", n)
        k = self.kind
        v1 = [["new", o], ["cp", o, s("a.txt"), s("b.txt"), "--", "/"], ["cp", "-r", o, s("d"), "--", "d/"],
              ["commit", o, "-m", "v1", "-c", T1] + META]
        if k == "new":
            return [["new", o], ["cp", o, s("a.txt"), s("b.txt"), "--", "/"]]
        if k == "nested":
            return [["new", "-z", "3", o], ["cp", o, s("a.txt"), "--", "top.txt"], ["cp", "-r", o, s("d"), "--", "deep/er/"],
                    ["cp", o, s("a2.txt"), "--", "deep/copy-of-a.txt"], ["cp", o, s("big.bin"), "--", "deep/er/d/e/big.bin"]]
        if k == "version":
            return v1 + [["cp", o, s("c.txt"), s("big.bin"), "--", "/"], ["cp", o, s("n1.txt"), "--", "sub/n1.txt"], ["rm", o, "b.txt"]]
        if k == "dedup":
            return v1 + [["cp", o, s("a2.txt"), "--", "a2.txt"],                       # duplicate of committed content
                         ["cp", o, s("n1.txt"), s("n1b.txt"), "--", "sub/deep/"],      # two new files with equal content
                         ["cp", o, s("n2.txt"), "--", "only/dup/here.txt"], ["cp", o, s("n2.txt"), "--", "keep.txt"],
                         ["cp", o, s("n1.txt"), "--", "n.txt"], ["cp", "-i", o, "b.txt", "--", "n.txt"],      # orphan v2/content/n.txt
                         ["cp", o, s("c.txt"), "--", "orph/an/o.txt"], ["cp", "-i", o, "a.txt", "--", "orph/an/o.txt"],  # orphan in its own dirs
                         ["rm", o, "d/x.txt"]]
        if k == "manydup":
            # NCOPIES new files with one content that no committed version has: dedup_head keeps one of them, chosen
            # in HashSet order (random per process), and the commit unlinks all the others
            return v1 + [["cp", o, s("many.txt"), "--", ("m/c%02d.txt" if n % 3 else "t%02d.txt") % n] for n in range(NCOPIES)] + \
                        [["cp", o, s("c.txt"), "--", "c.txt"]]
        if k == "dupold":
            # every staged file duplicates committed content: the commit unlinks them all and removes the emptied staged
            # content directory (a kill in between, then the retry, must still give the uninterrupted result)
            return v1 + [["cp", o, s("a2.txt"), "--", "copy/of/a.txt"], ["cp", o, s("a2.txt"), "--", "a-again.txt"]]
        if k == "delete":
            return v1 + [["rm", o, "a.txt"], ["rm", "-r", o, "d"]]
        if k == "upgrade":
            v10 = [["new", "-v", "1.0", o]] + v1[1:]
            return v10 + [["cp", o, s("c.txt"), "--", "c.txt"]]
        if k == "upgrade_fresh":
            return [["new", "-v", "1.0", o]] + v1[1:]
        if k == "upgrade_new":
            return [["new", "-v", "1.0", o], ["cp", o, s("a.txt"), "--", "a.txt"], ["cp", "-r", o, s("d"), "--", "d/"]]
        raise ValueError(k)

    def final(self, w, retry=False):
        """the command under test"""
        o = self.oid
        if self.is_upgrade and not retry:
            return ["upgrade", "-v", "1.1", "-m", "up", "-c", T2, o] + META
        return ["commit", o, "-m", "up" if self.is_upgrade else "second", "-c", T2] + META

    def layout_name(self):
        return {"0004": "0004-hashed-n-tuple-storage-layout", "0002": "0002-flat-direct-storage-layout"}[self.layout]

    def rel_obj(self):
        return st.hashed_ntuple(self.oid) if self.layout == "0004" else self.oid


def root_of(w):
    return os.path.join(w, "root")


def stg_arg(w, scn):
    return os.path.join(w, "stg") if scn.ext else None


def main_root(w, scn=None):
    return os.path.join(root_of(w), scn.rel_obj())


def staged_root(w, scn):
    return st.staged_object_root(root_of(w), stg_arg(w, scn), scn.oid)


def staging_root(w, scn):
    return st.staging_root(root_of(w), stg_arg(w, scn))


def cmd(w, scn, args):
    return st.rocfl_cmd(root_of(w), stg_arg(w, scn), *args)


class Tpl:
    def __init__(self, ctx, scn, env):
        self.ctx, self.scn, self.env = ctx, scn, env
        self.dir = os.path.join(ctx.tmp, "tpl-" + scn.name)
        self.n = 0
        self.mu = threading.Lock()

    def copy(self, tag, src=None):
        with self.mu:
            self.n += 1
            n = self.n
        w = os.path.join(self.ctx.tmp, "w-%s-%s-%d" % (self.scn.name, tag, n))
        shutil.copytree(src or self.dir, w, symlinks=True)
        return w


def build_template(ctx, scn, env):
    t = Tpl(ctx, scn, env)
    w = t.dir
    for k, v in FILES.items():
        p = os.path.join(w, "src", k)
        os.makedirs(os.path.dirname(p), exist_ok=True)
        with open(p, "wb") as f:
            f.write(v)

    def run(args):
        rc, out, err = st.run_plain(cmd(w, scn, args), env=env, cwd=w)
        if rc != 0:
            raise common.BuildError("template %s: rocfl %s failed: %s" % (scn.name, " ".join(args), err[-500:]))
    run(["init", "-l", scn.layout_name()])
    for a in scn.setup(w):
        run(a)
    if os.path.isdir(st.locks_dir(root_of(w), stg_arg(w, scn))) and os.listdir(st.locks_dir(root_of(w), stg_arg(w, scn))):
        raise common.BuildError("template %s: lock left behind" % scn.name)
    return t


# --------------------------------------------------------------------------- steps of a traced run

def steps_of(tr):
    """abstraction of the counted calls of the main thread to the step vocabulary of Model/Commit.v:
         ("mkdir",p) effective mkdir           ("mkdirp",p) mkdir probe that failed with EEXIST / ENOENT
         ("createnew",p) ("trunc",p) ("chmod",p) ("write",p) first data-carrying write/copy of an open file
         ("tail",p) copy_file_range/sendfile that returned 0 (end of file probe of fs::copy)
         ("rename",a,b) ("unlink",p) ("rmdir",p)   ("unlinkp",p) unlink that failed with ENOENT
       returns list of dict(step=tuple, point=(name,n), ok=bool, call=Call); further writes of the same file are
       attached to their "write" step as .more points (list)"""
    out = []
    by_owner = {}
    for idx, c in enumerate(tr.all_calls):
        if c.pid != tr.main_pid or not c.mutating or c.k is None:
            continue
        n = c.name
        s = None
        if n in ("open", "openat", "creat"):
            fl = c.flags or ()
            s = ("createnew", c.path) if ("O_CREAT" in fl and "O_EXCL" in fl) else ("trunc", c.path)
            by_owner[idx] = {"wrote": False}
        elif n in ("mkdir", "mkdirat"):
            s = ("mkdir", c.path) if (c.ok or c.injected or c.ret is None) else ("mkdirp", c.path)
        elif n in ("rename", "renameat", "renameat2"):
            s = ("rename", c.path, c.path2)
        elif n in ("unlink", "unlinkat", "rmdir"):
            isdir = n == "rmdir" or "AT_REMOVEDIR" in (c.flags or ())
            s = ("rmdir" if isdir else "unlink", c.path)
            if not isdir and c.errno == "ENOENT" and not c.injected:
                s = ("unlinkp", c.path)
        elif n in ("fchmod", "fchmodat", "chmod"):
            s = ("chmod", c.path)
        elif n in ("write", "pwrite64", "writev", "copy_file_range", "sendfile"):
            own = by_owner.get(c.part_of)
            if own is None:
                s = ("write", c.path)
            elif n in ("copy_file_range", "sendfile") and own["wrote"] and (c.ret == 0 or c.ret is None or c.injected):
                s = ("tail", c.path)
            elif own["wrote"]:
                own["step"]["more"].append(c.point)
                continue
            else:
                s = ("write", c.path)
                if c.ok and (c.ret or 0) > 0:
                    own["wrote"] = True
        else:
            s = (n, c.path)
        d = {"step": s, "point": c.point, "ok": bool(c.ok), "call": c, "more": []}
        if s[0] == "write" and c.part_of in by_owner:
            by_owner[c.part_of]["step"] = d
        out.append(d)
    return out


READ_CALLS = ("open", "openat", "openat2", "read", "pread64", "getdents64", "stat", "lstat", "fstat", "newfstatat", "statx",
              "access", "faccessat", "faccessat2", "readlink", "readlinkat")


def read_calls(tr, steps, roots, top="/nonexistent"):
    """the non-mutating calls (open for reading, read, getdents, stat family) of the main thread that touch a path at or
    below one of `roots`, each with the number of mutating steps made before it (= index of the next step).
    Needs a trace taken with set="all-fs"."""
    pos = {id(s["call"]): i for i, s in enumerate(steps)}
    cur = 0
    out = []
    for c in tr.all_calls:
        if id(c) in pos:
            cur = pos[id(c)] + 1
            continue
        if c.pid != tr.main_pid or c.k is None or c.mutating or c.name not in READ_CALLS:
            continue
        p = c.path
        # at or below a root, or one of its ancestors inside the work directory (clean_dirs_up, purge_object, create_dir_all)
        if isinstance(p, str) and any(hist.under(p, r) or (p != top and hist.under(p, top) and hist.under(r, p)) for r in roots):
            out.append({"point": c.point, "name": c.name, "path": p, "next": cur, "call": c})
    return out


def occ_keys(steps):
    """[(step, occurrence index)] so that equal steps of one run can be told apart"""
    seen = {}
    out = []
    for s in steps:
        seen[s] = seen.get(s, 0) + 1
        out.append((s, seen[s]))
    return out


# --------------------------------------------------------------------------- reading real objects

def read_bytes(p):
    try:
        with open(p, "rb") as f:
            return f.read()
    except OSError:
        return None


def norm_inventory(data):
    """parsed inventory without the `created` stamps and with sorted path lists, as canonical JSON text; None if unparsable"""
    try:
        inv = json.loads(data.decode("utf-8"))
        if not isinstance(inv, dict) or not isinstance(inv.get("versions"), dict) or not isinstance(inv.get("manifest"), dict):
            return None
        inv = json.loads(json.dumps(inv))
        for v in inv["versions"].values():
            if isinstance(v, dict):
                v.pop("created", None)
                for paths in (v.get("state") or {}).values():
                    if isinstance(paths, list):
                        paths.sort()
        for paths in inv["manifest"].values():
            if isinstance(paths, list):
                paths.sort()
        for a in (inv.get("fixity") or {}).values():
            if isinstance(a, dict):
                for paths in a.values():
                    if isinstance(paths, list):
                        paths.sort()
        return json.dumps(inv, sort_keys=True)
    except (ValueError, UnicodeDecodeError, AttributeError):
        return None


def sidecar_ok(dirpath):
    """the sidecar next to dirpath/inventory.json records the digest of exactly these bytes"""
    inv = read_bytes(os.path.join(dirpath, "inventory.json"))
    if inv is None:
        return False
    for alg in ("sha512", "sha256"):
        sc = read_bytes(os.path.join(dirpath, "inventory.json." + alg))
        if sc is not None:
            want = hashlib.new(alg, inv).hexdigest()
            parts = sc.decode("utf-8", "replace").split()
            return len(parts) == 2 and parts[0].lower() == want and parts[1] == "inventory.json"
    return False


def obj_view(root):
    """comparison view of an object tree: {rel: entry} where inventories are compared as parsed JSON modulo
    `created`, sidecars by consistency with the inventory next to them, everything else by size + sha256.
    None when the root does not exist."""
    if not os.path.lexists(root):
        return None
    out = {}
    for rel, e in hist.snapshot(root).items():
        bn = os.path.basename(rel)
        full = os.path.join(root, rel)
        if e[0] == "f" and bn == "inventory.json":
            n = norm_inventory(read_bytes(full) or b"")
            out[rel] = ("inv", n) if n is not None else ("f", e[1], e[2])
        elif e[0] == "f" and bn.startswith("inventory.json."):
            out[rel] = ("sidecar", sidecar_ok(os.path.dirname(full)))
        else:
            out[rel] = e[:3]
    return out


def raw_view(root):
    if not os.path.lexists(root):
        return None
    return {k: v[:3] for k, v in hist.snapshot(root).items()}


def view_diff(a, b, limit=6):
    if a is None or b is None:
        return [] if a is b else [("<object root>", "absent" if a is None else "present", "absent" if b is None else "present")]
    return [(k, a.get(k), b.get(k)) for k in sorted(set(a) | set(b)) if a.get(k) != b.get(k)][:limit]


def validate_both(w, scn, env):
    """(ocflv errors, rocfl validate exit status) for the main object"""
    m = main_root(w, scn)
    if not os.path.isdir(m):
        return None, None
    errs = ocflv.validate_object(m, fixity=True)
    rc, out, err = st.run_plain(cmd(w, scn, ["validate", scn.oid]), env=env, cwd=w)
    return [e[0] for e in errs], rc


def version_dirs(view):
    """{version dir name: {rel: entry}} of an object view"""
    out = {}
    for rel, e in (view or {}).items():
        top = rel.split("/", 1)[0]
        if top.startswith("v") and top[1:].isdigit():
            out.setdefault(top, {})[rel] = e
    return out


def head_content(root):
    """{content path: sha256} of the content files the root inventory of the object at `root` lists for its head version"""
    data = read_bytes(os.path.join(root, "inventory.json"))
    inv = json.loads(data.decode("utf-8"))
    head = inv["head"]
    out = {}
    for dg, paths in inv["manifest"].items():
        for p in paths:
            if p.startswith(head + "/"):
                out[p] = dg
    return head, out


# --------------------------------------------------------------------------- "new" modulo the dedup choice

def canon_inv(normjson, head_prefix):
    """Inventory::dedup_head keeps, of several head paths with one digest, the one its HashSet iterates
    last - a per-process random choice.  Canonical form: the head paths of a manifest entry are replaced
    by their number."""
    inv = json.loads(normjson)
    man = {}
    for dg, paths in inv.get("manifest", {}).items():
        keep = sorted(p for p in paths if not p.startswith(head_prefix))
        n = sum(1 for p in paths if p.startswith(head_prefix))
        man[dg] = keep + (["<%d head path(s)>" % n] if n else [])
    inv["manifest"] = man
    return json.dumps(inv, sort_keys=True)


def canon_view(view):
    """object view -> comparison form in which the choice of surviving duplicates does not show: head content
    files as a sorted list of their hashes, inventories through canon_inv"""
    if view is None:
        return None
    head = None
    e = view.get("inventory.json")
    if e and e[0] == "inv":
        try:
            head = json.loads(e[1]).get("head")
        except ValueError:
            head = None
    out = {}
    bag = []
    for rel, e in view.items():
        if head and rel.startswith(head + "/") and "/" in rel[len(head) + 1:]:
            if e[0] == "f":
                bag.append(e[1:3])
            continue                      # directories below the head content directory depend on the choice
        if e[0] == "inv" and head:
            out[rel] = ("inv", canon_inv(e[1], head + "/"))
        else:
            out[rel] = e
    out["<head content>"] = tuple(sorted(bag))
    return out


def is_new(view, ref_view):
    return canon_view(view) == canon_view(ref_view)


def digests_needed(staged_root):
    """digests of the logical state of the version being committed (the staged inventory's head version)"""
    inv = json.loads(read_bytes(os.path.join(staged_root, "inventory.json")).decode("utf-8"))
    return inv["digestAlgorithm"], sorted(inv["versions"][inv["head"]]["state"].keys())


def digests_present(alg, roots):
    have = set()
    for r in roots:
        if not os.path.isdir(r):
            continue
        for d, _, fs in os.walk(r):
            for f in fs:
                data = read_bytes(os.path.join(d, f))
                if data is not None:
                    have.add(hashlib.new(alg, data).hexdigest())
    return have


# --------------------------------------------------------------------------- abstraction to Model/FsTree.v

EMPTY_SHA = hashlib.sha256(b"").hexdigest()
KIND_NO = {"mkdir": 1, "mkdirp": 1, "createnew": 2, "trunc": 3, "chmod": 4, "write": 5, "tail": 6, "rename": 7,
           "unlink": 8, "unlinkp": 8, "rmdir": 9}


class Abs:
    """token tables shared by all snapshots of one scenario"""

    def __init__(self, scn):
        self.scn = scn
        self.inv_k = {}        # normalised inventory -> k
        self.digest_k = {}     # hex digest of inventory bytes -> k
        self.blob_n = {EMPTY_SHA: 0}
        self.dups = {}         # k -> duplicates Inventory::dedup_head drops (observed)

    def rel(self, w, p):
        """absolute path below w -> list of segments relative to w"""
        r = os.path.relpath(p, w)
        return [] if r == "." else r.split("/")

    def path_term(self, segs):
        # long (hash) names are abbreviated: the model only compares names
        short = lambda x: x if len(x) <= 24 else x[:10] + "~%d~" % len(x) + x[-6:]
        return "[" + "; ".join(common.coq_str(short(s)) for s in segs) + "]"

    def inv_key(self, data):
        n = norm_inventory(data)
        if n is None:
            return None
        if n not in self.inv_k:
            self.inv_k[n] = len(self.inv_k) + 1
        k = self.inv_k[n]
        for alg in ("sha512", "sha256"):
            self.digest_k[hashlib.new(alg, data).hexdigest()] = k
        return k

    def scan(self, w):
        for base in self.bases(w):
            for d, _, fs in os.walk(base):
                if "inventory.json" in fs:
                    self.inv_key(read_bytes(os.path.join(d, "inventory.json")) or b"")

    def bases(self, w):
        return [root_of(w)] + ([os.path.join(w, "stg")] if self.scn.ext else [])

    def inv_token(self, data):
        k = self.inv_key(data)
        if k is None:
            return "CPartial"
        inv = json.loads(data.decode("utf-8"))
        vs = sorted(inv["versions"].keys(), key=lambda v: int(v[1:]))
        spec = "0=ocfl_object_" + inv["type"].split("/")[3]
        head = inv["head"] + "/"
        man = sorted(p for ps in inv["manifest"].values() for p in ps if p.startswith(head))
        dups = sorted(self.dups.get(k, []))
        return "(CInv %d %s %s %s %s)" % (k, self.path_term(vs), common.coq_str(spec),
                                           "[" + "; ".join(self.path_term(p.split("/")) for p in man) + "]",
                                           "[" + "; ".join(self.path_term(p.split("/")) for p in dups) + "]")

    def file_token(self, full):
        bn = os.path.basename(full)
        data = read_bytes(full)
        if data is None:
            return "CPartial"
        if bn == "inventory.json":
            return self.inv_token(data)
        if bn.startswith("inventory.json."):
            parts = data.decode("utf-8", "replace").split()
            if len(parts) == 2 and parts[1] == "inventory.json" and data.endswith(b"\n"):
                return "(CSide %d)" % self.digest_k.get(parts[0].lower(), 999999)
            return "CPartial"
        if bn.startswith("0=ocfl_object_"):
            return "(CDecl %s)" % common.coq_str(bn) if data == (bn[2:] + "\n").encode() else "CPartial"
        h = hashlib.sha256(data).hexdigest()
        if h not in self.blob_n:
            self.blob_n[h] = len(self.blob_n)
        return "(CBlob %d)" % self.blob_n[h]

    def tree_term(self, w):
        self.scan(w)
        ents = []
        for base in self.bases(w):
            segs0 = self.rel(w, base)
            ents.append((segs0, "Dir"))
            for d, dirs, fs in os.walk(base):
                dirs.sort()
                for name in sorted(dirs):
                    ents.append((self.rel(w, os.path.join(d, name)), "Dir"))
                for name in sorted(fs):
                    full = os.path.join(d, name)
                    ents.append((self.rel(w, full), "File " + self.file_token(full)))
        return "[" + "; ".join("(%s, %s)" % (self.path_term(p), n) for p, n in ents) + "]"

    def cfg_term(self, w, newk):
        scn = self.scn
        so = self.rel(w, staged_root(w, scn))
        mo = self.rel(w, main_root(w, scn))
        locks = self.rel(w, st.locks_dir(root_of(w), stg_arg(w, scn)))
        lock = os.path.basename(st.lock_path(root_of(w), stg_arg(w, scn), scn.oid))
        inv = json.loads(read_bytes(os.path.join(main_root(w, scn) if not os.path.isdir(staged_root(w, scn)) else staged_root(w, scn),
                                                 "inventory.json")).decode("utf-8"))
        alg = inv["digestAlgorithm"]
        vs = sorted(inv["versions"].keys(), key=lambda v: int(v[1:]))
        last = vs[-1]
        width = len(last) - 1 if last.startswith("v0") else 0
        vnext = "v" + str(int(last[1:]) + 1).rjust(width, "0")
        return "(mkCfg %s %s %s %s %s %s %s %d 9001 9002 %s %s)" % (
            self.path_term(locks), self.path_term([lock])[1:-1], self.path_term(so), self.path_term(mo),
            common.coq_str("inventory.json"), common.coq_str("inventory.json." + alg),
            common.coq_str(inv.get("contentDirectory", "content")), newk, common.coq_str(vnext),
            common.coq_str("0=ocfl_object_1.1"))

    def ostep_term(self, w, s):
        kind = KIND_NO[s[0]]
        p = self.path_term(self.rel(w, s[1]))
        q = self.path_term(self.rel(w, s[2])) if len(s) > 2 else "[]"
        return "(OS %d %s %s)" % (kind, p, q)

    def fsop_term(self, w, o):
        names = {"mkdir": "Mkdir", "createnew": "CreateNew", "create": "Create", "unlink": "Unlink", "rmdir": "Rmdir"}
        if o[0] == "rename":
            return "(Rename %s %s)" % (self.path_term(self.rel(w, o[1])), self.path_term(self.rel(w, o[2])))
        if o[0] in names:
            return "(%s %s)" % (names[o[0]], self.path_term(self.rel(w, o[1])))
        return None


# --------------------------------------------------------------------------- recording run of a scenario

class Rec:
    """the fault-free recording run of a scenario: injection points, reference results, Coq terms"""


def record(tpl, env, set_=None):
    scn = tpl.scn
    w = tpl.copy("rec")
    r = Rec()
    r.tpl, r.scn, r.w, r.set = tpl, scn, w, set_
    r.pre_raw = raw_view(main_root(tpl.dir, scn))
    r.pre_view = obj_view(main_root(tpl.dir, scn))
    r.alg, r.need = digests_needed(staged_root(tpl.dir, scn)) if os.path.isdir(staged_root(tpl.dir, scn)) else (None, None)
    staged_inv = read_bytes(os.path.join(staged_root(tpl.dir, scn), "inventory.json"))
    r.state = {}
    if staged_inv is not None:
        sinv = json.loads(staged_inv.decode("utf-8"))
        r.state = {p: dg for dg, ps in sinv["versions"][sinv["head"]]["state"].items() for p in ps}
    tr = st.trace(cmd(w, scn, scn.final(w)), env=env, cwd=w, set=set_)
    if tr.rc != 0 or tr.parse_errors or tr.timed_out:
        raise common.BuildError("recording run of %s failed: rc=%s %s %r" % (scn.name, tr.rc, tr.stderr[-300:], tr.parse_errors[:2]))
    r.trace = tr
    r.steps = steps_of(tr)
    r.reads = read_calls(tr, r.steps, [main_root(w, scn), staged_root(w, scn)], top=w) if set_ == "all-fs" else []
    r.new_view = obj_view(main_root(w, scn))
    r.errs, r.vrc = validate_both(w, scn, env)
    if r.alg is None:
        r.alg, r.need = "sha512", []
        inv = json.loads(read_bytes(os.path.join(main_root(w, scn), "inventory.json")).decode("utf-8"))
        r.alg, r.need = inv["digestAlgorithm"], sorted(inv["versions"][inv["head"]]["state"].keys())
    # index of the step that installs into the main repository
    mo = main_root(w, scn)
    r.install = None
    for i, s in enumerate(r.steps):
        if s["step"][0] == "rename" and hist.under(s["step"][2], mo):
            r.install = i
            break
    # ---- Coq terms
    a = Abs(scn)
    a.scan(tpl.dir)
    a.scan(w)
    final_inv = read_bytes(os.path.join(mo, "inventory.json"))
    newk = a.inv_key(final_inv)
    if staged_inv is not None:
        k0 = a.inv_key(staged_inv)
        i0 = json.loads(staged_inv.decode("utf-8"))
        i1 = json.loads(final_inv.decode("utf-8"))
        h = i0["head"] + "/"
        m0 = set(p for ps in i0["manifest"].values() for p in ps if p.startswith(h))
        m1 = set(p for ps in i1["manifest"].values() for p in ps if p.startswith(h))
        if k0 != newk:
            a.dups[k0] = sorted(m0 - m1)
    r.abs = a
    r.newk = newk
    r.t_pre = a.tree_term(tpl.dir)
    r.t_post = a.tree_term(w)
    r.cfg = a.cfg_term(tpl.dir, newk)
    r.obs = "[" + "; ".join(a.ostep_term(w, s["step"]) for s in r.steps) + "]"
    ops = [a.fsop_term(w, o) for o in tr.ops]
    r.ops = "[" + "; ".join(o for o in ops if o) + "]"
    r.prog = "PUpgrade" if scn.is_upgrade else "PCommit"
    return r


def report_term(r, injs):
    """one Coq term evaluating Corr.CheckCommit.scenario_report; injs = list of ('F'|'K'|'KA'|'S', step index)"""
    names = {"F": "OFault", "K": "OKill", "KA": "OKillAfter", "S": "OStop", "R": "ORead"}
    js = "[" + "; ".join("%s %d%%nat" % (names[k], i) for k, i in injs) + "]"
    return "let T := %s in let P := %s in let C := %s in let O := %s in scenario_report %s C T P O %s %s" % (
        r.t_pre, r.t_post, r.cfg, r.obs, r.prog, r.ops, js)


def refs_term(r):
    return "let T := %s in let C := %s in kill_refs_ok %s C T" % (r.t_pre, r.cfg, r.prog)


def pre_term(r):
    return "let T := %s in let C := %s in pre_check_any C T" % (r.t_pre, r.cfg)


# --------------------------------------------------------------------------- injected runs and the model-free oracles

ERRNOS = ["EIO", "ENOSPC", "EACCES"]


def classify(w, scn, rec, env):
    """direct classification of the main object after a run: ('old'|'new'|'invalid'|'other', details)
    old = byte-identical to before; new = the fault-free result (inventories as parsed JSON modulo `created`
    and the dedup choice, sidecars consistent, content by hash) accepted by ocflv and by rocfl validate;
    invalid = neither, and BOTH validators reject it; other = neither, and some validator accepts it"""
    m = main_root(w, scn)
    raw = raw_view(m)
    if raw == rec.pre_raw:
        return "old", {"ocflv": None, "rocfl_validate_rc": None}       # byte-identical to before: nothing to validate
    errs, vrc = validate_both(w, scn, env)
    d = {"ocflv": errs, "rocfl_validate_rc": vrc}
    view = obj_view(m)
    if is_new(view, rec.new_view) and errs == [] and vrc == 0:
        return "new", d
    d["diff_to_old"] = [(a, str(b_)[:80], str(c_)[:80]) for a, b_, c_ in view_diff(raw, rec.pre_raw, 5)]
    d["diff_to_new"] = [(a, str(b_)[:80], str(c_)[:80]) for a, b_, c_ in view_diff(canon_view(view), canon_view(rec.new_view), 5)]
    if errs and vrc == 2:
        return "invalid", d
    return "other", d


def old_versions_intact(w, scn, rec):
    """C05 (i): every version directory committed before is byte-identical"""
    if rec.pre_raw is None:
        return []
    now = raw_view(main_root(w, scn)) or {}
    bad = []
    for v, ents in version_dirs(rec.pre_raw).items():
        for rel, e in ents.items():
            if now.get(rel) != e:
                bad.append((rel, e, now.get(rel)))
        for rel in now:
            if (rel == v or rel.startswith(v + "/")) and rel not in rec.pre_raw:
                bad.append((rel, None, now[rel]))
    return bad[:5]


def content_somewhere(w, scn, rec):
    """C05 (ii): every content file of the version being committed exists in full in staging or in the object"""
    have = digests_present(rec.alg, [main_root(w, scn), staged_root(w, scn)])
    return [d[:16] for d in rec.need if d not in have]


def staged_refs_dangling(w, scn):
    """content paths of the head version that the staged inventory ON DISK lists although the file is neither in the
    staged object nor (same relative path) in the main object; [] when the staged inventory is absent or unparsable"""
    so, mo = staged_root(w, scn), main_root(w, scn)
    data = read_bytes(os.path.join(so, "inventory.json"))
    try:
        inv = json.loads(data.decode("utf-8"))
        head = inv["head"] + "/"
        paths = [p for ps in inv["manifest"].values() for p in ps if p.startswith(head)]
    except (AttributeError, ValueError, KeyError, TypeError):
        return []
    return sorted(p for p in paths if not os.path.isfile(os.path.join(so, p)) and not os.path.isfile(os.path.join(mo, p)))


def recover_after_kill(w, scn, rec, env):
    """what a user does after the process died: remove the stale lock file, commit again.  Returns (dict, messages):
    after a successful retry the object must be valid and every logical path of the version must give back the
    ingested bytes (rocfl cat); after a failed retry every ingested content must still exist, complete, in the staged
    object or in the object"""
    import subprocess
    msgs = []
    lock = st.lock_path(root_of(w), stg_arg(w, scn), scn.oid)
    if os.path.exists(lock):
        os.remove(lock)
    rc, out = run_cli(w, scn, env, scn.final(w, retry=True))
    d = {"retry_rc": rc, "retry_out": out}
    if rc == 0:
        errs, vrc = validate_both(w, scn, env)
        d["ocflv"], d["rocfl_validate_rc"] = errs, vrc
        if errs or vrc != 0:
            msgs.append("the commit retried after the kill succeeded but the object is invalid (ocflv %r, rocfl validate exit %s)" % (errs, vrc))
        bad = []
        for path, dg in sorted(rec.state.items()):
            try:
                p = subprocess.run(cmd(w, scn, ["cat", scn.oid, path]), env=env, cwd=w, capture_output=True, timeout=60)
                got = hashlib.new(rec.alg, p.stdout).hexdigest() if p.returncode == 0 else "cat exit %s" % p.returncode
            except subprocess.TimeoutExpired:
                got = "timeout"
            if got != dg:
                bad.append((path, got[:24]))
        d["cat_mismatch"] = bad[:6]
        if bad:
            msgs.append("after the retried commit the ingested bytes of %d logical path(s) cannot be read back: %r" % (len(bad), bad[:4]))
        # the retried commit installs THE new version: the object is the one the uninterrupted commit gives (inventories
        # as parsed JSON modulo `created` and the dedup choice, content by hash, no extra or missing entry)
        # (not for an interrupted `upgrade`: its retry is a plain `commit`, which rightly gives another object when the
        #  kill came before the upgrade had staged the new inventory type)
        cls, det = classify(w, scn, rec, env)
        d["class_after_retry"] = cls
        if cls != "new" and not msgs and not scn.is_upgrade:
            msgs.append("the commit retried after the kill succeeded but the object is not the one of the uninterrupted commit: %s, differences %r"
                        % (cls, det.get("diff_to_new")))
    else:
        miss = content_somewhere(w, scn, rec)
        d["missing"] = miss
        if miss:
            msgs.append("the retried commit failed and ingested content is neither in staging nor in the object any more: digests %r" % (miss,))
    return d, msgs


def run_cli(w, scn, env, args):
    rc, out, err = st.run_plain(cmd(w, scn, args), env=env, cwd=w, timeout=90)
    return rc, (out + err).strip()[-300:]


def match_step(rec, tr, w):
    """the call the injection hit in THIS run (rocfl's HashSet order makes the calls of the dedup clean-up differ
    from run to run, so a point (name, n) of the recording may be another call here) mapped back to the index of
    the same call in the recording; and whether the run had installed into the main repository before it.
    A failed NON-mutating call (read, stat, getdents, open for reading) is given the position of the mutating step
    that follows it in the recording.
    returns (index or None, step tuple with ~ for the work directory, installed_before)"""
    steps = steps_of(tr)
    mo = main_root(w, scn=rec.scn)
    norm = lambda stp, base: tuple(x.replace(base, "~") if isinstance(x, str) else x for x in stp)
    kinds = {"mkdirp": "mkdir", "unlinkp": "unlink"}
    nk = lambda t_: (kinds.get(t_[0], t_[0]),) + tuple(t_[1:])
    mine = [nk(norm(s["step"], w)) for s in steps]
    theirs = [nk(norm(s["step"], rec.w)) for s in rec.steps]

    def to_rec(k):
        occ = mine[:k + 1].count(mine[k])
        seen = 0
        for j, t_ in enumerate(theirs):
            if t_ == mine[k]:
                seen += 1
                if seen == occ:
                    return j
        return None

    def installed_before(k):
        return any(s["step"][0] == "rename" and s["ok"] and hist.under(s["step"][2], mo) for s in steps[:k])

    hit = None
    for i, s in enumerate(steps):
        c = s["call"]
        if c.injected or (tr.killed and c.ret is None and i == len(steps) - 1):
            hit = i
            break
        if any(tuple(p) == tuple(x.point) for x in tr.injected_calls() for p in s["more"]):
            hit = i
            break
    if hit is not None:
        return to_rec(hit), mine[hit], installed_before(hit)
    inj = [c for c in tr.injected_calls() if c.pid == tr.main_pid]
    if not inj:
        return None, None, None
    pos = {id(s["call"]): i for i, s in enumerate(steps)}
    cur = 0
    for c in tr.all_calls:
        if id(c) in pos:
            cur = pos[id(c)] + 1
        if c is inj[0]:
            break
    rd = ("read-" + inj[0].name, (inj[0].path or "?").replace(w, "~"))
    if cur == 0:
        nxt = 0
    else:
        j = to_rec(cur - 1)
        nxt = None if j is None else j + 1
    if nxt is not None and nxt >= len(theirs):
        nxt = None
    return nxt, rd, installed_before(cur)


def run_case(rec, env, kind, idx, what=None, point=None, set_=None):
    """one injected run in a fresh copy of the template.
    kind 'F' error injection (what = errno), 'K' SIGKILL, 'S' SIGINT; idx = index into rec.steps;
    point overrides the injection point (a later write call of the same file)"""
    tpl, scn = rec.tpl, rec.scn
    w = tpl.copy("i" + kind)
    pt = point or rec.steps[idx]["point"]
    inj = {"when": list(pt)}
    if set_:
        inj["set"] = set_
    if kind == "F":
        inj["error"] = what
    else:
        inj["signal"] = "SIGKILL" if kind == "K" else "SIGINT"
    tr = st.trace(cmd(w, scn, scn.final(w)), env=env, cwd=w, inject=inj, timeout=90)
    midx, hit, installed = match_step(rec, tr, w)
    o = {"scn": scn.name, "kind": kind, "idx": idx, "what": what or inj.get("signal"), "point": list(pt), "set": set_,
         "rec_step": [x.replace(rec.w, "~") for x in rec.steps[min(idx, len(rec.steps) - 1)]["step"]], "hit": hit, "midx": midx,
         "read": bool(hit and str(hit[0]).startswith("read-")),
         "rc": tr.rc, "killed": tr.killed, "stderr": tr.stderr.strip()[-240:], "reached": hit is not None,
         "timed_out": tr.timed_out, "parse_errors": tr.parse_errors[:2], "msgs": [], "follow": [],
         "installed_before": installed, "mid_file": bool(point)}
    cls, det = classify(w, scn, rec, env)
    o["cls"], o["detail"] = cls, det
    o["staged_left"] = os.path.isdir(staged_root(w, scn))
    o["lock_left"] = os.path.exists(st.lock_path(root_of(w), stg_arg(w, scn), scn.oid))
    msgs = o["msgs"]
    if kind == "K":
        bad = old_versions_intact(w, scn, rec)
        if bad:
            msgs.append("a previously committed version directory changed: %r" % (bad,))
        miss = content_somewhere(w, scn, rec)
        if miss:
            msgs.append("content of the version being committed is neither in staging nor in the object: digests %r" % (miss,))
        o["dangling"] = staged_refs_dangling(w, scn)
        if getattr(rec, "recover", False) and rec.state:
            o["recovery"], rmsgs = recover_after_kill(w, scn, rec, env)
            msgs.extend(rmsgs)
        if cls == "other":
            msgs.append("after the kill the object is neither old nor new, yet ocflv (%r) and rocfl validate (exit %s) do not both reject it" % (det["ocflv"], det["rocfl_validate_rc"]))
    else:
        if cls not in ("old", "new"):
            msgs.append("main object is neither byte-identical to before nor the complete valid new version (%s: ocflv %r, rocfl validate exit %s)" % (cls, det["ocflv"], det["rocfl_validate_rc"]))
        if kind == "F" and o["reached"]:
            if tr.rc == 0 and cls != "new":
                msgs.append("success reported but the new version is not installed (%s)" % cls)
            if tr.rc != 0 and not installed and cls != "old":
                msgs.append("error raised before the install step but the object changed (%s)" % cls)
        # ---- afterwards: retry / reset
        if cls == "old" and (tr.rc != 0 or kind == "S"):
            w2 = tpl.copy("rs", src=w)
            rc2, out2 = run_cli(w2, scn, env, ["reset", scn.oid])
            o["follow"].append(("reset", rc2, out2))
            o["reset_rc"] = rc2
            o["reset_staged_left"] = os.path.isdir(staged_root(w2, scn))
            o["reset_ok"] = rc2 == 0 and not o["reset_staged_left"] and raw_view(main_root(w2, scn)) == rec.pre_raw
            shutil.rmtree(w2, ignore_errors=True)
            ok = False
            for args in ([scn.final(w)] + ([scn.final(w, retry=True)] if scn.is_upgrade else [])):
                rc3, out3 = run_cli(w, scn, env, args)
                o["follow"].append((args[0], rc3, out3))
                if rc3 == 0:
                    ok = True
                    break
            c3, d3 = classify(w, scn, rec, env)
            o["retry_rc0"] = ok
            o["retry_cls"] = c3
            o["retry_detail"] = d3
        elif cls == "new" and tr.rc != 0:
            rc2, out2 = run_cli(w, scn, env, ["reset", scn.oid])
            c3, d3 = classify(w, scn, rec, env)
            o["follow"].append(("reset", rc2, out2))
            o["reset_rc"] = rc2
            o["reset_staged_left"] = os.path.isdir(staged_root(w, scn))
            o["reset_ok"] = rc2 == 0 and c3 == "new" and not o["reset_staged_left"]
    shutil.rmtree(w, ignore_errors=True)
    return o


# --------------------------------------------------------------------------- scenario sets, Coq evaluation

QUICK = [("new", "0004", False), ("version", "0002", True), ("dedup", "0004", False), ("dedup", "0002", True),
         ("delete", "0002", False), ("upgrade", "0004", True), ("upgrade_fresh", "0002", False),
         ("upgrade_new", "0004", True), ("nested", "0002", True), ("version", "0004", False)]
# every read call is failed: a plain version, the scenario with duplicates and orphans (rm_orphaned_files' existence / file tests),
# the upgrade of a never committed object (find_files in stage_object_declaration)
READ_ALL = [("version", "0004", False), ("dedup", "0004", False), ("upgrade_new", "0004", True)]
READ_SAMPLED = [("new", "0002", True), ("upgrade", "0004", True), ("delete", "0002", False)]   # a third
WRITE_GRANULARITY = [("version", "0004", False), ("upgrade", "0004", True), ("upgrade_new", "0004", True), ("new", "0004", False)]
IMPORTS = ["Base.Bytes", "Model.FsOps", "Model.FsTree", "Model.Commit", "Corr.CheckCommit", "Corr.CheckCommitUp"]
CLS_NO = {"old": 0, "new": 1, "invalid": 2, "other": 3}


def scenario_list(ctx):
    if ctx.quick():
        return [Scn(*x) for x in QUICK]
    return [Scn(k, l, e) for k in KINDS for l in ("0004", "0002") for e in (False, True)]


def parse_coq(val):
    """printed Coq value (booleans, numbers, options, pairs, lists) -> Python value"""
    import ast
    import re
    v = val.replace("%nat", "").replace("%N", "").replace(";", ",")
    v = re.sub(r"\btrue\b", "True", v)
    v = re.sub(r"\bfalse\b", "False", v)
    v = re.sub(r"\bSome\s+", "", v)
    return ast.literal_eval(v)


def follow_term(r, idxs):
    return "let T := %s in let C := %s in let O := %s in follow_obs %s C T O [%s]" % (
        r.t_pre, r.cfg, r.obs, r.prog, "; ".join("%d%%nat" % i for i in idxs))


def prepare(ctx, env, scns, set_=None, workers=8):
    """templates and recording runs (thread pool)"""
    import concurrent.futures

    def one(scn):
        tpl = build_template(ctx, scn, env)
        return record(tpl, env, set_=set_)
    with concurrent.futures.ThreadPoolExecutor(max_workers=workers) as ex:
        return list(ex.map(one, scns))


def sample_write_points(ctx, rec, per_file=2):
    """[(step index, point or None)] of the data writes of the recording (set mutating+write): the first write of every
    file and a few later ones"""
    out = []
    for i, s in enumerate(rec.steps):
        if s["step"][0] != "write":
            continue
        out.append((i, None))
        more = s["more"]
        if more:
            picks = {len(more) // 2, len(more) - 1}
            while len(picks) < min(per_file, len(more)):
                picks.add(ctx.rng.randrange(len(more)))
            for j in sorted(picks)[:per_file]:
                out.append((i, more[j]))
    return out
