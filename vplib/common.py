"""Shared machinery of the /verif checks: builds, Coq evaluation, evidence,
known findings, violation reporting.  Python 3 standard library only."""
import concurrent.futures
import hashlib
import json
import os
import random
import re
import shutil
import subprocess
import sys
import time

VERIF = os.path.dirname(os.path.dirname(os.path.abspath(__file__)))
REPO = os.environ.get("VERIF_REPO", "/repo")
BUILD = os.path.join(VERIF, ".build")
COQ = os.path.join(VERIF, "coq")
THEORIES = os.path.join(COQ, "theories")
# VERIF_REPO (development aid, unset in registered commands): run the checks against a scratch
# copy of the sources (a seeded change) without touching /repo; builds then go to their own
# target directory and a copy of the harness crate whose path dependency points there.
ALT = os.path.abspath(REPO) != "/repo"
_TAG = hashlib.sha1(os.path.abspath(REPO).encode()).hexdigest()[:8]
TARGET = os.path.join(BUILD, "target-alt-" + _TAG) if ALT else os.path.join(BUILD, "target")
HARNESS = os.path.join(BUILD, "harness-alt-" + _TAG) if ALT else os.path.join(VERIF, "harness")
VH = os.path.join(TARGET, "debug", "vh")
ROCFL_BIN = os.path.join(TARGET, "release", "rocfl")
CARGO_ENV = dict(os.environ, CARGO_NET_OFFLINE="true", CARGO_TERM_COLOR="never")
NPROC = os.cpu_count() or 4

FORBIDDEN = re.compile(
    r"\b(Admitted|admit|Axiom|Axioms|Parameter|Parameters|Conjecture|Conjectures|Abort All)\b"
    r"|Unset\s+Guard|bypass_check|Admit\s+Obligations|-type-in-type|-impredicative-set"
    r"|Unset\s+Positivity|Unset\s+Universe")


def log(*a):
    print(*a, file=sys.stderr, flush=True)


def _big_stack():
    # coqc parses / evaluates generated terms of hundreds of kilobytes recursively: lift the stack limit as far as allowed
    import resource
    try:
        soft, hard = resource.getrlimit(resource.RLIMIT_STACK)
        resource.setrlimit(resource.RLIMIT_STACK, (hard, hard))
    except (ValueError, OSError):
        pass


def run(cmd, timeout=1800, cwd=None, env=None, input=None):
    """run a command, return (rc, stdout+stderr text)"""
    try:
        p = subprocess.run(cmd, cwd=cwd, env=env, input=input, stdout=subprocess.PIPE,
                           stderr=subprocess.STDOUT, timeout=timeout,
                           text=isinstance(input, str) or input is None,
                           preexec_fn=_big_stack if cmd and cmd[0] in ("coqc", "make") else None)
        out = p.stdout if isinstance(p.stdout, str) else p.stdout.decode("utf-8", "replace")
        return p.returncode, out
    except subprocess.TimeoutExpired as e:
        out = e.stdout or b""
        if not isinstance(out, str):
            out = out.decode("utf-8", "replace")
        return 124, out + "\n[timeout]"


# --------------------------------------------------------------------------- builds

def repo_fingerprint():
    """hash of the tracked + modified source files of /repo that matter to the build"""
    h = hashlib.sha256()
    for base in ("src", "Cargo.toml", "Cargo.lock", "resources/main"):
        p = os.path.join(REPO, base)
        if os.path.isfile(p):
            h.update(open(p, "rb").read())
        else:
            for d, _, fs in sorted(os.walk(p)):
                for f in sorted(fs):
                    fp = os.path.join(d, f)
                    h.update(fp.encode())
                    h.update(open(fp, "rb").read())
    return h.hexdigest()[:16]


def build_harness():
    """(re)build the harness against /repo's current working tree (debug: overflow checks on)"""
    hdir = HARNESS
    if ALT:
        src = os.path.join(VERIF, "harness")
        shutil.rmtree(os.path.join(hdir, "src"), ignore_errors=True)
        os.makedirs(os.path.join(hdir, ".cargo"), exist_ok=True)
        shutil.copytree(os.path.join(src, "src"), os.path.join(hdir, "src"))
        toml = open(os.path.join(src, "Cargo.toml")).read().replace('path = "/repo"', 'path = "%s"' % os.path.abspath(REPO))
        open(os.path.join(hdir, "Cargo.toml"), "w").write(toml)
        open(os.path.join(hdir, ".cargo", "config.toml"), "w").write(
            '[net]\noffline = true\n[build]\ntarget-dir = "%s"\n' % TARGET)
    lock = os.path.join(hdir, "Cargo.lock")
    if not os.path.exists(lock):
        shutil.copy(os.path.join(REPO, "Cargo.lock"), lock)
    env = dict(CARGO_ENV, RUSTFLAGS="--cfg rocfl_verif -Awarnings")
    rc, out = run(["cargo", "build", "--offline", "--quiet"], cwd=hdir, env=env, timeout=1800)
    if rc != 0:
        # a lock file from an older tree can stop resolution: refresh it once
        shutil.copy(os.path.join(REPO, "Cargo.lock"), lock)
        rc, out = run(["cargo", "build", "--offline", "--quiet"], cwd=hdir, env=env, timeout=1800)
    if rc != 0:
        raise BuildError("harness build failed:\n" + out[-4000:])
    return VH


def build_rocfl_release():
    """release build of the real CLI from /repo's working tree into /verif/.build/target"""
    env = dict(CARGO_ENV, RUSTFLAGS="--cfg rocfl_verif -Awarnings")
    rc, out = run(["cargo", "build", "--offline", "--quiet", "--release", "--bin", "rocfl",
                   "--manifest-path", os.path.join(REPO, "Cargo.toml"), "--target-dir", TARGET],
                  env=env, timeout=3600)
    if rc != 0:
        raise BuildError("rocfl release build failed:\n" + out[-4000:])
    return ROCFL_BIN


class BuildError(Exception):
    pass


# --------------------------------------------------------------------------- Coq

def coq_files():
    out = []
    for d, _, fs in os.walk(THEORIES):
        for f in fs:
            if f.endswith(".v"):
                out.append(os.path.relpath(os.path.join(d, f), COQ))
    return sorted(out)


def coq_prepare():
    """regenerate Consts.v from /repo, _CoqProject and the Makefile (only when changed)"""
    from . import gen_consts
    gen_consts.generate()
    files = coq_files()
    proj = "-Q theories Rocfl\n-arg -w -arg -all\n" + "\n".join(files) + "\n"
    pj = os.path.join(COQ, "_CoqProject")
    old = open(pj).read() if os.path.exists(pj) else ""
    if old != proj or not os.path.exists(os.path.join(COQ, "Makefile")):
        open(pj, "w").write(proj)
        rc, out = run(["coq_makefile", "-f", "_CoqProject", "-o", "Makefile"], cwd=COQ)
        if rc != 0:
            raise BuildError("coq_makefile failed: " + out)


def coq_make(targets, timeout=2400):
    """build .vo targets (paths relative to coq/); returns (ok, log)"""
    import fcntl
    os.makedirs(BUILD, exist_ok=True)
    # one make at a time in coq/: concurrent checks (and developers) share the tree of compiled files
    with open(os.path.join(BUILD, "coq-make.lock"), "w") as lk:
        fcntl.flock(lk, fcntl.LOCK_EX)
        coq_prepare()
        rc, out = run(["make", "-j%d" % NPROC, "-k"] + list(targets), cwd=COQ, timeout=timeout)
    return rc == 0, out


def dep_cone(prop_file):
    """the .v files Props/<prop_file>.v transitively depends on (from coq_makefile's .Makefile.d,
    which make refreshes); None when it cannot be determined (then the whole development is scanned)"""
    try:
        deps = {}
        for line in open(os.path.join(COQ, ".Makefile.d")):
            if ":" not in line:
                continue
            lhs, rhs = line.split(":", 1)
            tgt = lhs.split()[0]
            if tgt.endswith(".vo"):
                deps[tgt[:-1]] = [d[:-1] for d in rhs.split() if d.endswith(".vo")]
        root = "theories/Props/%s.v" % prop_file
        if root not in deps:
            return None
        seen, todo = set(), [root]
        while todo:
            f = todo.pop()
            if f in seen:
                continue
            seen.add(f)
            todo.extend(deps.get(f, []))
        return seen
    except OSError:
        return None


def forbidden_scan(only=None):
    """list of (file, line, text) for forbidden vernacular in the development (or in the files of `only`)"""
    bad = []
    for f in coq_files():
        if only is not None and f not in only:
            continue
        if f.startswith("theories/Generated/"):
            pass
        txt = open(os.path.join(COQ, f)).read()
        # strip comments (non-nested is enough for our files; nested handled by a small loop)
        depth, res, i = 0, [], 0
        while i < len(txt):
            if txt.startswith("(*", i):
                depth += 1
                i += 2
            elif txt.startswith("*)", i) and depth > 0:
                depth -= 1
                i += 2
            else:
                if depth == 0:
                    res.append(txt[i])
                elif txt[i] == "\n":
                    res.append("\n")
                i += 1
        clean = "".join(res)
        in_section = 0
        for n, line in enumerate(clean.split("\n"), 1):
            if FORBIDDEN.search(line):
                bad.append((f, n, line.strip()))
            if re.match(r"\s*Section\b", line):
                in_section += 1
            if re.match(r"\s*End\b", line) and in_section > 0:
                in_section -= 1
            if in_section == 0 and re.match(r"\s*(Variable|Variables|Hypothesis|Hypotheses|Context)\b", line):
                bad.append((f, n, "outside section: " + line.strip()))
    return bad


STD_AXIOM_ALLOW = {
    # standard-library axioms that may appear (each is named in DESIGN.md section 6)
    "functional_extensionality_dep", "FunctionalExtensionality.functional_extensionality_dep",
    "Eqdep.Eq_rect_eq.eq_rect_eq", "eq_rect_eq", "proof_irrelevance", "classic", "JMeq_eq",
}


def props_check(prop_file):
    """Compile Props/<file>.v (after its dependencies were built with make), collect the
    theorems it states and what Print Assumptions reports for each.
    returns dict(ok, theorems=[names], assumptions={name: text}, log)"""
    rel = "theories/Props/%s.v" % prop_file
    ok, out = coq_make([rel + "o"])
    res = {"ok": ok, "log": out[-6000:], "theorems": [], "assumptions": {}, "bad_assumptions": []}
    src = open(os.path.join(COQ, rel)).read()
    res["theorems"] = re.findall(r"^\s*(?:Theorem|Example)\s+(\w+)", src, re.M)
    if not ok:
        return res
    # re-run coqc on the Props file alone to capture Print Assumptions output
    tmpo = os.path.join(BUILD, "props_out")
    os.makedirs(tmpo, exist_ok=True)
    rc, out2 = run(["coqc", "-Q", "theories", "Rocfl", "-w", "-all", "-o",
                    os.path.join(tmpo, prop_file + ".vo"), rel], cwd=COQ, timeout=900)
    res["log"] = out2[-6000:]
    if rc != 0:
        res["ok"] = False
        return res
    printed = re.findall(r"^Print Assumptions\s+(\w+)\.", src, re.M)
    blocks = re.split(r"(?m)^(?=Closed under the global context|Axioms:)", out2)
    blocks = [b for b in blocks if b.startswith("Closed under") or b.startswith("Axioms:")]
    for name, blk in zip(printed, blocks):
        res["assumptions"][name] = blk.strip()
        if blk.startswith("Axioms:"):
            names = re.findall(r"^(\S+)\s*:", blk[len("Axioms:"):], re.M)
            for a in names:
                if a not in STD_AXIOM_ALLOW and a.split(".")[-1] not in STD_AXIOM_ALLOW:
                    res["bad_assumptions"].append((name, a))
    if len(printed) != len(blocks):
        res["bad_assumptions"].append(("?", "Print Assumptions output count mismatch"))
    thm_names = set(re.findall(r"^\s*Theorem\s+(\w+)", src, re.M))
    for t in thm_names:
        if t not in printed:
            res["bad_assumptions"].append((t, "no Print Assumptions"))
    if res["bad_assumptions"]:
        res["ok"] = False
    return res


def coq_str(s):
    """Coq term of type [bytes] for a Python str/bytes"""
    # lone surrogates (from \uD800-style escapes in mutated JSON) have no UTF-8 encoding: keep them as their
    # three-byte generalised form instead of crashing the driver
    bs_ = s.encode("utf-8", "surrogatepass") if isinstance(s, str) else bytes(s)
    if all(32 <= c < 127 and c != 34 for c in bs_):
        return '(b "%s")' % bs_.decode("ascii")
    return "(bs [%s])" % "; ".join(str(c) for c in bs_)


def coq_list(items):
    return "[" + "; ".join(items) + "]"


def coq_bool(x):
    return "true" if x else "false"


def coq_opt(x, f=lambda y: y):
    return "None" if x is None else "(Some %s)" % f(x)


def _coq_run_file(args):
    path, = args
    rc, out = run(["coqc", "-Q", "theories", "Rocfl", "-w", "-all", "-noglob", "-o",
                   path[:-2] + ".vo", path], cwd=COQ, timeout=1500)
    return rc, out


def _split_let(term):
    """`(let x := BODY in REST)` / `let x := BODY in REST` -> (x, BODY, REST) or None.
    Scans with parenthesis depth and string-literal state; `""` inside a literal toggles twice."""
    t = term.strip()
    while t.startswith("(") and _matching_paren(t, 0) == len(t) - 1:
        t = t[1:-1].strip()
    m = re.match(r"let\s+([A-Za-z_][A-Za-z_0-9']*)\s*:=\s*", t)
    if not m:
        return None
    i, depth, instr, lets = m.end(), 0, False, 0
    n = len(t)
    while i < n:
        c = t[i]
        if c == '"':
            instr = not instr
        elif not instr:
            if c in "([{":
                depth += 1
            elif c in ")]}":
                depth -= 1
            elif depth == 0 and c in " \n":
                # nested `let ... in` / `match ... end` at depth 0 are not generated without parentheses,
                # but count nested lets to stay correct if they are
                if t.startswith("let ", i + 1):
                    lets += 1
                elif t.startswith("in ", i + 1) or t.startswith("in\n", i + 1) or t.startswith("in(", i + 1):
                    if lets == 0:
                        return m.group(1), t[m.end():i].strip(), t[i + 3:].strip()
                    lets -= 1
        i += 1
    return None


def _matching_paren(t, start):
    depth, instr = 0, False
    for i in range(start, len(t)):
        c = t[i]
        if c == '"':
            instr = not instr
        elif not instr:
            if c == "(":
                depth += 1
            elif c == ")":
                depth -= 1
                if depth == 0:
                    return i
    return -1


def _hoisted(term, k):
    """Coq text evaluating `term` whose leading lets became Definitions inside a module: the
    elaboration of a huge let-bound literal that the body mentions many times is super-linear
    (measured: 93 s elaboration vs 0.01 s evaluation for one C19 case), constants are not."""
    defs = []
    t = term
    while True:
        sp = _split_let(t)
        if sp is None:
            break
        defs.append((sp[0], sp[1]))
        t = sp[2]
    if not defs:
        return "Eval vm_compute in (%s).\n" % term
    out = ["Module Case%d." % k]
    for x, body in defs:
        out.append("Definition %s := %s." % (x, body))
    out.append("Definition result__ := %s." % t)
    out.append("End Case%d." % k)
    out.append("Eval vm_compute in Case%d.result__." % k)
    return "\n".join(out) + "\n"


def coq_eval(name, imports, terms, batch=250, scopes=("N_scope",), hoist_lets=False):
    """Evaluate each Coq term with vm_compute inside the development; returns the printed
    values as strings (whitespace-normalised), in order.  Raises BuildError if coqc fails.
    hoist_lets: leading `let x := .. in` of a term are turned into module-local Definitions."""
    d = os.path.join(BUILD, "cases")
    os.makedirs(d, exist_ok=True)
    files = []
    for bi in range(0, len(terms), batch):
        chunk = terms[bi:bi + batch]
        path = os.path.join(d, "%s_%d_%d.v" % (name, os.getpid(), bi // batch))
        with open(path, "w") as f:
            f.write("From Rocfl Require Import %s.\n" % " ".join(imports))
            for s in scopes:
                f.write("Open Scope %s.\n" % s)
            f.write("Set Printing Width 2000000.\nSet Printing Depth 1000000.\n")
            for k, t in enumerate(chunk):
                f.write(_hoisted(t, k) if hoist_lets else "Eval vm_compute in (%s).\n" % t)
        files.append((path, len(chunk)))
    results = []
    with concurrent.futures.ThreadPoolExecutor(max_workers=NPROC) as ex:
        outs = list(ex.map(_coq_run_file, [(p,) for p, _ in files]))
    for (path, n), (rc, out) in zip(files, outs):
        if rc != 0:
            raise BuildError("coqc failed on %s:\n%s" % (path, out[-3000:]))
        vals = re.findall(r"(?ms)^\s+= (.*?)\n\s+: ", out)
        if len(vals) != n:
            raise BuildError("coqc output of %s: expected %d values, got %d\n%s" % (path, n, len(vals), out[-2000:]))
        results.extend(" ".join(v.split()) for v in vals)
        for ext in (".v", ".vo", ".vok", ".vos", ".glob"):
            try:
                os.remove(path[:-2] + ext)
            except OSError:
                pass
        try:
            os.remove(os.path.join(os.path.dirname(path), "." + os.path.basename(path)[:-2] + ".aux"))
        except OSError:
            pass
    return results


# --------------------------------------------------------------------------- known findings

def known_findings(prop):
    """entries of /verif/known-findings.txt for a property: list of dict(kind, id, cls, text)"""
    out = []
    p = os.path.join(VERIF, "known-findings.txt")
    if not os.path.exists(p):
        return out
    for line in open(p):
        line = line.strip()
        if not line or line.startswith("#"):
            continue
        m = re.match(r"(known|fixed):\s+property=(\S+)\s+(.*)$", line)
        if not m or m.group(2) != prop:
            continue
        kind, rest = m.group(1), m.group(3)
        e = {"kind": kind, "text": rest, "id": None, "cls": None}
        mi = re.search(r"\bid=(\S+)", rest)
        mc = re.search(r"\bclass=(\S+)", rest)
        if mi:
            e["id"] = mi.group(1)
        if mc:
            e["cls"] = mc.group(1)
        out.append(e)
    return out


# --------------------------------------------------------------------------- context

class Ctx:
    def __init__(self, prop, tier, seed):
        self.prop = prop
        self.tier = tier
        self.seed = seed
        self.rng = random.Random(seed)
        self.t0 = time.time()
        self.violations = []          # list of dict(replay=path, nofail=bool)
        self.known_hits = {}          # id -> count
        self.coverage = {}
        self.assumptions = []
        self.level = "proof"
        self.tmp = os.path.join(BUILD, "tmp", "%s-%d" % (prop, os.getpid()))
        shutil.rmtree(self.tmp, ignore_errors=True)
        os.makedirs(self.tmp, exist_ok=True)
        self.known = [k for k in known_findings(prop) if k["kind"] == "known"]
        self._sample_cap = 6
        self.coverage.setdefault("samples", [])
        self._distinct = set()
        self._evals = 0

    def quick(self):
        return self.tier != "thorough"

    # -- bookkeeping for evidence
    def count(self, case_key, nontrivial=True, sample=None):
        self._evals += 1
        if nontrivial:
            k = hashlib.sha1(repr(case_key).encode()).hexdigest()
            if k not in self._distinct:
                self._distinct.add(k)
                if sample is not None and len(self.coverage["samples"]) < self._sample_cap:
                    self.coverage["samples"].append(sample)

    def violation(self, kind, detail, nofail=False):
        """record a violation; writes the replay file"""
        os.makedirs(os.path.join(VERIF, "replays"), exist_ok=True)
        body = dict(property=self.prop, kind=kind, seed=self.seed, tier=self.tier, **detail)
        body["cmd"] = "./check --replay <this file>"
        txt = json.dumps(body, indent=1, sort_keys=True, default=str)
        hid = hashlib.sha1(txt.encode()).hexdigest()[:12]
        path = os.path.join(VERIF, "replays", "%s-%s.json" % (self.prop, hid))
        open(path, "w").write(txt)
        self.violations.append({"replay": path, "nofail": nofail, "kind": kind})
        return path

    def known_hit(self, kid):
        self.known_hits[kid] = self.known_hits.get(kid, 0) + 1

    def finish(self, proof=None, rule="", extra=None):
        """write evidence, print KNOWN-FINDING / VIOLATION lines, return exit code"""
        cov = self.coverage
        cov["evaluations"] = self._evals
        cov["distinct_nontrivial"] = len(self._distinct)
        cov["rule"] = rule
        if proof is not None:
            cov["obligations"] = len(proof["theorems"])
            cov["discharged"] = len(proof["theorems"]) if proof["ok"] else 0
            cov["checker_cmd"] = "make -C coq theories/Props/%s.vo && coqc -Q theories Rocfl theories/Props/%s.v (Print Assumptions)" % (self.prop, self.prop)
            cov["theorems"] = proof["theorems"]
            cov["print_assumptions"] = proof["assumptions"]
            cov["trusted_base"] = TRUSTED_BASE + list(self.assumptions)
        cov["known_findings_seen"] = self.known_hits
        if extra:
            cov.update(extra)
        if not cov["samples"]:
            cov["samples"] = ["(no sample recorded)"]
        ev = {
            "property_id": self.prop, "tier": "thorough" if self.tier == "thorough" else "quick",
            "seed": self.seed, "level": self.level, "coverage": cov,
            "assumptions": self.assumptions, "wall_s": round(time.time() - self.t0, 2),
            "violations": len(self.violations),
        }
        os.makedirs(os.path.join(VERIF, "evidence"), exist_ok=True)
        with open(os.path.join(VERIF, "evidence", self.prop + ".json"), "w") as f:
            json.dump(ev, f, indent=1, sort_keys=True, default=str)
        for k in self.known:
            print("KNOWN-FINDING: property=%s %s" % (self.prop, k["text"]), flush=True)
        for v in self.violations:
            print("VIOLATION property=%s replay=%s%s" % (
                self.prop, v["replay"], " no-failing-input-found" if v["nofail"] else ""), flush=True)
        shutil.rmtree(self.tmp, ignore_errors=True)
        return 1 if self.violations else 0


TRUSTED_BASE = [
    "Coq 8.16.1 kernel (coqc); vm_compute for cases.v evaluation and witness lemmas; no native_compute",
    "no Axiom/Parameter/Admitted in the development (forbidden-word scan on every run); Print Assumptions output recorded per theorem",
    "hand-written Gallina models of rocfl (coq/theories/Model) tied to /repo by the correspondence check of this run",
    "Rust harness (harness/), Python driver (vplib/, checks/), constants translator (vplib/gen_consts.py)",
]


def coqchk_stage(prop):
    """thorough tier: re-check the compiled property file and everything it depends on with the
    independent checker; returns dict(ok, summary, log)"""
    rc, out = run(["coqchk", "-o", "-silent", "-Q", "theories", "Rocfl", "Rocfl.Props.%s" % prop], cwd=COQ, timeout=3000)
    summ = {}
    m = re.search(r"CONTEXT SUMMARY\n=+\n(.*)$", out, re.S)
    if m:
        for blk in re.split(r"\n\* ", "\n" + m.group(1)):
            if ":" in blk:
                k, v = blk.split(":", 1)
                summ[k.strip()] = " ".join(v.split())
    ok = rc == 0 and bool(summ)
    for k in ("Constants/Inductives relying on type-in-type", "Constants/Inductives relying on unsafe (co)fixpoints",
              "Inductives whose positivity is assumed"):
        if summ.get(k) != "<none>":
            ok = False
    ax = summ.get("Axioms", "?")
    if ax != "<none>":
        names = re.findall(r"([A-Za-z_][\w.']*)\s*:", ax) or [ax]
        if any(a not in STD_AXIOM_ALLOW and a.split(".")[-1] not in STD_AXIOM_ALLOW for a in names):
            ok = False
    return {"ok": ok, "summary": summ, "log": out[-2000:]}


def proof_stage(ctx):
    """common first stage of every check: forbidden-word scan + property theorems.
    A broken proof is recorded; the caller still runs correspondence and search, and
    finish_with_proof() turns an unexplained break into `no-failing-input-found`."""
    proof = props_check(ctx.prop)
    # the property file and everything it (transitively) requires must be free of Admitted/Axiom/...;
    # files of other properties are scanned by those properties' checks
    cone = dep_cone(ctx.prop)
    bad = forbidden_scan(cone)
    proof["forbidden"] = bad
    proof["scanned_files"] = len(cone) if cone is not None else len(coq_files())
    ctx.coverage["proof_files_scanned"] = proof["scanned_files"]
    if bad:
        proof["ok"] = False
    if proof["ok"] and not ctx.quick():
        chk = coqchk_stage(ctx.prop)
        proof["coqchk"] = chk["summary"]
        ctx.coverage["coqchk"] = chk["summary"]
        if not chk["ok"]:
            proof["ok"] = False
            proof["log"] = "coqchk:\n" + chk["log"]
    return proof


def finish_with_proof(ctx, proof, rule, extra=None):
    if not proof["ok"] and not any(not v["nofail"] for v in ctx.violations):
        # proof / pinned obligation broken and the search found no concrete failing input
        m = re.search(r'File "([^"]+)", line (\d+)', proof.get("log", ""))
        ctx.violation("proof", {
            "broken": "Props/%s.v or one of its dependencies no longer checks" % ctx.prop,
            "where": m.group(0) if m else None,
            "forbidden": proof.get("forbidden"),
            "bad_assumptions": proof.get("bad_assumptions"),
            "log_tail": proof.get("log", "")[-3000:],
        }, nofail=True)
    return ctx.finish(proof=proof, rule=rule, extra=extra)


def corr_break(ctx, what, detail):
    """a correspondence case disagrees and the direct search found no property violation"""
    d = dict(detail)
    d["broken"] = what
    return ctx.violation("correspondence", d, nofail=True)
