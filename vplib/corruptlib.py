"""C06 helpers: snapshot of one stored object, its abstraction to the ObjTree terms of
coq/theories/Model/ObjTree.v, enumeration of single corruptions and their application to
a scratch copy.  Python 3 standard library only; randomness only through the rng passed in."""
import hashlib
import json
import os
import re
import shutil

from . import ocflv

U32 = 4294967295
HEX = "0123456789abcdef"
SLUG_DIR = "contentless-version-dir"
SLUG_INV = "version-inventory-dropped"


# --------------------------------------------------------------------------- scratch copies

def clone_tree(src, dst, skip=(), _rel=""):
    """copy a directory tree; regular files are hard-linked (never modified in place afterwards);
    `skip`: paths relative to the top that are left out"""
    os.makedirs(dst)
    for name in os.listdir(src):
        rel = _rel + name
        if rel in skip:
            continue
        s, d = os.path.join(src, name), os.path.join(dst, name)
        if os.path.islink(s):
            os.symlink(os.readlink(s), d)
        elif os.path.isdir(s):
            clone_tree(s, d, skip, rel + "/")
        else:
            try:
                os.link(s, d)
            except OSError:
                shutil.copy2(s, d)


def write_new(path, data):
    """replace the file at path by a NEW file (hard links to the golden copy stay intact)"""
    if os.path.lexists(path):
        os.unlink(path)
    os.makedirs(os.path.dirname(path), exist_ok=True)
    with open(path, "wb") as f:
        f.write(data)


def apply_op(obj_root, side, op):
    """apply one concrete corruption below obj_root; `side` is a directory outside the repository"""
    k = op[0]
    P = lambda rel: os.path.join(obj_root, *rel.split("/"))
    if k == "write":
        write_new(P(op[1]), op[2])
    elif k == "add":
        assert not os.path.lexists(P(op[1]))
        write_new(P(op[1]), op[2])
    elif k == "delete":
        os.unlink(P(op[1]))
    elif k == "rename":
        assert not os.path.lexists(P(op[2]))
        os.makedirs(os.path.dirname(P(op[2])), exist_ok=True)
        os.rename(P(op[1]), P(op[2]))
    elif k == "swap":
        tmp = P(op[1]) + ".swap-tmp"
        os.rename(P(op[1]), tmp)
        os.rename(P(op[2]), P(op[1]))
        os.rename(tmp, P(op[2]))
    elif k == "symlink":
        os.makedirs(side, exist_ok=True)
        target = os.path.join(side, "moved")
        os.rename(P(op[1]), target)            # the link points at the very same content
        os.symlink(target, P(op[1]))
    elif k == "emptydir":
        p = P(op[1])
        if os.path.isdir(p) and not os.path.islink(p):
            shutil.rmtree(p)
        else:
            os.unlink(p)
        os.mkdir(p)
    elif k == "rmtree":
        shutil.rmtree(P(op[1]))
    else:
        raise ValueError(k)


# --------------------------------------------------------------------------- stored object

class StoredObject:
    """files of one object root as rocfl left them"""

    def __init__(self, repo_root, obj_rel):
        self.repo_root, self.obj_rel = repo_root, obj_rel
        self.root = os.path.join(repo_root, obj_rel)
        self.files, self.dirs, self.other = {}, [], {}
        for d, dirs, files in os.walk(self.root):
            rel_d = os.path.relpath(d, self.root).replace(os.sep, "/")
            if rel_d != ".":
                self.dirs.append(rel_d)
            for n in list(dirs):
                if os.path.islink(os.path.join(d, n)):
                    dirs.remove(n)
                    self.other[(rel_d + "/" + n) if rel_d != "." else n] = "l"
            for n in files:
                rel = (rel_d + "/" + n) if rel_d != "." else n
                p = os.path.join(d, n)
                if os.path.islink(p) or not os.path.isfile(p):
                    self.other[rel] = "l"
                else:
                    self.files[rel] = open(p, "rb").read()
        self.empty_dirs = [d for d in self.dirs
                           if not any(f.startswith(d + "/") for f in list(self.files) + list(self.other))
                           and not any(x.startswith(d + "/") for x in self.dirs)]
        self.inv = json.loads(self.files["inventory.json"].decode("utf-8"))
        self.id = self.inv["id"]
        self.alg = self.inv["digestAlgorithm"]
        self.cdir = self.inv.get("contentDirectory", "content")
        self.head = self.inv["head"]
        self.vnames = sorted(self.inv["versions"], key=lambda s: int(s[1:]))
        self.sidecar = "inventory.json." + self.alg
        self.decl = [f for f in self.files if "/" not in f and f.startswith("0=ocfl_object_")]
        self.spec = self.decl[0][len("0=ocfl_object_"):] if len(self.decl) == 1 else None

    def content_files(self):
        return sorted(f for f in self.files
                      if len(f.split("/")) >= 3 and f.split("/")[0] in self.vnames and f.split("/")[1] == self.cdir)

    def version_has_content(self, v):
        return any(f.startswith(v + "/" + self.cdir + "/") for f in self.files)

    def file_class(self, rel):
        parts = rel.split("/")
        if len(parts) == 1:
            if rel == "inventory.json":
                return "root-inventory"
            if rel.startswith("inventory.json."):
                return "root-sidecar"
            if rel.startswith("0="):
                return "declaration"
            return "root-other"
        if parts[0] in self.vnames and len(parts) == 2:
            hd = "head" if parts[0] == self.head else "old"
            if parts[1] == "inventory.json":
                return hd + "-version-inventory"
            if parts[1].startswith("inventory.json."):
                return hd + "-version-sidecar"
            return "version-other"
        if parts[0] in self.vnames and parts[1] == self.cdir:
            return "content-head" if parts[0] == self.head else "content-old"
        return "other"


# --------------------------------------------------------------------------- abstraction to Coq terms

def version_name(name):
    """(width, number) when VersionNum::try_from (types.rs) accepts the name, else None"""
    m = re.fullmatch(r"v([0-9]+)", name)
    if not m:
        return None
    n = int(m.group(1))
    if n < 1 or n > U32:
        return None
    return (len(m.group(1)) if m.group(1).startswith("0") else 0, n)


class Abstraction:
    """injective numbering of names, contents, digests and ids of one object"""

    def __init__(self):
        self.names, self.toks, self.tok_data, self.dnums, self.ids = {}, {}, [], {}, {}
        self._hash = {}

    def _num(self, table, key):
        if key not in table:
            table[key] = len(table) + 1
        return table[key]

    def seg(self, name):
        if name == "inventory.json":
            return "SInv"
        if name == "inventory.json.sha512":
            return "(SSidecar Sha512)"
        if name == "inventory.json.sha256":
            return "(SSidecar Sha256)"
        if name == "0=ocfl_object_1.0":
            return "(SDecl V10)"
        if name == "0=ocfl_object_1.1":
            return "(SDecl V11)"
        if name == "logs":
            return "SLogs"
        if name == "extensions":
            return "SExt"
        v = version_name(name)
        if v:
            return "(SVer %d %d)" % v
        return "(SName %d)" % self._num(self.names, name)

    def path(self, rel):
        return "[" + "; ".join(self.seg(s) for s in rel.split("/")) + "]"

    def lpath(self, p):
        return "[" + "; ".join(str(self._num(self.names, s)) for s in p.split("/")) + "]"

    def tok(self, data):
        key = hashlib.sha256(data).digest()
        if key not in self.toks:
            self.toks[key] = len(self.toks) + 1
            self.tok_data.append(data)
        return self.toks[key]

    def dnum(self, hexdigest):
        return self._num(self.dnums, hexdigest.lower())

    def hexdigest(self, alg, data):
        key = (alg, hashlib.sha256(data).digest())
        if key not in self._hash:
            self._hash[key] = hashlib.new(alg, data).hexdigest()
        return self._hash[key]

    # -- parsers (the oracles of ObjTree.v on real bytes)
    def parse_decl(self, data):
        return {b"ocfl_object_1.0\n": "V10", b"ocfl_object_1.1\n": "V11"}.get(data)

    def parse_sidecar(self, data):
        """validate_sidecar (validate/mod.rs:1098-1108): split on [\\t ]+, two parts, second trims to inventory.json"""
        try:
            txt = data.decode("utf-8")
        except UnicodeDecodeError:
            return None
        parts = re.split(r"[\t ]+", txt)
        if len(parts) != 2 or parts[1].rstrip() != "inventory.json":
            return None
        return self.dnum(parts[0])

    def parse_inv(self, data):
        """Coq term of the abstract inventory when the bytes are an inventory without errors, else None"""
        if len(data) > 1 << 20 or not data.lstrip()[:1] == b"{":
            return None
        val, err = ocflv.parse_json(data)
        if err:
            return None
        errs = []
        try:
            info = ocflv.validate_inventory(val, None, errs)
        except Exception:
            return None
        if errs or info is None or not info["vnums"] or info["alg"] is None:
            return None
        cseg = self.seg(info["cdir"] or "content")
        if not cseg.startswith("(SName "):
            return None
        nums = sorted(info["vnums"])
        if nums != list(range(1, len(nums) + 1)):
            return None
        spec = {ocflv.SPEC_TYPES["1.0"]: "V10", ocflv.SPEC_TYPES["1.1"]: "V11"}.get(info["type"])
        if spec is None:
            return None
        man = []
        for d, paths in val["manifest"].items():
            for p in paths:
                man.append((p, "(%d, %s)" % (self.dnum(d), self.path(p))))
        versions = []
        for n in nums:
            st = []
            for d, paths in val["versions"][info["vnums"][n]]["state"].items():
                for p in paths:
                    st.append((p, "(%d, %s)" % (self.dnum(d), self.lpath(p))))
            versions.append("[" + "; ".join(t for _, t in sorted(st)) + "]")
        return "(mkInv %d %s %s %d %s [%s] [%s] [])" % (
            self._num(self.ids, info["id"]), spec, "Sha512" if info["alg"] == "sha512" else "Sha256",
            info["pad"] or 0, cseg[len("(SName "):-1],
            "; ".join(t for _, t in sorted(man)), "; ".join(versions))

    def tables(self):
        """mkTables term over every content numbered so far (call after all corruptions are rendered)"""
        dg, invs, scs, dcs = [], [], [], []
        k = 0
        while k < len(self.tok_data):          # parse_* may number further digests, never further tokens
            data = self.tok_data[k]
            k += 1
            i = self.parse_inv(data)
            if i is not None:
                invs.append("(%d, %s)" % (k, i))
            s = self.parse_sidecar(data) if len(data) < 4096 else None
            if s is not None:
                scs.append("(%d, %d)" % (k, s))
            d = self.parse_decl(data)
            if d is not None:
                dcs.append("(%d, %s)" % (k, d))
        for k, data in enumerate(self.tok_data, 1):
            dg.append("(Sha512, %d, %d)" % (k, self.dnum(self.hexdigest("sha512", data))))
            dg.append("(Sha256, %d, %d)" % (k, self.dnum(self.hexdigest("sha256", data))))
        return "(mkTables [%s] [%s] [%s] [%s])" % ("; ".join(dg), "; ".join(invs), "; ".join(scs), "; ".join(dcs))

    def tree(self, obj):
        ent = []
        for rel in sorted(obj.files):
            ent.append("(%s, File %d)" % (self.path(rel), self.tok(obj.files[rel])))
        for rel in sorted(obj.other):
            ent.append("(%s, Symlink)" % self.path(rel))
        for rel in sorted(obj.empty_dirs):
            ent.append("(%s, Dir)" % self.path(rel))
        return "[" + "; ".join(ent) + "]"


# --------------------------------------------------------------------------- corruptions

class Corruption:
    """kind: reporting key; cls: class of the file hit; must: one of the kinds the property lists;
    structural: must be found without fixity as well; op: concrete edit; coq(abs) -> corruption term
    (None = not expressible in the model); known: slug of the known class (model-free classification)"""

    def __init__(self, kind, cls, must, structural, op, coq, where, detail=None, known=None):
        self.kind, self.cls, self.must, self.structural = kind, cls, must, structural
        self.op, self.coq, self.where, self.detail, self.known = op, coq, where, detail, known

    def describe(self):
        op = [x if not isinstance(x, bytes) else ("%d bytes sha256=%s" % (len(x), hashlib.sha256(x).hexdigest()[:16]))
              for x in self.op]
        return {"kind": self.kind, "file_class": self.cls, "file": self.where, "detail": self.detail, "edit": op}


def _offsets(rng, n, k, every=False):
    if n <= 0:
        return []
    if every:
        return list(range(n))
    offs = {0, n - 1}
    for _ in range(k):
        offs.add(rng.randrange(n))
    return sorted(offs)


def enumerate_corruptions(rng, obj, n_offsets=3, every_byte=False):
    """all single corruptions of the stored object that the check knows how to make"""
    out = []
    A = out.append
    files = obj.files
    cfiles = obj.content_files()
    taken = set(files) | set(obj.dirs) | set(obj.other)

    def fresh(rel):
        return rel not in taken and not any(t.startswith(rel + "/") for t in taken)

    # ---- content files
    for f in cfiles:
        b = files[f]
        cls = obj.file_class(f)
        for off in _offsets(rng, len(b), n_offsets):
            nb = b[:off] + bytes([b[off] ^ rng.choice([1, 0x20, 0xff])]) + b[off + 1:]
            A(Corruption("content-change-byte", cls, True, False, ("write", f, nb),
                         lambda a, f=f, nb=nb: "ChangeContent %s %d" % (a.path(f), a.tok(nb)), f, {"offset": off}))
        if len(b) >= 1:
            A(Corruption("content-truncate-one", cls, True, False, ("write", f, b[:-1]),
                         lambda a, f=f, nb=b[:-1]: "Truncate %s %d" % (a.path(f), a.tok(nb)), f))
        if len(b) >= 2:
            A(Corruption("content-truncate-zero", cls, True, False, ("write", f, b""),
                         lambda a, f=f: "Truncate %s %d" % (a.path(f), a.tok(b"")), f))
        nb = b + bytes([rng.randrange(256)])
        A(Corruption("content-append-byte", cls, True, False, ("write", f, nb),
                     lambda a, f=f, nb=nb: "Extend %s %d" % (a.path(f), a.tok(nb)), f))
        A(Corruption("content-delete", cls, True, True, ("delete", f),
                     lambda a, f=f: "DeleteFile %s" % a.path(f), f))
        d = f.rsplit("/", 1)[0]
        v = f.split("/")[0]
        for q in sorted({d + "/renamed-c06.bin", d + "/new-sub-c06/x.bin", v + "/moved-c06.bin", "moved-c06.bin",
                         v + "/" + obj.cdir + "/" + f.rsplit("/", 1)[1] + ".moved"}):
            if fresh(q):
                A(Corruption("content-rename", cls, True, True, ("rename", f, q),
                             lambda a, f=f, q=q: "RenameFile %s %s" % (a.path(f), a.path(q)), f, {"to": q}))
    # ---- swaps of two content files with different bytes
    pairs = [(p, q) for i, p in enumerate(cfiles) for q in cfiles[i + 1:] if files[p] != files[q]]
    rng.shuffle(pairs)
    for p, q in pairs[:6 if not every_byte else 40]:
        A(Corruption("content-swap", obj.file_class(p), True, False, ("swap", p, q),
                     lambda a, p=p, q=q: "SwapFiles %s %s" % (a.path(p), a.path(q)), p, {"with": q}))
    # ---- added content files
    some = files[cfiles[0]] if cfiles else b"dup"
    for v in obj.vnames:
        base = v + "/" + obj.cdir
        for q, data in ((base + "/added-c06.txt", b"added " + v.encode()), (base + "/new-dir-c06/added.txt", some)):
            if fresh(q):
                A(Corruption("content-add", "content-head" if v == obj.head else "content-old", True, True,
                             ("add", q, data), lambda a, q=q, data=data: "AddFile %s %d" % (a.path(q), a.tok(data)), q))
    # ---- every regular file: symlink / empty directory
    for f in sorted(files):
        cls = obj.file_class(f)
        A(Corruption("file-to-symlink", cls, True, True, ("symlink", f),
                     lambda a, f=f: "ReplaceBySymlink %s" % a.path(f), f))
        A(Corruption("file-to-emptydir", cls, True, True, ("emptydir", f),
                     lambda a, f=f: "ReplaceFileByEmptyDir %s" % a.path(f), f,
                     known=SLUG_INV if cls.endswith("version-inventory") else None))
    # ---- every directory: symlink / empty directory / (version directories) removal
    for d in sorted(obj.dirs):
        parts = d.split("/")
        if len(parts) == 1 and d in obj.vnames:
            cls = ("version-dir-with-content" if obj.version_has_content(d) else "version-dir-contentless")
            cls += "-head" if d == obj.head else ""
        elif len(parts) == 2 and parts[0] in obj.vnames and parts[1] == obj.cdir:
            cls = "content-dir"
        else:
            cls = "content-subdir"
        if d in obj.empty_dirs:
            continue
        A(Corruption("dir-to-emptydir", cls, True, True, ("emptydir", d),
                     lambda a, d=d: "ReplaceDirByEmptyDir %s" % a.path(d), d,
                     known=SLUG_DIR if cls.startswith("version-dir-contentless") else None))
        A(Corruption("dir-to-symlink", cls, True, True, ("symlink", d),
                     lambda a, d=d: "ReplaceBySymlink %s" % a.path(d), d))
        if len(parts) == 1 and d in obj.vnames:
            vn = version_name(d)
            A(Corruption("remove-version-dir", cls, True, True, ("rmtree", d),
                         lambda a, vn=vn: "RemoveVersionDir %d %d" % vn, d))
    # ---- inventories
    invs = ["inventory.json"] + [v + "/inventory.json" for v in obj.vnames if v + "/inventory.json" in files]
    for f in invs:
        b = files[f]
        cls = obj.file_class(f)

        def inv_c(kind, nb, detail, f=f, cls=cls):
            if nb != files[f]:
                A(Corruption(kind, cls, True, True, ("write", f, nb),
                             lambda a, f=f, nb=nb: "ChangeInventoryByte %s %d" % (a.path(f), a.tok(nb)), f, detail))
        for off in _offsets(rng, len(b), n_offsets, every=every_byte and len(b) <= 6000):
            inv_c("inventory-flip-byte", b[:off] + bytes([b[off] ^ rng.choice([1, 2, 0x20])]) + b[off + 1:], {"offset": off})
        for off in _offsets(rng, len(b), max(1, n_offsets - 1)):
            inv_c("inventory-insert-byte", b[:off] + rng.choice([b" ", b"x", b"0", b"\n"]) + b[off:], {"offset": off})
            inv_c("inventory-delete-byte", b[:off] + b[off + 1:], {"offset": off})
        # the bytes then start with a complete JSON value that is no object (regression: fix 108a379 in serde::parse)
        inv_c("inventory-not-an-object", b"[" + b[1:], {"offset": 0, "edit": "{ -> ["})
        inv_c("inventory-not-an-object", b"0" + b, {"offset": 0, "edit": "digit in front"})
        inv_c("inventory-not-an-object", b[1:], {"offset": 0, "edit": "first byte deleted"})
        inv_c("inventory-whitespace", b + b"\n", {"edit": "append newline"})
        inv_c("inventory-whitespace", b + b" ", {"edit": "append space"})
        inv_c("inventory-whitespace", b" " + b, {"edit": "prepend space"})
        m = re.search(rb'[,:]', b)
        if m:
            inv_c("inventory-whitespace", b[:m.end()] + b" " + b[m.end():], {"edit": "space after first separator"})
        # one inserted byte that leaves the user address without a valid scheme: uriparse used to panic inside rocfl
        # (former C17 known finding uri-colon-segment, repaired by 389bfd0): a must-pass corruption now
        m = re.search(rb'"mailto:', b)
        if m:
            inv_c("inventory-address-scheme", b[:m.start() + 1] + b"0" + b[m.start() + 1:],
                  {"offset": m.start() + 1, "edit": "digit in front of the address scheme"})
        # another VALID inventory of the same object in its place
        for g in invs:
            if g != f and files[g] != b:
                inv_c("inventory-other-valid", files[g], {"from": g})
                break
    # ---- sidecars
    scs = [obj.sidecar] + [v + "/" + obj.sidecar for v in obj.vnames if v + "/" + obj.sidecar in files]
    for f in scs:
        if f not in files:
            continue
        b = files[f]
        cls = obj.file_class(f)
        txt = b.decode("ascii", "replace")
        hexlen = len(re.match(r"[0-9a-fA-F]*", txt).group(0))

        def sc_c(kind, nb, must, detail, f=f, cls=cls, b=b):
            def coq(a, f=f, nb=nb, b=b):
                if a.parse_sidecar(nb) == a.parse_sidecar(b):
                    return None            # the recorded digest did not change: not a corruption of the model
                return "ChangeSidecarDigest %s %d" % (a.path(f), a.tok(nb))
            A(Corruption(kind, cls, must, True, ("write", f, nb), coq, f, detail))
        for off in _offsets(rng, hexlen, n_offsets):
            c = txt[off].lower()
            repl = rng.choice([h for h in HEX if h != c])
            sc_c("sidecar-change-hex-digit", (txt[:off] + repl + txt[off + 1:]).encode(), True, {"offset": off})
        if hexlen > 1:
            sc_c("sidecar-drop-hex-digit", (txt[1:]).encode(), True, {"offset": 0})
        other = hashlib.new(obj.alg, b"another content " + f.encode()).hexdigest()
        sc_c("sidecar-other-valid-digest", (other + txt[hexlen:]).encode(), True, None)
        sc_c("sidecar-name-part", txt.replace("inventory.json", "inventory.jsonx").encode(), False, {"info": "file name part"})
        sc_c("sidecar-no-trailing-newline", txt.rstrip("\n").encode(), False, {"info": "trailing newline removed"})
        sc_c("sidecar-tab-separator", re.sub(r"[ \t]+", "\t", txt, count=1).encode(), False, {"info": "separator"})
    # ---- declaration
    for f in obj.decl:
        b = files[f]
        A(Corruption("declaration-delete", "declaration", True, True, ("delete", f), lambda a: "DeleteDeclaration", f))
        otherv = "1.0" if f.endswith("1.1") else "1.1"
        for nb, what in ((b[:-1], "newline removed"), (b"", "emptied"),
                         (b[:5] + bytes([b[5] ^ 1]) + b[6:], "byte changed"),
                         (("ocfl_object_%s\n" % otherv).encode(), "text of the other version"),
                         (b + b"\n", "second newline")):
            A(Corruption("declaration-alter", "declaration", True, True, ("write", f, nb),
                         lambda a, nb=nb: "AlterDeclaration %d" % a.tok(nb), f, {"edit": what}))
        q = "0=ocfl_object_" + otherv
        if fresh(q):
            A(Corruption("declaration-rename", "declaration", True, True, ("rename", f, q),
                         lambda a, f=f, q=q: "RenameFile %s %s" % (a.path(f), a.path(q)), f, {"to": q}))
    # ---- stray files in existing directories
    stray_dirs = [""] + [d for d in sorted(obj.dirs) if d not in obj.empty_dirs]
    for d in stray_dirs:
        names = ["stray-c06.txt", ".hidden-c06"]
        if d == "" or d in obj.vnames:
            names += ["inventory.json.md5", "inventory.json." + ("sha256" if obj.alg == "sha512" else "sha512"),
                      "logs", "v%d" % (len(obj.vnames) + 7)]
        if d == "":
            names += ["0=ocfl_object_" + ("1.0" if obj.spec == "1.1" else "1.1"), "0=ocfl_object_2.0", "extensions"]
        if d in obj.vnames and not obj.version_has_content(d):
            names.append(obj.cdir)          # a FILE named like the content directory
        for n in names:
            q = (d + "/" + n) if d else n
            if not fresh(q):
                continue
            data = b"stray " + q.encode()
            cls = ("stray-in-root" if d == "" else "stray-in-version-dir" if d in obj.vnames else "stray-in-content")
            A(Corruption("stray-file", cls, True, True, ("add", q, data),
                         lambda a, q=q, data=data: "AddStrayFile %s %d" % (a.path(q), a.tok(data)), q))
    # ---- informational (outside the list of the property; the model must still agree with rocfl)
    for q in ("logs/stray-c06.txt", obj.vnames[0] + "/extra-dir-c06/x.txt", "extensions/ext-c06/x.txt"):
        if fresh(q) and fresh(q.split("/")[0] if q.count("/") == 1 else q.rsplit("/", 1)[0]):
            A(Corruption("info-stray-file-in-new-directory", "new-directory", False, True, ("add", q, b"x"),
                         lambda a: None, q))
    for f in invs + scs:
        if f in files:
            cls = obj.file_class(f)
            A(Corruption("info-delete-" + ("inventory" if f.endswith("inventory.json") else "sidecar"), cls, False, True,
                         ("delete", f), lambda a, f=f: "DeleteFile %s" % a.path(f), f,
                         known=SLUG_INV if cls.endswith("version-inventory") else None))
    return out
