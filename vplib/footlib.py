"""Shared machinery of checks/c03.py and checks/c12.py (file-system footprint of rocfl's operations).

Generated histories are driven through the real `rocfl` CLI (release binary), ONE traced process per
operation (vplib/strace.py).  For every traced operation three things are computed:

  * the model-free oracles of C12 (every mutating call under the storage root or the staging root, or a
    named mv source; sentinel tree around the roots unchanged; a refused commit changes nothing in the main
    repository; previously valid objects stay valid) and of C03 (byte snapshots of all committed version
    directories unchanged unless the operation purges that object; no mutating call - failed ones included -
    targets a path inside a committed version directory; across a commit only root inventory / sidecar /
    declaration of pre-existing files differ);
  * the Coq terms of the correspondence: `check_allowed cfg pre op observed` (Corr/CheckFootprint.v) for every
    traced operation, `check_covers` (generating model vs. trace) for the successful fault-free ones,
    `check_paths`, `check_guard`, `check_main_root`;
  * coverage bookkeeping.

Nothing here reads the trace to build the model's inputs: the pre-state summary comes from directory scans
before the operation, the abstract inputs of the generating model from inode / mtime snapshots of the staging
area and the source area before and after the operation.
"""
import concurrent.futures
import hashlib
import json
import os
import re
import shutil
import subprocess
import threading

from . import common, hist, ocflv
from . import strace as st
from .common import coq_str

LAYOUT_KEYS = ["0002", "0003", "0004", "0006", "0007", "none"]
OBJ_DECL = "0=ocfl_object_"
VDIR = re.compile(r"^v\d+$")

# --------------------------------------------------------------------------- small helpers


def under(p, root):
    return p == root or p.startswith(root.rstrip("/") + "/")


def sha256_hex(s):
    return hashlib.sha256(s.encode("utf-8", "surrogateescape")).hexdigest()


def P(path):
    return "(P %s)" % coq_str(path.encode("utf-8", "surrogateescape"))


def B(s):
    return coq_str(s.encode("utf-8", "surrogateescape") if isinstance(s, str) else s)


def coq_list(xs):
    return "[" + "; ".join(xs) + "]"


def fsop_term(op):
    k = op[0]
    if k == "mkdir":
        return "Mkdir %s" % P(op[1])
    if k == "createnew":
        return "CreateNew %s" % P(op[1])
    if k == "create":
        return "Create %s" % P(op[1])
    if k == "rename":
        return "Rename %s %s" % (P(op[1]), P(op[2]))
    if k == "unlink":
        return "Unlink %s" % P(op[1])
    if k == "rmdir":
        return "Rmdir %s" % P(op[1])
    code = {"link": 1, "symlink": 2, "chmod": 3, "utime": 4, "truncate": 5}.get(k, 9)
    return "Other %d %s" % (code, P(op[2] if k in ("link", "symlink") else op[1]))


def op_targets(op):
    """paths an abstract op writes to / removes / replaces"""
    k = op[0]
    if k == "rename":
        return [op[1], op[2]]
    if k in ("link", "symlink"):
        return [op[2]]
    return [op[1]]


def snap(root, skip=()):
    """{relpath: ('d',) | ('f', size, sha256) | ('l', target) | ('o',)} - bytes only, no time stamps"""
    out = {}
    if not os.path.lexists(root):
        return out
    if not os.path.isdir(root) or os.path.islink(root):
        return {".": ("o",)}
    for d, dirs, files in os.walk(root, followlinks=False):
        dirs[:] = [x for x in dirs if os.path.join(d, x) not in skip]
        rel_d = os.path.relpath(d, root)
        if rel_d != ".":
            out[rel_d] = ("d",)
        for name in list(dirs):
            p = os.path.join(d, name)
            if os.path.islink(p):
                out[os.path.relpath(p, root)] = ("l", os.readlink(p))
                dirs.remove(name)
        for name in files:
            p = os.path.join(d, name)
            if p in skip:
                continue
            rel = os.path.relpath(p, root)
            try:
                if os.path.islink(p):
                    out[rel] = ("l", os.readlink(p))
                elif os.path.isfile(p):
                    data = open(p, "rb").read()
                    out[rel] = ("f", len(data), hashlib.sha256(data).hexdigest())
                else:
                    out[rel] = ("o",)
            except OSError:
                out[rel] = ("o",)
    return out


def snap_ino(root):
    """{abspath: ('f', ino, mtime_ns, size) | ('d', ino)} for gin derivation (what was created / renamed / removed)"""
    out = {}
    if not os.path.isdir(root):
        return out
    for d, dirs, files in os.walk(root, followlinks=False):
        try:
            out[d] = ("d", os.lstat(d).st_ino)
        except OSError:
            continue
        for name in files:
            p = os.path.join(d, name)
            try:
                s_ = os.lstat(p)
                out[p] = ("f", s_.st_ino, s_.st_mtime_ns, s_.st_size)
            except OSError:
                pass
    return out


def diff_snap(a, b, limit=6):
    return [(k, a.get(k), b.get(k)) for k in sorted(set(a) | set(b)) if a.get(k) != b.get(k)][:limit]


def scan_objects(top, skip=()):
    """object roots below `top` (directories holding a file named 0=ocfl_object_*), nested ones included:
    list of dict(root, versions, decls, id, alg, head, parse_ok)"""
    out = []
    if not os.path.isdir(top):
        return out
    for d, dirs, files in os.walk(top, followlinks=False):
        dirs[:] = [x for x in dirs if os.path.join(d, x) not in skip and not os.path.islink(os.path.join(d, x))]
        decls = sorted(f for f in files if f.startswith(OBJ_DECL) and os.path.isfile(os.path.join(d, f)))
        if decls and d != top:
            inv = None
            try:
                inv = json.load(open(os.path.join(d, "inventory.json"), encoding="utf-8"))
            except (OSError, ValueError):
                inv = None
            ok = isinstance(inv, dict)
            out.append({"root": d, "versions": sorted(x for x in dirs if VDIR.match(x)), "decls": decls,
                        "id": inv.get("id") if ok else None, "alg": inv.get("digestAlgorithm") if ok else None,
                        "head": inv.get("head") if ok else None, "parse_ok": ok,
                        "cdir": (inv.get("contentDirectory") or "content") if ok else "content"})
    return out


def next_version(head):
    m = re.match(r"^v(0*)(\d+)$", head or "")
    if not m:
        return "v1"
    digits = head[1:]
    n = int(digits) + 1
    return "v" + (str(n).rjust(len(digits), "0") if digits.startswith("0") else str(n))


# --------------------------------------------------------------------------- the world of one history

class World:
    """scratch tree of one history:
         <base>/outer/                 sentinel files (above the roots)
         <base>/outer/area/root        storage root
         <base>/outer/area/stg | xs/stg  external staging root (optional; xs = parent that does not exist yet)
         <base>/outer/area/src         source files of cp / mv
         <base>/outer/area/...         sentinel files next to the roots
         <base>/home                   empty HOME (no user configuration)"""

    def __init__(self, base, layout, ext_staging, ext_parent_missing=False):
        self.base = base
        self.outer = os.path.join(base, "outer")
        self.area = os.path.join(self.outer, "area")
        self.root = os.path.join(self.area, "root")
        self.layout = layout
        self.ext = bool(ext_staging)
        self.stg_arg = None
        if ext_staging:
            self.stg_arg = os.path.join(self.area, "xs", "stg") if ext_parent_missing else os.path.join(self.area, "stg")
        self.S = self.stg_arg or os.path.join(self.root, "extensions", "rocfl-staging")
        self.src = os.path.join(self.area, "src")
        self.home = os.path.join(base, "home")
        self.nsrc = 0
        self.committed = set()          # roots of objects whose commit succeeded (also when they lie in the staging area)
        os.makedirs(self.src)
        os.makedirs(self.home, exist_ok=True)
        for rel, data in (("s-above.txt", b"above\n"), ("sib/s.txt", b"sibling\n"), ("sib/deep/t.bin", bytes(range(64))),
                          ("area/s-next.txt", b"next\n"), ("area/nextdir/s.txt", b"next dir\n"),
                          ("area/root-twin/0=ocfl_1.1", b"ocfl_1.1\n")):
            p = os.path.join(self.outer, rel)
            os.makedirs(os.path.dirname(p), exist_ok=True)
            with open(p, "wb") as f:
                f.write(data)

    def sentinel_skip(self):
        sk = [self.root, self.src]
        if self.ext:
            sk.append(os.path.join(self.area, "xs") if "/xs/" in self.stg_arg else self.stg_arg)
        return tuple(sk)

    def sentinel(self):
        return snap(self.outer, skip=self.sentinel_skip())

    def main_skip(self):
        return (self.S,) if under(self.S, self.root) else ()

    def new_source(self, name, data):
        self.nsrc += 1
        p = os.path.join(self.src, "s%d" % self.nsrc, name)
        os.makedirs(os.path.dirname(p), exist_ok=True)
        with open(p, "wb") as f:
            f.write(data)
        return p

    def new_source_dir(self, name, files):
        self.nsrc += 1
        d = os.path.join(self.src, "s%d" % self.nsrc, name)
        os.makedirs(d, exist_ok=True)
        for rel, data in files.items():
            p = os.path.join(d, rel)
            os.makedirs(os.path.dirname(p), exist_ok=True)
            with open(p, "wb") as f:
                f.write(data)
        return d

    def state(self):
        """everything the oracles and the model need about the current state"""
        # every object root inside the storage root that is not in the staging area (also below `extensions`)
        objs = scan_objects(self.root, skip=self.main_skip())
        have = set(o["root"] for o in objs)
        for r in sorted(self.committed):
            if r not in have and under(r, self.S) and os.path.isdir(r):
                parent = os.path.dirname(r)
                objs += [o for o in scan_objects(parent) if o["root"] == r]
        main = snap(self.root, skip=self.main_skip())
        for r in sorted(self.committed):
            if under(r, self.S) and under(self.S, self.root) and os.path.isdir(r):
                rel = os.path.relpath(r, self.root)
                main[rel] = ("d",)
                for k_, e_ in snap(r).items():
                    main[os.path.join(rel, k_)] = e_
        staged = [o for o in scan_objects(self.S) if o["root"] not in self.committed]
        return {"objs": objs, "staged": staged, "main": main, "stg": snap(self.S),
                "stg_ino": snap_ino(self.S), "src_ino": snap_ino(self.src), "sentinel": self.sentinel(),
                "root_exists": os.path.isdir(self.root)}


# --------------------------------------------------------------------------- layout mapping through the real code

_layout_cache = {}
_layout_lock = threading.Lock()


def map_ids(layout, ids):
    """storage-root relative object root of each id under the layout, computed by the real
    StorageLayout::map_object_id (harness `vh layout`); None for a panic / no layout"""
    if layout == "none":
        return {i: None for i in ids}
    need = [i for i in ids if (layout, i) not in _layout_cache]
    if need:
        cfg = hist.LAYOUTS[layout]
        line = json.dumps({"ext": cfg["ext"], "config": cfg["config"], "ids": need})
        p = subprocess.run([common.VH, "layout"], input=line + "\n", capture_output=True, text=True, timeout=120)
        try:
            res = json.loads(p.stdout.strip().split("\n")[-1])
            paths = res.get("paths") or []
        except (ValueError, IndexError):
            paths = []
        with _layout_lock:
            for i, r in zip(need, paths + [{}] * (len(need) - len(paths))):
                _layout_cache[(layout, i)] = r.get("ok") if isinstance(r, dict) else None
    return {i: _layout_cache.get((layout, i)) for i in ids}


# --------------------------------------------------------------------------- steps -> command lines

META = ["-n", "fp", "-a", "mailto:fp@example.org"]


def step_argv(w, step):
    k = step["op"]
    i = step.get("id")
    if k == "init":
        cfg = hist.LAYOUTS[w.layout]
        if cfg is None:
            return ["init"]      # followed by removal of the layout files (see run_history)
        a = ["init", "-l", cfg["ext"]]
        if cfg["config"]:
            cf = os.path.join(w.base, "layout-config.json")
            with open(cf, "w") as f:
                f.write(cfg["config"])
            a += ["-c", cf]
        return a + (["-v", step["spec"]] if step.get("spec") else [])
    if k == "new":
        a = ["new"]
        if step.get("cdir") is not None:
            a += ["-c", step["cdir"]]
        if step.get("spec"):
            a += ["-v", step["spec"]]
        if step.get("pad"):
            a += ["-z", str(step["pad"])]
        if step.get("alg"):
            a += ["-d", step["alg"]]
        return a + ["--", i]
    if k == "cp_ext":
        return ["cp"] + (["-r"] if step.get("recursive") else []) + [i] + step["src"] + ["--", step["dst"]]
    if k == "mv_ext":
        return ["mv", i] + step["src"] + ["--", step["dst"]]
    if k == "cp_int":
        return ["cp", "-i"] + (["-r"] if step.get("recursive") else []) + [i] + step["src"] + ["--", step["dst"]]
    if k == "mv_int":
        return ["mv", "-i", i] + step["src"] + ["--", step["dst"]]
    if k == "rm":
        return ["rm"] + (["-r"] if step.get("recursive") else []) + ["--", i] + step["paths"]
    if k == "reset":
        return ["reset"] + (["-r"] if step.get("recursive") else []) + ["--", i] + step["paths"]
    if k == "reset_all":
        return ["reset", "--", i]
    if k == "commit":
        a = ["commit", "-m", "c", "-c", "2022-02-02T00:00:00Z"] + META
        if step.get("object_root") is not None:
            a += ["-r", step["object_root"]]
        return a + ["--", i]
    if k == "upgrade":
        return ["upgrade", "-v", "1.1", "-m", "up", "-c", "2022-03-03T00:00:00Z"] + META + ["--", i]
    if k == "upgrade_repo":
        return ["upgrade", "-v", "1.1"]
    if k == "purge":
        return ["purge", "-f", "--", i]
    raise ValueError(k)


KIND = {"new": "KNew", "cp_ext": "KCpExt", "mv_ext": "KMvExt", "cp_int": "KCpInt", "mv_int": "KMvInt", "rm": "KRm",
        "reset": "KReset", "reset_all": "KResetAll", "commit": "KCommit", "upgrade": "KUpgrade", "purge": "KPurge",
        "init": "KInit", "upgrade_repo": "KUpgradeRepo"}


# --------------------------------------------------------------------------- one traced operation

def find_obj(objs, oid):
    for o in objs:
        if o["id"] == oid:
            return o
    return None


def describe(w, step, pre):
    """what the model needs to know about the operation, from the pre-state only"""
    oid = step.get("id")
    d = {"kind": KIND[step["op"]], "hex": sha256_hex(oid) if oid is not None else "0" * 64, "id": oid,
         "srcs": [os.path.normpath(os.path.join(w.area, s)) for s in step.get("src", [])] if step["op"] == "mv_ext" else []}
    # fs::canonicalize of the named sources that exist (symbolic links and ".." resolved by the kernel)
    d["csrcs"] = [os.path.realpath(os.path.join(w.area, s)) for s in step.get("src", [])
                  if os.path.exists(os.path.join(w.area, s))] if step["op"] == "mv_ext" else []
    S_o = os.path.join(w.S, st.hashed_ntuple(oid)) if oid is not None else None
    d["S_o"] = S_o
    staged = None
    for o in pre["staged"]:
        if o["root"] == S_o:
            staged = o
    d["staged"] = staged
    mobj = find_obj(pre["objs"], oid) if oid is not None else None
    rel_term, rel, exists = B(""), None, False
    if step["op"] in ("init", "upgrade_repo") or oid is None:
        pass
    elif w.layout != "none":
        rel = map_ids(w.layout, [oid])[oid]
        if rel is not None:
            rel_term = B(rel)
        at = None
        if rel is not None:
            n = os.path.normpath(os.path.join(w.root, rel)) if not rel.startswith("/") else os.path.normpath(rel)
            for o in pre["objs"] + pre["staged"]:
                if o["root"] == n:
                    at = o
            d["N"] = n
        if step["op"] == "purge":
            exists = at is not None and (not at["parse_ok"] or at["id"] == oid)
        else:
            exists = at is not None and at["id"] == oid
        mobj = at if exists else None
    else:
        if mobj is not None:
            rel = os.path.relpath(mobj["root"], w.root)
            rel_term = B(rel)
            exists = True
            d["N"] = mobj["root"]
        elif step["op"] in ("commit", "upgrade") and step.get("object_root") is not None:
            rel_term = "(trim_slashes %s)" % B(step["object_root"])        # fs.rs:369-381
            rel = step["object_root"].strip("/")
            d["N"] = os.path.normpath(os.path.join(w.root, rel)) if rel else w.root
    d["rel"], d["rel_term"], d["exists"], d["mobj"] = rel, rel_term, exists, mobj
    if staged is not None and staged["head"]:
        head = staged["head"]
    elif mobj is not None and mobj["head"]:
        head = next_version(mobj["head"])
    else:
        head = "v1" if not step.get("pad") else "v" + "1".rjust(step["pad"], "0")
    d["head"] = head
    n = d.get("N")
    d["occupied"] = bool(n and os.path.lexists(n))
    return d


def coq_cfg(w):
    return "(mkCfg %s %s)" % (P(w.root), P(w.S))


def coq_pre(pre, d):
    objs = coq_list("mkObj %s %s" % (P(o["root"]), coq_list(B(v) for v in o["versions"])) for o in pre["objs"])
    staged = coq_list(P(o["root"]) for o in pre["staged"])
    return "(mkPre %s %s %s)" % (objs, staged, "true" if d["occupied"] else "false")


def coq_op(d):
    return "(mkOp %s %s %s %s %s %s %s)" % (d["kind"], B(d["hex"]), B(d["head"]), d["rel_term"],
                                             "true" if d["exists"] else "false", coq_list(P(s) for s in d["srcs"]),
                                             coq_list(P(s) for s in d["csrcs"]))


def run_step(w, env, step, pre, inject=None, timeout=90):
    """execute one operation under strace; returns the record with trace, post-state and description"""
    d = describe(w, step, pre)
    argv = st.rocfl_cmd(w.root, w.stg_arg, *step_argv(w, step))
    tr = st.trace(argv, env=env, cwd=w.area, inject=inject, timeout=timeout)
    if step["op"] == "init" and w.layout == "none" and tr.rc == 0:
        # a repository without layout: rocfl has no such init option, remove what declares the layout
        for rel in ("ocfl_layout.json", "0004-hashed-n-tuple-storage-layout.md"):
            try:
                os.remove(os.path.join(w.root, rel))
            except OSError:
                pass
        shutil.rmtree(os.path.join(w.root, "extensions", "0004-hashed-n-tuple-storage-layout"), ignore_errors=True)
        try:
            os.rmdir(os.path.join(w.root, "extensions"))
        except OSError:
            pass
    if step["op"] in ("commit", "upgrade") and tr.rc == 0 and d.get("N") and not d["exists"]:
        w.committed.add(d["N"])
    post = w.state()
    calls = []
    for c in tr.calls:
        op = st.abstract_op(c)
        if op is not None:
            calls.append((op, bool(c.ok), bool(c.injected), c.errno))
    return {"step": step, "d": d, "rc": tr.rc, "killed": tr.killed, "timed_out": tr.timed_out, "stderr": tr.stderr[-400:],
            "calls": calls, "pre": pre, "post": post, "inject": inject, "points": tr.points,
            "parse_errors": tr.parse_errors[:2], "injected_hit": bool(tr.injected_calls())}


# --------------------------------------------------------------------------- model-free oracles

def purged_objects(rec):
    """objects of the pre-state that this operation is entitled to remove (purge of that object)"""
    step, d = rec["step"], rec["d"]
    if step["op"] != "purge":
        return []
    out = []
    for o in rec["pre"]["objs"]:
        if o["id"] == step["id"] or (not o["parse_ok"] and o["root"] == d.get("N")):
            out.append(o["root"])
    return out


def mv_source_in_repo(w, rec):
    """an external mv one of whose named sources (as the kernel resolves it) lies under, or contains, the storage
    root or the staging root: refused up front since fix 128b230 (repo.rs:721-730)"""
    if rec["step"]["op"] != "mv_ext":
        return False
    R, S = os.path.realpath(w.root), os.path.realpath(w.S)
    for s in rec["d"]["csrcs"]:
        if under(s, R) or under(R, s) or under(s, S) or under(S, s):
            return True
    return False


def mv_refusal_oracle(w, rec):
    """must-pass: such a mv is refused and nothing changes - main repository, staging area (apart from its
    first-time creation) and the source area byte for byte, names and inodes"""
    if not mv_source_in_repo(w, rec) or rec["inject"]:
        return None
    pre, post = rec["pre"], rec["post"]
    if rec["rc"] == 0:
        return "an external mv with a source inside (or containing) the repository was not refused"
    if pre["main"] != post["main"]:
        return "the refused mv changed the main repository: %r" % (diff_snap(pre["main"], post["main"]),)
    if any(post["stg"].get(k) != e for k, e in pre["stg"].items()):
        return "the refused mv changed the staging area: %r" % (diff_snap(pre["stg"], post["stg"]),)
    a = {p: e[:2] for p, e in pre["src_ino"].items()}
    b = {p: e[:2] for p, e in post["src_ino"].items()}
    if a != b:
        return "the refused mv changed the source area: %r" % (diff_snap(a, b),)
    return None


def c12_oracle(w, rec):
    """None or a message (model-free statement of C12 on one traced operation)"""
    step, d, pre, post = rec["step"], rec["d"], rec["pre"], rec["post"]
    srcs = d["srcs"]
    m = mv_refusal_oracle(w, rec)
    if m:
        return m
    for op, ok, injected, errno in rec["calls"]:
        for n, p in enumerate(op_targets(op)):
            if not isinstance(p, str):
                return "a mutating call without a resolvable path: %r" % (op,)
            if under(p, w.root) or under(p, w.S):
                continue
            if op[0] == "mkdir" and (under(w.S, p) or under(w.root, p)):
                continue                                  # create_dir_all of the staging / storage root's ancestors
            if step["op"] == "mv_ext" and any(under(p, s) for s in srcs) and \
                    ((op[0] == "rename" and n == 0) or op[0] == "rmdir"):
                continue                                  # removing the named sources of an external move
            if step["op"] == "mv_ext" and op[0] == "unlink" and p in srcs and p in rec["pre"].get("src_links", ()):
                continue                                  # a named source that is a symbolic link: content copied, link removed
            return "mutating call %s%s targets %s outside the storage root and the staging root" % (
                op[0], "" if ok else " (failed %s)" % errno, p)
    # no operation stores anything beneath the root of ANOTHER object of the main repository
    own = d.get("N") or (d["mobj"]["root"] if d.get("mobj") else None)
    for op, ok, injected, errno in rec["calls"]:
        if not ok or op[0] in ("rmdir",):
            continue
        for p in op_targets(op):
            if not isinstance(p, str) or under(p, w.S):
                continue
            for o in pre["objs"]:
                if o["root"] != own and under(p, o["root"]) and p != o["root"] and under(o["root"], w.root) \
                        and not (own and under(o["root"], own)):
                    return "mutating call %s targets %s beneath the root of another object (%s)" % (op[0], p, o["root"])
    if pre["sentinel"] != post["sentinel"]:
        return "the tree around the two roots changed: %r" % (diff_snap(pre["sentinel"], post["sentinel"]),)
    for where, sn in (("storage root", post["main"]), ("staging root", post["stg"])):
        links = sorted(k for k, e in sn.items() if e[0] == "l")
        if links:
            return "symbolic link(s) inside the %s (writes to them leave the roots): %r" % (where, links[:3])
    if step["op"] in ("commit", "upgrade") and not d["exists"] and rec["rc"] != 0 and not rec["killed"] and not rec["inject"]:
        if pre["main"] != post["main"]:
            return "a refused commit changed the main repository: %r" % (diff_snap(pre["main"], post["main"]),)
    return None


def validity(w, env, objs):
    """{root: bool} - valid according to BOTH `rocfl validate` (by path) and the independent validator"""
    out = {}
    for o in objs:
        errs = ocflv.validate_object(o["root"])
        ok = not errs
        if ok:
            rel = os.path.relpath(o["root"], w.root)
            rc, _, _ = st.run_plain(st.rocfl_cmd(w.root, w.stg_arg, "validate", "-p", "--", rel), env=env, cwd=w.area, timeout=60)
            ok = rc == 0
        out[o["root"]] = ok
    return out


def c12_validity_oracle(w, env, rec, valid_before):
    """objects valid before the operation must be valid afterwards (unless this operation purged them)"""
    gone = set(purged_objects(rec))
    after = validity(w, env, [o for o in rec["post"]["objs"]])
    for root, ok in valid_before.items():
        if not ok or root in gone:
            continue
        if not after.get(root, False):
            return "object at %s was valid before and is %s after the operation" % (
                os.path.relpath(root, w.root), "invalid" if root in after else "gone"), after
    return None, after


def c03_oracle(w, rec):
    """None or a message (model-free statement of C03 on one traced operation)"""
    step, d, pre, post = rec["step"], rec["d"], rec["pre"], rec["post"]
    m = mv_refusal_oracle(w, rec)
    if m:
        return m
    may_remove = set(purged_objects(rec))
    vdirs = []
    for o in pre["objs"]:
        if o["root"] in may_remove:
            continue
        for v in o["versions"]:
            vdirs.append(os.path.join(o["root"], v))
    # (1) bytes of every committed version directory
    for vd in vdirs:
        rel = os.path.relpath(vd, w.root)
        a = {k: e for k, e in pre["main"].items() if under(k, rel)}
        b = {k: e for k, e in post["main"].items() if under(k, rel)}
        if a != b:
            return "committed version directory %s changed: %r" % (rel, diff_snap(a, b))
    # (2) no mutating call, successful or not, targets a path inside a committed version directory
    for op, ok, injected, errno in rec["calls"]:
        for p in op_targets(op):
            for vd in vdirs:
                if isinstance(p, str) and under(p, vd):
                    return "mutating call %s%s targets %s inside the committed version directory %s" % (
                        op[0], "" if ok else " (failed %s)" % errno, p, os.path.relpath(vd, w.root))
    # (3) pre-existing files of the main repository: only root inventory / sidecar (/ declaration on upgrade)
    #     of the committed object may differ; nothing at all for the staging operations
    if step["op"] in ("purge", "init", "upgrade_repo"):
        return None
    changed = [k for k, e in pre["main"].items() if post["main"].get(k) != e]
    if not changed:
        return None
    if step["op"] in ("commit", "upgrade") and d.get("mobj") is not None:
        orel = os.path.relpath(d["mobj"]["root"], w.root)
        for k in changed:
            name = os.path.basename(k)
            parent = os.path.dirname(k) or "."
            fine = os.path.normpath(parent) == os.path.normpath(orel) and (
                name == "inventory.json" or name.startswith("inventory.json.") or
                (step["op"] == "upgrade" and name.startswith(OBJ_DECL)))
            if not fine:
                return "%s changed a pre-existing entry of the main repository: %s: %r -> %r" % (
                    step["op"], k, pre["main"].get(k), post["main"].get(k))
        return None
    k = changed[0]
    return "%s changed a pre-existing entry of the main repository: %s: %r -> %r" % (step["op"], k, pre["main"].get(k), post["main"].get(k))


# --------------------------------------------------------------------------- Coq terms

def observed_term(rec):
    return coq_list(fsop_term(op) for op, ok, inj, errno in rec["calls"])


def allowed_term(w, rec):
    return "check_allowed %s %s %s %s" % (coq_cfg(w), coq_pre(rec["pre"], rec["d"]), coq_op(rec["d"]), observed_term(rec))


def not_allowed_term(w, rec):
    return "not_allowed %s %s %s %s" % (coq_cfg(w), coq_pre(rec["pre"], rec["d"]), coq_op(rec["d"]), observed_term(rec))


def derive_gin(w, rec):
    """Coq term of the abstract inputs of the generating model for a successful fault-free operation, or None
    when they cannot be determined from the states before / after"""
    step, d, pre, post = rec["step"], rec["d"], rec["pre"], rec["post"]
    k = step["op"]
    if k in ("init", "upgrade_repo") or rec["rc"] != 0 or rec["inject"]:
        return None
    S_o = d["S_o"]
    a, z = pre["stg_ino"], post["stg_ino"]
    pre_so = {p: e for p, e in a.items() if under(p, S_o)}
    post_so = {p: e for p, e in z.items() if under(p, S_o)}
    head = d["head"]
    pre_staged = d["staged"] is not None
    post_staged = any(o["root"] == S_o for o in post["staged"])
    inv_src = None
    for o in post["staged"] + pre["staged"]:
        if o["root"] == S_o and o["alg"]:
            inv_src = o
            break
    if inv_src is None and d["mobj"] is not None:
        inv_src = d["mobj"]
    if (inv_src is None or not inv_src.get("alg")) and k not in ("purge", "reset_all"):
        return None
    sidecar = "inventory.json." + (inv_src["alg"] if inv_src is not None and inv_src.get("alg") else "sha512")
    restage = None
    if k == "purge" and d["rel"] is None:
        return None                     # no layout and the id is not found: nothing is looked at in the main repository
    if k == "reset" and not pre_staged:
        return None                     # reset of an object without staged version returns before anything is written
    if not pre_staged and k in ("new", "cp_ext", "mv_ext", "cp_int", "mv_int", "rm", "upgrade"):
        if post_staged:
            decls = [o for o in post["staged"] if o["root"] == S_o][0]["decls"]
        elif d["mobj"] is not None:
            decls = d["mobj"]["decls"]
        else:
            return None
        if len(decls) != 1:
            return None
        restage = decls[0]
        if k == "upgrade" and not d["exists"]:
            return None
    if k == "upgrade" and not d["exists"]:
        return None                     # stage_object_declaration of a never committed object: not generated
    inos_pre = {e[1]: p for p, e in pre_so.items() if e[0] == "f"}
    inos_post = {e[1]: p for p, e in post_so.items() if e[0] == "f"}
    rel = lambda p: os.path.relpath(p, S_o)
    root_names = ("inventory.json", sidecar)

    def content(p):
        r = rel(p)
        return under(r, head) and not (os.path.dirname(r) == head and os.path.basename(r) in root_names)

    created, renamed, removed, mvsrc = [], [], [], []
    src_inos = {e[1]: p for p, e in pre["src_ino"].items() if e[0] == "f"}
    if k not in ("commit", "upgrade", "reset_all", "purge"):
        for p, e in post_so.items():
            if e[0] != "f" or not content(p):
                continue
            old = pre_so.get(p)
            if old is not None and old[1] == e[1] and old[2] == e[2]:
                continue                                   # untouched
            if e[1] in inos_pre and inos_pre[e[1]] != p and inos_pre[e[1]] not in post_so:
                renamed.append((rel(inos_pre[e[1]]), rel(p)))
            elif k == "mv_ext" and e[1] in src_inos:
                mvsrc.append((src_inos[e[1]], rel(p)))
            else:
                created.append(rel(p))
        moved_from = set(x for x, _ in renamed)
        for p, e in pre_so.items():
            if e[0] == "f" and content(p) and p not in post_so and rel(p) not in moved_from:
                removed.append(rel(p))
    files, dirs, olddecl, newdecl = [], [], [], None
    if k in ("commit", "upgrade"):
        n = d.get("N")
        if d["exists"]:
            if d["mobj"] is None:
                return None
            n = d["mobj"]["root"]
            post_m = [o for o in post["objs"] if o["root"] == n]
            if not post_m:
                return None
            new_files = set(kk for kk in post["main"] if under(kk, os.path.join(os.path.relpath(n, w.root), head)))
            for p, e in pre_so.items():
                if e[0] == "f" and content(p):
                    if os.path.join(os.path.relpath(n, w.root), rel(p)) not in new_files:
                        removed.append(rel(p))
            # what is left of the staged object is removed at the end
            for p, e in pre_so.items():
                if under(rel(p), head) and rel(p) != ".":
                    continue
                (files if e[0] == "f" else dirs).append(p)
            for nm in root_names:
                q = os.path.join(S_o, nm)
                if q not in files:
                    files.append(q)
            if restage is not None:
                q = os.path.join(S_o, restage)
                if q not in files:
                    files.append(q)
                if S_o not in dirs:
                    dirs.append(S_o)
            if k == "upgrade":
                before, after = set(d["mobj"]["decls"]), set(post_m[0]["decls"])
                olddecl = sorted(before - after)
                nd = sorted(after - before)
                if len(nd) != 1:
                    return None
                newdecl = nd[0]
        else:
            if n is None or not any(o["root"] == n for o in post["objs"] + post["staged"]):
                return None
            nrel = os.path.relpath(n, w.root)
            new_files = set(os.path.relpath(kk, nrel) for kk in post["main"] if under(kk, nrel))
            for p, e in pre_so.items():
                if e[0] == "f" and content(p) and rel(p) not in new_files:
                    removed.append(rel(p))
    if k == "reset_all":
        if pre_staged or (S_o in a and S_o not in z):
            for p, e in pre_so.items():
                (files if e[0] == "f" else dirs).append(p)
    if k == "purge":
        if S_o in a and S_o not in z:
            for p, e in pre_so.items():
                (files if e[0] == "f" else dirs).append(p)
        n = d.get("N")
        if n and not under(n, w.S) and os.path.relpath(n, w.root) in pre["main"] and os.path.relpath(n, w.root) not in post["main"]:
            relp = os.path.relpath(n, w.root)
            for kk, e in pre["main"].items():
                if under(kk, relp):
                    (files if e[0] != "d" else dirs).append(os.path.join(w.root, kk))
    srcdirs = []
    if k == "mv_ext":
        for s_ in d["srcs"]:
            for p, e in pre["src_ino"].items():
                if e[0] == "d" and under(p, s_):
                    srcdirs.append(p)
    opt = lambda x: "None" if x is None else "(Some %s)" % B(x)
    copy_kind = k == "cp_int"
    term = "(mkGin %s %s %s %s %s %s %s %s %s %s %s %s)" % (
        opt(restage), B(sidecar),
        coq_list(B(x) for x in ([] if copy_kind else created)),
        coq_list(B(x) for x in (created if copy_kind else [])),
        coq_list("(%s, %s)" % (B(x), B(y)) for x, y in renamed),
        coq_list("(%s, %s)" % (P(x), B(y)) for x, y in mvsrc),
        coq_list(B(x) for x in removed),
        coq_list(P(x) for x in srcdirs),
        coq_list(P(x) for x in files), coq_list(P(x) for x in dirs),
        coq_list(B(x) for x in olddecl), opt(newdecl))
    return term


def covers_terms(w, rec):
    g = derive_gin(w, rec)
    if g is None:
        return None
    # only the calls that took effect take part in the comparison with the fault-free model
    obs = coq_list(fsop_term(op) for op, ok, inj, errno in rec["calls"] if ok)
    head = "%s %s %s %s" % (coq_cfg(w), coq_pre(rec["pre"], rec["d"]), coq_op(rec["d"]), g)
    return ("check_covers %s %s" % (head, obs), "uncovered %s %s %s %s" % (coq_cfg(w), coq_op(rec["d"]), g, obs),
            "gin_ok %s" % head)


# --------------------------------------------------------------------------- hostile pools and the history generator

def long_id(n=300):
    return "L" + "x" * 120 + "/" + "y" * (n - 122)


def hostile_ids(w, layout):
    # absolute ids point INTO the scratch tree (<outer>/abs-target): a broken guard then writes where the sentinel
    # snapshot sees it and nothing outside /verif/.build can be touched.  Layout 0007 cuts its tuples from the id
    # text, so an absolute id necessarily lands at /<3 chars>/... outside the scratch tree: none is generated there.
    absolute_in_outer = os.path.join(w.outer, "abs-target")
    pool = _hostile_ids(w, layout, absolute_in_outer)
    if layout == "0007":
        pool = [x for x in pool if not x[1].rsplit(":", 1)[-1].startswith("/")]
    return pool


def _hostile_ids(w, layout, absolute_in_outer):
    pool = [
        ("dotdot", ".."), ("dotdot", "../x"), ("dotdot", "../../esc"), ("dotdot", "x/../y"), ("dotdot", "a/../../b"),
        ("dotdot", "x/../../area/root-twin"), ("dotdot-late", "batch-2024/../../escaped/obj"), ("dotdot-late", "nonexist/sub/../../../escaped2"), ("absolute", absolute_in_outer), ("absolute", absolute_in_outer + "/deeper/obj"), ("curdir", "./x"),
        ("curdir", "."), ("nested", "a/b"), ("nested", "a/v1/content/deep"), ("above", "p"), ("prefix", "ab"), ("prefix", "a"),
        ("long", long_id()), ("quote", "q'uo\"te"), ("extensions", "extensions"), ("extensions", "extensions/rocfl-staging/x"),
        ("extensions", "extensions/x"), ("slash-end", "trail/"), ("space", "x y"), ("unicode", "ü/é"),
        ("backslash", "b\\c"), ("percent", "%2e%2e/x"), ("dots", "..."), ("nested", "p/q/r"),
    ]
    if layout in ("0006", "0007"):
        pool += [("colon", "urn:x:.."), ("colon", "pre:../x"), ("colon", "a:1"), ("colon", "b:1"), ("colon", "x:."),
                 ("colon", "x:" + absolute_in_outer + "-c"), ("colon", "urn:a/b"), ("colon", "n:extensions"), ("colon", "::"),
                 ("colon", "k:a"), ("colon", "x:a/v1/content"), ("colon", "y:p"), ("dotdot-late", "z:batch-2024/../../escaped/obj"),
                 ("nested", "z:a/v1/content/sub")]
    return pool


HOSTILE_DST = [("dst-dotdot", "../x"), ("dst-abs", "/abs"), ("dst-dotdot", "a/../../b"), ("dst-dot", "."), ("dst-dotdot", ".."),
               ("dst-empty-seg", "a//b"), ("dst-dotdot", "d/../e.txt"), ("dst-slash", "/")]
HOSTILE_ROOTS = [("root-dotdot-late", "newdir/../../escaped-root"), ("root-nested", "objs/A/v1/content/sub"), ("root-dotdot", "../x"), ("root-abs", "@ABS@/abs-root/r"), ("root-dotdot", "x/../../y"), ("root-nested", "objs/A/v1/in"),
                 ("root-curdir", "."), ("root-empty", "/"), ("root-extensions", "extensions/rocfl-staging/zz"),
                 ("root-extensions", "extensions"), ("root-occupied", "objs/A"), ("root-ok", "//objs//H//"),
                 ("root-above", "objs"), ("root-dotdot", "objs/../../z"), ("root-curdir", "./objs/./H2")]
HOSTILE_CDIR = [("cdir-inventory", "inventory.json"), ("cdir-inventory", "inventory.json.sha512"), ("cdir-inventory", "inventory.jsonx"),
                ("cdir-dotdot", ".."), ("cdir-dot", "."), ("cdir-slash", "a/b"), ("cdir-slash", "/abs"), ("cdir-slash", "../x"),
                ("cdir-empty", ""), ("cdir-odd", "c d"), ("cdir-odd", "...")]
CONTENTS = [b"", b"A", b"hello world\n", b"HELLO\n", b"dup-content", bytes(range(256)) * 2]
NAMES = ["a.txt", "b.txt", "dir/c.txt", "dir/sub/e.txt", "x y.txt", "f"]


def benign_id(layout, k):
    if layout in ("0006", "0007"):
        return "urn:obj:%03d" % k
    return ["a", "objs-%d" % k, "p/q/r%d" % k][k % 3] if layout in ("0002", "none") else "obj-%d" % k


def gen_history(rng, w, n_random, stats):
    """list of steps for one world: a benign object A with every kind of staging operation and three commits
    (the last one an upgrade when possible), an object below plain directories, hostile material (ids, content
    directories, destinations, object roots, purges of never-created ids that map onto other things), then
    random operations on 3-5 objects"""
    lay = w.layout
    repo_spec = rng.choice(["1.0", "1.1", "1.1", "1.1"])
    steps = [{"op": "init", "spec": repo_spec}]
    spec10 = repo_spec == "1.0"
    A = "a" if lay in ("0002", "none") else benign_id(lay, 1)
    if lay == "0006":
        A = "k:a"                      # root `a`: the ids z:a, x:a/v1/content ... map onto / into it
    if lay == "0007":
        A = "urn:obj:001"
    ids = [A]

    def src_file(name=None):
        return os.path.relpath(w.new_source(name or rng.choice(["a.txt", "b.txt", "x y.txt"]), rng.choice(CONTENTS)), w.area)

    def src_dir():
        return os.path.relpath(w.new_source_dir("d", {"x.txt": rng.choice(CONTENTS), "e/y.txt": rng.choice(CONTENTS), "e/f/z": b"z"}), w.area)

    def commit(i, root=None):
        st_ = {"op": "commit", "id": i}
        if lay == "none":
            st_["object_root"] = root if root is not None else "objs/" + re.sub(r"[^A-Za-z0-9]", "_", i)[:40]
        return st_

    a_spec10 = spec10 or rng.random() < 0.6
    # --- object A: all kinds of staging operations, three versions
    steps += [{"op": "new", "id": A, "spec": "1.0" if a_spec10 else None, "pad": rng.choice([0, 0, 3]),
               "alg": rng.choice([None, None, "sha256"])},
              {"op": "cp_ext", "id": A, "src": [src_file("a.txt"), src_file("b.txt")], "dst": "/"},
              {"op": "cp_ext", "id": A, "src": [src_dir()], "dst": "dir/", "recursive": True},
              commit(A, "objs/A")]
    Pid = None
    if lay in ("0002", "none", "0006"):
        Pid = "k:p/q/r" if lay == "0006" else "p/q/r"
        steps += [{"op": "new", "id": Pid}, {"op": "cp_ext", "id": Pid, "src": [src_file()], "dst": "f.txt"}, commit(Pid, "p/q/r")]
    steps += [{"op": "cp_ext", "id": A, "src": [src_file("new.txt")], "dst": "n/new.txt"},
              {"op": "cp_int", "id": A, "src": ["a.txt"], "dst": "copy/a2.txt"},
              {"op": "cp_int", "id": A, "src": ["n/new.txt"], "dst": "copy/new2.txt"},
              {"op": "mv_int", "id": A, "src": ["n/new.txt"], "dst": "moved/new3.txt"},
              {"op": "mv_int", "id": A, "src": ["b.txt"], "dst": "moved/b2.txt"},
              {"op": "mv_ext", "id": A, "src": [src_dir(), src_file("m.txt")], "dst": "mv/"},
              {"op": "rm", "id": A, "paths": ["copy/new2.txt"]},
              {"op": "rm", "id": A, "paths": ["dir/x.txt"]},
              {"op": "reset", "id": A, "paths": ["dir/x.txt"]},
              commit(A),
              {"op": "cp_ext", "id": A, "src": [src_file("late.txt")], "dst": "late.txt"}]
    # external mv whose named source is part of the repository in some spelling: refused since 128b230
    specials = ["committed-file"] + rng.sample(SPECIAL_MV[1:], 3) + [rng.choice(SPECIAL_MV_OK)]
    for sp in specials:
        stats["hostile_mv_source_" + sp] = stats.get("hostile_mv_source_" + sp, 0) + 1
        steps.append({"op": "mv_ext", "id": A, "special": sp, "dst": "stolen-%s/" % sp[:6], "hostile": "mv-" + sp})
    # (see SPECIAL_MV_LINK) mv of a link to a sentinel, then two overwrites of the same logical path, then the commit
    stats["hostile_mv_source_" + SPECIAL_MV_LINK] = stats.get("hostile_mv_source_" + SPECIAL_MV_LINK, 0) + 1
    steps += [{"op": "mv_ext", "id": A, "special": SPECIAL_MV_LINK, "dst": "linked.txt", "hostile": "mv-" + SPECIAL_MV_LINK},
              {"op": "cp_ext", "id": A, "src": [src_file("over.txt")], "dst": "linked.txt"},
              {"op": "cp_int", "id": A, "src": ["a.txt"], "dst": "linked.txt"}]
    steps.append({"op": "upgrade", "id": A} if (a_spec10 and not spec10) else commit(A))
    # an object planted OUTSIDE the storage root exactly where the layout maps a hostile id (fix 3fb070d: such a
    # layout path is never looked at): every operation on that id must leave the planted tree alone
    if lay in ("0002", "0006"):
        pre_ = "z:" if lay == "0006" else ""
        for variant, pid_, dest in (("planted-rel", pre_ + "../x", os.path.join(w.area, "x")),
                                    ("planted-abs", pre_ + os.path.join(w.outer, "abs-planted"), os.path.join(w.outer, "abs-planted"))):
            stats["hostile_" + variant] = stats.get("hostile_" + variant, 0) + 1
            steps.append({"op": "plant", "from": A, "id": pid_, "dest": dest})
            seq = [{"op": "cp_ext", "id": pid_, "src": [src_file()], "dst": "pl.txt"}, {"op": "rm", "id": pid_, "paths": ["a.txt"]},
                   {"op": "cp_int", "id": pid_, "src": ["a.txt"], "dst": "a-copy.txt"}, commit(pid_), {"op": "upgrade", "id": pid_},
                   {"op": "purge", "id": pid_}, {"op": "new", "id": pid_},
                   {"op": "cp_ext", "id": pid_, "src": [src_file()], "dst": "pl2.txt"}, commit(pid_), {"op": "reset_all", "id": pid_}]
            for st_ in (seq if variant == "planted-rel" else rng.sample(seq[:6], 3) + seq[6:]):
                steps.append(dict(st_, hostile=variant))
    known = {A: ["a.txt", "copy/a2.txt", "moved/new3.txt", "moved/b2.txt", "dir/x.txt", "dir/e/y.txt", "mv/m.txt", "late.txt", "mv/d/x.txt"]}
    # --- hostile ids
    pool = hostile_ids(w, lay)
    rng.shuffle(pool)
    must = [x for x in pool if x[1] in ("../x", "a/b", "a/v1/content/deep", ".", "extensions/rocfl-staging/x", "pre:../x", "x:.",
                                        "x:a/v1/content", "p", "y:p", "ab") or x[0] == "absolute"]
    rng.shuffle(must)
    # always: ".." after a first segment that does not exist, and a root nested (depth >= 2) inside a committed
    # version directory of object A (layouts 0002 / 0006 / none with -r)
    always = [("dotdot-late", "z:batch-2024/../../escaped/obj" if lay == "0006" else "batch-2024/../../escaped/obj"),
              ("nested", "z:a/v1/content/sub" if lay == "0006" else "a/v1/content/sub")]
    chosen = always + must[:3] + [x for x in pool if x not in must][:2]
    for cls, hid in chosen:
        stats["hostile_id_" + cls] = stats.get("hostile_id_" + cls, 0) + 1
        cd = None
        if rng.random() < 0.35:
            ccls, cd = rng.choice(HOSTILE_CDIR)
            stats["hostile_" + ccls] = stats.get("hostile_" + ccls, 0) + 1
        steps.append({"op": "new", "id": hid, "cdir": cd, "hostile": cls})
        if cd is not None:
            steps.append({"op": "new", "id": hid, "hostile": cls})           # a refused name must not end the story
        steps.append({"op": "cp_ext", "id": hid, "src": [src_file()], "dst": "h.txt", "hostile": cls})
        if rng.random() < 0.6:
            # the same new content under two names: the commit de-duplicates them, and when it is then REFUSED (root
            # occupied / nested / outside) the duplicate is put back - into the staged version, nowhere else (890d206)
            dupsrc = os.path.relpath(w.new_source("dup.bin", b"same bytes under two names"), w.area)
            dupsrc2 = os.path.relpath(w.new_source("dup2.bin", b"same bytes under two names"), w.area)
            stats["hostile_duplicate_content"] = stats.get("hostile_duplicate_content", 0) + 1
            steps.append({"op": "cp_ext", "id": hid, "src": [dupsrc], "dst": "a.txt", "hostile": cls})
            steps.append({"op": "cp_ext", "id": hid, "src": [dupsrc2], "dst": "b.txt", "hostile": cls})
        if rng.random() < 0.5:
            dcls, dst = rng.choice(HOSTILE_DST)
            stats["hostile_" + dcls] = stats.get("hostile_" + dcls, 0) + 1
            steps.append({"op": rng.choice(["cp_ext", "cp_ext", "mv_ext", "cp_int", "mv_int"]), "id": hid,
                          "src": [src_file()] if rng.random() < 0.7 else ["h.txt"], "dst": dst, "hostile": dcls})
            if steps[-1]["op"] in ("cp_int", "mv_int"):
                steps[-1]["src"] = ["h.txt"]
        root = None
        if lay == "none":
            rcls, root = rng.choice(HOSTILE_ROOTS)
            root = root.replace("@ABS@", w.outer)          # absolute roots point into the scratch tree
            stats["hostile_" + rcls] = stats.get("hostile_" + rcls, 0) + 1
        if rng.random() < 0.15:
            steps.append({"op": "upgrade", "id": hid, "hostile": cls})       # upgrade of a never committed object (commits it)
        else:
            steps.append(dict(commit(hid, root), hostile=cls))
        r = rng.random()
        if r < 0.40:
            steps.append({"op": "purge", "id": hid, "hostile": cls})
        elif r < 0.60:
            steps.append({"op": "reset_all", "id": hid, "hostile": cls})
        else:
            ids.append(hid)
            known[hid] = ["h.txt"]
    # an object root inside the staging area, exactly below the staged path of another (never created) id:
    # refused since a1975f1; before, `reset victim` removed the committed object
    if lay in ("0002", "none", "0006") and rng.random() < 0.7:
        victim = "victim-%d" % rng.randrange(1000)
        inner = "extensions/rocfl-staging/%s/deep" % st.hashed_ntuple(victim)
        xid = ("z:" + inner) if lay == "0006" else inner
        stats["hostile_id_in_staging_of_victim"] = stats.get("hostile_id_in_staging_of_victim", 0) + 1
        steps += [{"op": "new", "id": xid, "hostile": "in-staging"},
                  {"op": "cp_ext", "id": xid, "src": [src_file()], "dst": "h.txt", "hostile": "in-staging"},
                  dict(commit(xid, inner), hostile="in-staging"),
                  {"op": rng.choice(["reset_all", "purge"]), "id": victim, "hostile": "in-staging"},
                  {"op": "reset_all", "id": xid, "hostile": "in-staging"}]
    # an object whose declaration names a version this rocfl does not know (0=ocfl_object_2.0): still an object root;
    # new objects whose root lies beneath it must be refused and nothing may be written below it
    if Pid is not None and rng.random() < 0.8:
        ver = rng.choice(["2.0", "1.2", "1.10"])
        stats["hostile_foreign_declaration"] = stats.get("hostile_foreign_declaration", 0) + 1
        steps.append({"op": "redeclare", "id": Pid, "version": ver})
        inners = ["p/q/r/inner-%d" % rng.randrange(100), "p/q/r/v1/content/deep/in"]
        for inner in inners:
            xid = ("z:" + inner) if lay == "0006" else inner
            steps += [{"op": "new", "id": xid, "hostile": "below-foreign"},
                      {"op": "cp_ext", "id": xid, "src": [src_file()], "dst": "h.txt", "hostile": "below-foreign"},
                      dict(commit(xid, inner), hostile="below-foreign"),
                      {"op": "reset_all", "id": xid, "hostile": "below-foreign"}]
    # purge / reset of ids that were never created and map onto other things
    onto = [x for x in pool if x[1] in (".", "a/v1/content", "a/v1/content/deep", "extensions", "p", "x:.", "x:a/v1/content", "b:1", "y:p", "../x",
                                        "a/v1", "extensions/rocfl-staging/x")]
    onto += [("onto", "a/v1/content"), ("onto", "a/v1"), ("onto", "p/q"), ("onto", "")] if lay in ("0002",) else []
    onto += [("onto", "z:a/v1/content"), ("onto", "z:p/q"), ("onto", "z:a")] if lay == "0006" else []
    rng.shuffle(onto)
    core = {"0002": ["p", "a/v1/content", ".", "extensions", "a/v1"], "0006": ["y:p", "z:a/v1/content", "x:.", "z:a", "n:extensions", "z:p/q"],
            "0007": ["x:001", "zz:001"], "0003": [".", "a/v1/content"], "0004": ["..", "p"], "none": ["p", "a/v1/content", "."]}[lay]
    onto = [("core", x) for x in core] + onto[:3]
    for cls, hid in onto:
        if hid == "":
            continue
        stats["hostile_purge_" + cls] = stats.get("hostile_purge_" + cls, 0) + 1
        steps.append({"op": rng.choice(["purge", "purge", "reset_all"]), "id": hid, "hostile": "purge-" + cls})
    # --- random operations
    B_ = benign_id(lay, 2)
    C_ = benign_id(lay, 3)
    ids += [B_, C_]
    created = set(i for i in ids if i not in (B_, C_))
    for _ in range(n_random):
        i = rng.choice(ids)
        if i not in created:
            steps.append({"op": "new", "id": i, "cdir": rng.choice([None, None, "stuff", "c d"])})
            created.add(i)
            known[i] = []
            continue
        kn = known.setdefault(i, [])
        pick = (lambda: rng.choice(kn)) if kn and rng.random() < 0.75 else (lambda: rng.choice(NAMES + ["dir", "h.txt", "*"]))
        r = rng.random()
        if r < 0.20:
            if rng.random() < 0.3:
                steps.append({"op": "cp_ext", "id": i, "src": [src_dir()], "dst": rng.choice(["dir", "tree/", "/"]), "recursive": True})
            else:
                nm = rng.choice(NAMES)
                steps.append({"op": "cp_ext", "id": i, "src": [src_file()], "dst": nm})
                kn.append(nm)
        elif r < 0.28:
            if rng.random() < 0.5:
                steps.append({"op": "mv_ext", "id": i, "src": [src_dir(), src_file()], "dst": rng.choice(["moved/", "dir"])})
            else:
                nm = rng.choice(NAMES)
                steps.append({"op": "mv_ext", "id": i, "src": [src_file()], "dst": nm})
                kn.append(nm)
        elif r < 0.40:
            nm = rng.choice(NAMES + ["new/"])
            steps.append({"op": "cp_int", "id": i, "src": [pick()], "dst": nm, "recursive": rng.random() < 0.3})
            if not nm.endswith("/"):
                kn.append(nm)
        elif r < 0.50:
            nm = rng.choice(NAMES + ["mv2/"])
            steps.append({"op": "mv_int", "id": i, "src": [pick()], "dst": nm})
            if not nm.endswith("/"):
                kn.append(nm)
        elif r < 0.59:
            steps.append({"op": "rm", "id": i, "paths": [pick()], "recursive": rng.random() < 0.5})
        elif r < 0.66:
            steps.append({"op": "reset", "id": i, "paths": [pick()], "recursive": rng.random() < 0.5})
        elif r < 0.69:
            steps.append({"op": "reset_all", "id": i})
        elif r < 0.87:
            steps.append(commit(i))
        elif r < 0.92:
            steps.append({"op": "upgrade", "id": i})
        elif r < 0.95 and spec10:
            steps.append({"op": "upgrade_repo"})
            spec10 = False
        else:
            steps.append({"op": "purge", "id": i})
            created.discard(i)
    return steps


def plant_object(src_root, dst, new_id):
    """a copy of a committed object, with another id, at a place OUTSIDE the storage root (what a third party, or an
    earlier broken version, may have left where the layout maps a hostile id)"""
    if os.path.lexists(dst) or not os.path.isdir(src_root):
        return False
    os.makedirs(os.path.dirname(dst), exist_ok=True)
    shutil.copytree(src_root, dst, symlinks=True)
    for d_, _, files in os.walk(dst):
        if "inventory.json" in files:
            ip = os.path.join(d_, "inventory.json")
            try:
                inv = json.load(open(ip, encoding="utf-8"))
            except ValueError:
                continue
            inv["id"] = new_id
            data = json.dumps(inv).encode("utf-8")
            with open(ip, "wb") as f:
                f.write(data)
            alg = inv.get("digestAlgorithm", "sha512")
            h = hashlib.sha256(data).hexdigest() if alg == "sha256" else hashlib.sha512(data).hexdigest()
            with open(ip + "." + alg, "w") as f:
                f.write("%s  inventory.json\n" % h)
    return True


SPECIAL_MV = ["committed-file", "committed-file-dotdot", "symlink-to-committed-file", "via-symlink-dir", "staged-file",
              "parent-of-root", "root-itself", "object-dir", "mixed", "staging-root"]
# ("symlink-to-outside-file" is resolvable below but not drawn: mv of a source that is itself a symbolic link to a
#  file renames the LINK into the object - after commit rocfl's own validator reports E090/E092; a C01 matter
#  reported to the lead, not a footprint matter)
SPECIAL_MV_OK = ["dir-with-symlink-inside"]
# a named source that is itself a symbolic link to a file OUTSIDE the repository (a sentinel): since the repair of
# move_file the content is copied and the link removed; the link's target must never be written through, neither by
# this mv nor by later writes to the same logical path (follow-up steps), and no link may end up inside the roots
SPECIAL_MV_LINK = "symlink-to-sentinel-file"


def special_sources(w, pre, kind, rng):
    """named sources of an external mv that are part of the repository in some spelling (must be refused), and two
    spellings with symbolic links that are NOT part of it (must work without touching the link targets)"""
    tgt = None
    for o in pre["objs"]:
        for v in o["versions"]:
            cd = os.path.join(o["root"], v, o["cdir"])
            for d_, _, fs in os.walk(cd):
                for f in sorted(fs):
                    tgt = os.path.join(d_, f)
    w.nsrc += 1
    sd = os.path.join(w.src, "sp%d" % w.nsrc)
    os.makedirs(sd)
    rel = lambda p: os.path.relpath(p, w.area)
    if kind in ("parent-of-root",):
        return [w.area]
    if kind == "root-itself":
        return [rel(w.root)]
    if kind == "staging-root":
        return [w.S] if os.path.isdir(w.S) else []
    if kind == "staged-file":
        files = sorted(p for p, e in pre["stg_ino"].items() if e[0] == "f" and "/rocfl-locks/" not in p)
        return [rel(files[-1])] if files else []
    if tgt is None:
        return []
    if kind == "committed-file":
        return [rel(tgt)]
    if kind == "committed-file-dotdot":
        return [os.path.join(rel(sd), "..", "..", rel(tgt))]
    if kind == "symlink-to-committed-file":
        os.symlink(tgt, os.path.join(sd, "lnk.txt"))
        return [rel(os.path.join(sd, "lnk.txt"))]
    if kind == "via-symlink-dir":
        os.symlink(w.root, os.path.join(sd, "rootlnk"))
        return [os.path.join(rel(sd), "rootlnk", os.path.relpath(tgt, w.root))]
    if kind == "object-dir":
        return [rel(pre["objs"][-1]["root"])]
    if kind == "mixed":
        with open(os.path.join(sd, "plain.txt"), "wb") as f:
            f.write(b"plain")
        return [rel(os.path.join(sd, "plain.txt")), rel(tgt)]
    if kind == "dir-with-symlink-inside":
        dd = os.path.join(sd, "dl")
        os.makedirs(os.path.join(dd, "sub"))
        with open(os.path.join(dd, "sub", "real.txt"), "wb") as f:
            f.write(b"real")
        os.symlink(tgt, os.path.join(dd, "to-committed.txt"))
        os.symlink(os.path.dirname(tgt), os.path.join(dd, "sub", "to-committed-dir"))
        return [rel(dd)]
    if kind == SPECIAL_MV_LINK:
        os.symlink(os.path.join(w.outer, "sib", "s.txt"), os.path.join(sd, "sl.txt"))
        return [rel(os.path.join(sd, "sl.txt"))]
    if kind == "symlink-to-outside-file":
        with open(os.path.join(sd, "target.txt"), "wb") as f:
            f.write(b"target")
        os.symlink(os.path.join(sd, "target.txt"), os.path.join(sd, "l2.txt"))
        return [rel(os.path.join(sd, "l2.txt"))]
    return []


# --------------------------------------------------------------------------- running histories

def run_history(ctx, env, hno, layout, ext, ext_missing, seed, n_random, stats, with_validity, fault_budget=0):
    """returns list of records (fault-injected re-runs included, marked by rec['inject'])"""
    import random
    rng = random.Random(seed)
    base = os.path.join(ctx.tmp, "h%d" % hno)
    shutil.rmtree(base, ignore_errors=True)
    os.makedirs(base)
    w = World(base, layout, ext, ext_missing)
    steps = gen_history(rng, w, n_random, stats)
    recs = []
    pre = w.state()
    valid = {}
    fault_steps = set()
    if fault_budget:
        cand = [n for n, s_ in enumerate(steps) if "special" not in s_ and s_["op"] in ("commit", "upgrade", "cp_ext", "mv_ext", "mv_int", "rm", "reset", "new", "purge", "reset_all", "cp_int")]
        rng.shuffle(cand)
        commits = [n for n in cand if steps[n]["op"] in ("commit", "upgrade")]
        fault_steps = set(commits[:max(1, fault_budget // 2)] + cand[:fault_budget - min(len(commits), max(1, fault_budget // 2))])
    n = 0
    while n < len(steps):
        step = steps[n]
        if step["op"] == "redeclare":
            # a third party (a newer client) has rewritten the declaration of a committed object to a version this
            # rocfl does not know: the directory is an object root all the same and nothing may be stored beneath it
            a_ = find_obj(pre["objs"], step["id"])
            if a_ is not None:
                for dn in a_["decls"]:
                    os.unlink(os.path.join(a_["root"], dn))
                with open(os.path.join(a_["root"], OBJ_DECL + step["version"]), "w") as f:
                    f.write("ocfl_object_%s\n" % step["version"])
                pre = w.state()
                valid.pop(a_["root"], None)        # changed by the driver, not by rocfl: no longer "valid before"
            n += 1
            continue
        if step["op"] == "plant":
            a_ = find_obj(pre["objs"], step["from"])
            if a_ is not None:
                plant_object(a_["root"], step["dest"], step["id"])
                pre = w.state()
            n += 1
            continue
        if step.get("special") and "src" not in step:
            step["src"] = special_sources(w, pre, step["special"], rng)
            if not step["src"]:
                n += 1
                continue
            pre = dict(pre)
            pre["src_ino"] = snap_ino(w.src)             # the sources were materialised just now
            pre["src_links"] = [os.path.join(d_, f_) for d_, ds_, fs_ in os.walk(w.src) for f_ in fs_ + ds_
                                if os.path.islink(os.path.join(d_, f_))]
        bak = None
        if n in fault_steps:
            bak = base + ".bak"
            shutil.rmtree(bak, ignore_errors=True)
            shutil.copytree(w.outer, bak, symlinks=True)
        rec = run_step(w, env, step, pre)
        rec["hist"], rec["n"], rec["world"] = hno, n, w
        rec["steps_so_far"] = steps[:n + 1]
        if with_validity and step["op"] in ("commit", "upgrade", "purge", "mv_ext", "init") and rec["rc"] is not None:
            msg, after = c12_validity_oracle(w, env, rec, valid)
            rec["validity_msg"] = msg
            valid = after
        recs.append(rec)
        rec["direct"] = {"C12": c12_oracle(w, rec) or rec.get("validity_msg"), "C03": c03_oracle(w, rec)}
        if rec["direct"]["C12"] or rec["direct"]["C03"]:
            # the property is violated on this input: what follows in this history runs on a damaged tree and
            # would only produce consequences of it (possibly enormous ones) - stop here, the record is the replay
            rec["stopped"] = True
            shutil.rmtree(bak, ignore_errors=True) if bak else None
            break
        if bak is not None and not rec["parse_errors"]:
            keep = base + ".after"
            pts = [tuple(p) for p in rec["points"]]
            if pts:
                sel = set([0, len(pts) - 1, len(pts) // 2])
                while len(sel) < min(len(pts), 5 if ctx.quick() else 40):
                    sel.add(rng.randrange(len(pts)))
                shutil.rmtree(keep, ignore_errors=True)
                os.rename(w.outer, keep)
                for pi in sorted(sel):
                    for inj in ({"when": list(pts[pi]), "error": rng.choice(["EIO", "ENOSPC", "EACCES"])},
                                {"when": list(pts[pi]), "signal": "SIGKILL"}) + \
                               (({"when": list(pts[pi]), "signal": "SIGINT"},) if pi == sorted(sel)[len(sel) // 2] else ()):
                        shutil.copytree(bak, w.outer, symlinks=True)
                        pre_f = dict(pre)
                        pre_f["stg_ino"], pre_f["src_ino"] = snap_ino(w.S), snap_ino(w.src)
                        r2 = run_step(w, env, step, pre_f, inject=inj)
                        r2["hist"], r2["n"], r2["world"] = hno, n, w
                        r2["steps_so_far"] = steps[:n + 1]
                        r2["direct"] = {"C12": c12_oracle(w, r2), "C03": c03_oracle(w, r2)}
                        recs.append(r2)
                        shutil.rmtree(w.outer, ignore_errors=True)
                os.rename(keep, w.outer)
            shutil.rmtree(bak, ignore_errors=True)
        pre = rec["post"]
        n += 1
    return w, recs


def plan_worlds(ctx, n_worlds):
    """(layout, ext staging, ext parent missing) per history, rotating over the layouts"""
    out = []
    for i in range(n_worlds):
        lay = LAYOUT_KEYS[i % len(LAYOUT_KEYS)]
        ext = (i // len(LAYOUT_KEYS)) % 2 == 1 or ctx.rng.random() < 0.15
        out.append((lay, ext, ext and ctx.rng.random() < 0.4))
    return out


def run_all(ctx, env, n_worlds, n_random, with_validity, fault_budget):
    plans = plan_worlds(ctx, n_worlds)
    seeds = [ctx.rng.randrange(1 << 30) for _ in plans]
    stats = {}
    workers = max(2, min(10, common.NPROC - 4))
    # warm the layout cache for the benign ids in one batch per layout (hostile ones are mapped on demand)
    out = []
    lock = threading.Lock()

    def job(i):
        lay, ext, miss = plans[i]
        local = {}
        w, recs = run_history(ctx, env, i, lay, ext, miss, seeds[i], n_random, local, with_validity,
                              fault_budget=fault_budget if i % 2 == 0 else 0)
        with lock:
            for k, v in local.items():
                stats[k] = stats.get(k, 0) + v
        return w, recs

    with concurrent.futures.ThreadPoolExecutor(max_workers=workers) as ex:
        out = list(ex.map(job, range(len(plans))))
    return plans, out, stats


def replay_input(rec):
    """what goes into a replay file: enough to re-run the failing operation"""
    w = rec["world"]
    return {"layout": w.layout, "external_staging": w.stg_arg is not None, "history": rec["steps_so_far"],
            "step": rec["n"], "inject": rec["inject"],
            "cmd": "rocfl -r <root>%s %s" % (" -s <staging>" if w.stg_arg else "", " ".join(repr(a) for a in step_argv(w, rec["step"])))}


# --------------------------------------------------------------------------- evaluation shared by the two checks

_SEG = re.compile(r'\[((?:"(?:[^"]|"")"%char(?:; )?)+)\]')


def pretty(v):
    """Coq's printing of fsop lists -> readable text (segments as strings, paths joined with '/')"""
    def seg(m):
        chars = re.findall(r'"((?:[^"]|""))"%char', m.group(1))
        return "<" + "".join('"' if c == '""' else c for c in chars) + ">"
    t = _SEG.sub(seg, v)
    t = re.sub(r"\[(<[^\[\]]*>(?:; <[^\[\]]*>)*)\]", lambda m: "/" + "/".join(x[1:-1] for x in m.group(1).split("; ")), t)
    return t


def evaluate(ctx, prop, out, stats, imports=("Base.Bytes", "Model.FsOps", "Model.Footprint", "Corr.CheckFootprint")):
    """oracles + correspondence for all records; fills ctx (violations, known hits, coverage)"""
    own = c12_oracle if prop == "C12" else c03_oracle
    other = c03_oracle if prop == "C12" else c12_oracle
    terms, owners = [], []
    nrec = ncalls = 0
    for w, recs in out:
        for rec in recs:
            if rec["parse_errors"] or rec["timed_out"]:
                raise common.BuildError("strace output not understood / timeout: %r %r" % (rec["parse_errors"], rec["stderr"]))
            nrec += 1
            ncalls += len(rec["calls"])
            dm = rec.get("direct", {}).get(prop)
            if dm or len(rec["calls"]) > 5000:
                inp = replay_input(rec)
                ctx.count((rec["hist"], rec["n"], json.dumps(rec["inject"], sort_keys=True)), nontrivial=True,
                          sample={"cmd": inp["cmd"], "layout": w.layout, "rc": rec["rc"], "violation": dm})
                ctx.violation("impl-violation", {"input": inp, "expected": dm or "the operation made more than 5000 mutating calls",
                                                 "observed": {"rc": rec["rc"], "killed": rec["killed"], "stderr": rec["stderr"],
                                                              "calls": ["%s %s%s" % (op[0], " -> ".join(str(x) for x in op[1:]), "" if ok else " [failed %s]" % e)
                                                                        for op, ok, _, e in rec["calls"]][:80]}})
                continue
            terms.append(allowed_term(w, rec))
            owners.append(("allowed", w, rec))
            cv = covers_terms(w, rec)
            if cv is not None:
                terms.append(cv[0])
                owners.append(("covers", w, rec, cv))
            else:
                if rec["rc"] == 0 and not rec["inject"]:
                    stats["covers_skipped_" + rec["step"]["op"]] = stats.get("covers_skipped_" + rec["step"]["op"], 0) + 1
            d, step = rec["d"], rec["step"]
            if step["op"] in ("commit", "upgrade") and not d["exists"] and not rec["inject"] and d.get("staged") is not None \
                    and (w.layout != "none" or step.get("object_root") is not None) and d.get("rel") is not None:
                refused_by_guard = rec["rc"] != 0 and "Cannot create object" in rec["stderr"]
                if rec["rc"] == 0 or refused_by_guard:
                    terms.append("check_guard %s %s %s %s" % (coq_pre(rec["pre"], d), P(w.root), d["rel_term"], "true" if rec["rc"] == 0 else "false"))
                    owners.append(("guard", w, rec))
                if rec["rc"] == 0:
                    renames = [op for op, ok, _, _ in rec["calls"] if ok and op[0] == "rename" and op[1] == d["S_o"]]
                    if renames:
                        terms.append("check_main_root %s %s %s" % (coq_cfg(w), coq_op(d), P(renames[0][2])))
                        owners.append(("mainroot", w, rec))
            if step["op"] == "new" and step.get("cdir") is not None and not rec["inject"]:
                refused_cdir = rec["rc"] != 0 and "The content directory" in rec["stderr"]
                if rec["rc"] == 0 or refused_cdir:
                    terms.append("check_cdir %s %s" % (B(step["cdir"]), "true" if rec["rc"] == 0 else "false"))
                    owners.append(("cdir", w, rec))
            if step["op"] in ("cp_ext", "cp_int", "mv_int") and step.get("hostile", "").startswith("dst-") and not rec["inject"]:
                refused_dst = rec["rc"] != 0 and "Paths may not contain" in rec["stderr"]
                if refused_dst or rec["rc"] == 0:
                    terms.append("check_lpath %s %s" % (B(step["dst"]), "true" if rec["rc"] == 0 else "false"))
                    owners.append(("lpath", w, rec))
            if step["op"] == "new" and rec["rc"] == 0 and not rec["inject"]:
                locks = [op[1] for op, ok, _, _ in rec["calls"] if ok and op[0] == "createnew" and "/rocfl-locks/" in op[1]]
                found = [o["root"] for o in rec["post"]["staged"] if o["id"] == step["id"].strip()]
                if locks and found:
                    terms.append("check_paths %s %s %s %s" % (coq_cfg(w), coq_op(d), P(found[0]), P(locks[0])))
                    owners.append(("paths", w, rec))
                terms.append("check_hashed %s" % B(d["hex"]))
                owners.append(("hashed", w, rec))
    res = common.coq_eval(prop.lower(), list(imports), terms) if terms else []
    detail_terms, detail_idx = [], []
    for n, (o, val) in enumerate(zip(owners, res)):
        if val != "true":
            if o[0] == "allowed":
                detail_terms.append(not_allowed_term(o[1], o[2]))
                detail_idx.append(n)
            elif o[0] == "covers":
                detail_terms += [o[3][1], o[3][2]]
                detail_idx += [n, n]
    details = {}
    if detail_terms:
        for n, v in zip(detail_idx, common.coq_eval(prop.lower() + "d", list(imports), detail_terms)):
            details.setdefault(n, []).append(pretty(v)[:3000])
    kinds = {}
    for n, (o, val) in enumerate(zip(owners, res)):
        kind, w, rec = o[0], o[1], o[2]
        step, d = rec["step"], rec["d"]
        inp = replay_input(rec)
        if kind == "allowed":
            inj = rec["inject"]
            injk = None if not inj else (inj.get("error") or inj.get("signal"))
            key = (step["op"], w.layout, w.stg_arg is not None, step.get("hostile"), rec["rc"] == 0, injk, len(rec["calls"]) > 0)
            kinds[(step["op"], "ok" if rec["rc"] == 0 else ("killed" if rec["killed"] else "refused"), injk)] = \
                kinds.get((step["op"], "ok" if rec["rc"] == 0 else ("killed" if rec["killed"] else "refused"), injk), 0) + 1
            ctx.count((rec["hist"], rec["n"], json.dumps(inj, sort_keys=True)), nontrivial=len(rec["calls"]) > 0,
                      sample={"cmd": inp["cmd"], "layout": w.layout, "rc": rec["rc"], "inject": inj, "calls": len(rec["calls"]),
                              "allowed": val})
            msg = rec["direct"][prop] if "direct" in rec else own(w, rec)
            if not msg and prop == "C12":
                msg = rec.get("validity_msg")
            observed = {"rc": rec["rc"], "killed": rec["killed"], "stderr": rec["stderr"],
                        "calls": ["%s %s%s" % (op[0], " -> ".join(str(x) for x in op[1:]), "" if ok else " [failed %s]" % e) for op, ok, _, e in rec["calls"]][:80]}
            if msg:
                ctx.violation("impl-violation", {"input": inp, "observed": observed, "expected": msg})
                continue
            if val != "true":
                msg2 = rec["direct"]["C03" if prop == "C12" else "C12"] if "direct" in rec else other(w, rec)
                if msg2:
                    ctx.violation("impl-violation", {"input": inp, "observed": observed, "expected": msg2})
                else:
                    common.corr_break(ctx, "Corr.CheckFootprint check_allowed (a traced call of the real operation is outside the model's footprint)",
                                      {"input": inp, "observed": observed, "not_allowed": details.get(n), "op": coq_op(d)})
        elif val != "true":
            what = {"covers": "check_covers (generating model vs. trace of a successful operation)",
                    "guard": "check_guard (validate_object_root / exists decides as the real commit)",
                    "mainroot": "check_main_root (object root of the new object)", "paths": "check_paths (staged root and lock file)",
                    "hashed": "check_hashed (staging layout = 0004 defaults)",
                    "cdir": "check_cdir (content directory accepted / refused as create_object does)",
                    "lpath": "check_lpath (destination accepted / refused as LogicalPath::try_from does)"}[kind]
            common.corr_break(ctx, "Corr.CheckFootprint " + what,
                              {"input": inp, "details": details.get(n), "term_head": terms[n][:600], "rc": rec["rc"], "stderr": rec["stderr"]})
    stats_out = dict(stats)
    stats_out["operations_traced"] = nrec
    stats_out["calls_checked"] = ncalls
    stats_out["coq_terms"] = len(terms)
    stats_out["covers_checked"] = sum(1 for o in owners if o[0] == "covers")
    stats_out["guard_checked"] = sum(1 for o in owners if o[0] == "guard")
    stats_out["absolute_ids"] = "point into the scratch tree (<outer>/abs-target...); none under layout 0007, where the tuples are cut from the id text"
    ctx.coverage["ops_by_kind_outcome_injection"] = {"%s/%s/%s" % k: v for k, v in sorted(kinds.items(), key=lambda x: str(x))}
    ctx.coverage["distribution"] = stats_out
    ctx.coverage["traces_validated_against_impl"] = nrec
    return stats_out
