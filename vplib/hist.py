"""History machinery shared by the checks: a session with the real library
(vh hist), scratch repositories, snapshots of directory trees, source-file
materialisation and the history generator (DESIGN.md 3.8, Appendix B)."""
import hashlib
import json
import os
import shutil
import subprocess

from . import common

LAYOUTS = {
    "0002": {"ext": "0002-flat-direct-storage-layout", "config": None},
    "0003": {"ext": "0003-hash-and-id-n-tuple-storage-layout", "config": None},
    "0004": {"ext": "0004-hashed-n-tuple-storage-layout", "config": None},
    "0004b": {"ext": "0004-hashed-n-tuple-storage-layout",
              "config": json.dumps({"extensionName": "0004-hashed-n-tuple-storage-layout",
                                    "digestAlgorithm": "md5", "tupleSize": 2, "numberOfTuples": 2,
                                    "shortObjectRoot": True})},
    "0003b": {"ext": "0003-hash-and-id-n-tuple-storage-layout",
              "config": json.dumps({"extensionName": "0003-hash-and-id-n-tuple-storage-layout",
                                    "digestAlgorithm": "sha512", "tupleSize": 1, "numberOfTuples": 4})},
    "0006": {"ext": "0006-flat-omit-prefix-storage-layout",
             "config": json.dumps({"extensionName": "0006-flat-omit-prefix-storage-layout", "delimiter": ":"})},
    "0007": {"ext": "0007-n-tuple-omit-prefix-storage-layout",
             "config": json.dumps({"extensionName": "0007-n-tuple-omit-prefix-storage-layout", "delimiter": ":",
                                   "tupleSize": 3, "numberOfTuples": 2, "zeroPadding": "left", "reverseObjectRoot": False})},
    "none": None,
}


class Session:
    """one `vh hist` process; call(cmd dict) -> result dict ({'ok':..}|{'err':{kind,msg}}|{'panic':..})"""

    def __init__(self, vh=None, env=None, wrapper=None):
        self.vh = vh or common.VH
        cmd = (wrapper or []) + [self.vh, "hist"]
        self.p = subprocess.Popen(cmd, stdin=subprocess.PIPE, stdout=subprocess.PIPE,
                                  stderr=subprocess.DEVNULL, env=env, text=True, bufsize=1)
        self.log = []

    def call(self, cmd, **kw):
        if isinstance(cmd, str):
            cmd = dict(cmd=cmd, **kw)
        self.p.stdin.write(json.dumps(cmd) + "\n")
        self.p.stdin.flush()
        line = self.p.stdout.readline()
        if not line:
            r = {"panic": "harness process died"}
        else:
            r = json.loads(line)
        self.log.append((cmd, r))
        return r

    def close(self):
        try:
            self.call("quit")
        except Exception:
            pass
        try:
            self.p.stdin.close()
            self.p.wait(timeout=10)
        except Exception:
            self.p.kill()


def res_class(r):
    """abstract result class used in comparisons: 'ok' | 'err:<Kind>' | 'panic'"""
    if "ok" in r:
        return "ok"
    if "panic" in r:
        return "panic"
    return "err:" + r["err"]["kind"]


# --------------------------------------------------------------------------- snapshots

def snapshot(root, with_bytes=lambda rel: False):
    """{relpath: ('d',) | ('f', size, sha256, sha512[, bytes]) | ('l', target) | ('o',)}"""
    out = {}
    if not os.path.lexists(root):
        return out
    for d, dirs, files in os.walk(root, followlinks=False):
        rel_d = os.path.relpath(d, root)
        if rel_d != ".":
            out[rel_d] = ("d",)
        for name in list(dirs):
            p = os.path.join(d, name)
            if os.path.islink(p):
                out[os.path.relpath(p, root)] = ("l", os.readlink(p))
                dirs.remove(name)
        for name in files:
            p = os.path.join(d, name)
            rel = os.path.relpath(p, root)
            if os.path.islink(p):
                out[rel] = ("l", os.readlink(p))
            elif os.path.isfile(p):
                data = open(p, "rb").read()
                e = ("f", len(data), hashlib.sha256(data).hexdigest(), hashlib.sha512(data).hexdigest())
                if with_bytes(rel):
                    e = e + (data,)
                out[rel] = e
            else:
                out[rel] = ("o",)
    return out


def snap_diff(a, b):
    """list of (path, before, after) for entries that differ (ignoring attached bytes)"""
    out = []
    for k in sorted(set(a) | set(b)):
        x, y = a.get(k), b.get(k)
        if (x[:4] if x else None) != (y[:4] if y else None):
            out.append((k, x[:4] if x else None, y[:4] if y else None))
    return out


def under(path, prefix):
    return path == prefix or path.startswith(prefix.rstrip("/") + "/")


# --------------------------------------------------------------------------- scratch repository

CONTENTS = [b"", b"A", b"hello world\n", b"HELLO WORLD\n", b"dup-content", bytes(range(256)) * 3,
            bytes((i * 7 + 3) % 251 for i in range(1 << 20)) + b"tail"]
N_COMMON = len(CONTENTS)      # the generators draw from these, so that contents collide
# contents reserved for targeted shapes that need bytes the object has never held before
CONTENTS += [b"reserved content %d\n" % k for k in range(40)]


class Scratch:
    """a scratch directory with storage root, staging root(s) and a source area"""

    def __init__(self, ctx, name):
        self.base = os.path.join(ctx.tmp, name)
        shutil.rmtree(self.base, ignore_errors=True)
        os.makedirs(self.base)
        self.root = os.path.join(self.base, "root")
        self.src = os.path.join(self.base, "src")
        os.makedirs(self.src)
        self.nsrc = 0

    def staging(self, name="stg"):
        return os.path.join(self.base, name)

    def source_file(self, relname, content):
        """materialise one external source file; returns its absolute path"""
        self.nsrc += 1
        d = os.path.join(self.src, "s%d" % self.nsrc)
        p = os.path.join(d, relname)
        os.makedirs(os.path.dirname(p), exist_ok=True)
        with open(p, "wb") as f:
            f.write(content)
        return p

    def source_dir(self, dirname, files):
        """materialise a directory {relpath: bytes}; returns the directory's absolute path"""
        self.nsrc += 1
        d = os.path.join(self.src, "s%d" % self.nsrc, dirname)
        os.makedirs(d, exist_ok=True)
        for rel, content in files.items():
            p = os.path.join(d, rel)
            os.makedirs(os.path.dirname(p), exist_ok=True)
            with open(p, "wb") as f:
                f.write(content)
        return d

    def cleanup(self):
        shutil.rmtree(self.base, ignore_errors=True)


# --------------------------------------------------------------------------- inventories on disk

def read_inventory(obj_root):
    """parsed inventory.json of an object root (python json), or None"""
    try:
        return json.load(open(os.path.join(obj_root, "inventory.json"), encoding="utf-8"))
    except (OSError, ValueError):
        return None


def find_object_roots(root, skip_extensions=True):
    """all directories under root that contain a file starting with 0=ocfl_object_ (model-free scan)"""
    out = []
    for d, dirs, files in os.walk(root):
        if skip_extensions and d == root and "extensions" in dirs:
            dirs.remove("extensions")
        if any(f.startswith("0=ocfl_object_") for f in files):
            out.append(d)
            dirs[:] = []
    return sorted(out)


# --------------------------------------------------------------------------- configurations and generator

def configurations(rng, n):
    """rotating creation configurations (DESIGN.md 3.8)"""
    out = []
    keys = ["0004", "0003", "0002", "0006", "0007", "none", "0004b", "0003b"]
    for i in range(n):
        repo_spec = rng.choice(["1.0", "1.1", "1.1"])
        out.append({
            "layout": keys[i % len(keys)],
            "repo_spec": repo_spec,
            "obj_spec": rng.choice(["1.0", repo_spec]) if repo_spec == "1.1" else "1.0",
            "alg": rng.choice(["sha512", "sha256"]),
            "cdir": rng.choice(["content", "content", "stuff", "c d"]),
            "pad": rng.choice([0, 0, 2, 4]),
            "ext_staging": rng.random() < 0.3,
            "fresh_handle": rng.random() < 0.3,
        })
    return out


# small universe so that operations collide; "dir2/sub" and "n" are FILES named like directories elsewhere
# ("dir/sub/...", "<moved dir>/n/o.txt"): copying both trees into one destination makes one name a file and a directory
NAMES = ["a.txt", "b.txt", "dir/c.txt", "dir/d.txt", "dir/sub/e.txt", "x y.txt", "dir2/a.txt", "f", "dir/sub/f", "ü.txt",
         "dir2/sub", "n"]


def obj_id(cfg, k):
    """benign object ids suitable for the layout of the configuration"""
    if cfg["layout"] in ("0006", "0007"):
        return "urn:obj:%03d" % k
    if cfg["layout"] == "0002" and k > 0:
        return "coll/2024/obj-%d" % k       # flat-direct: ids with '/' nest object roots below plain directories
    return "obj-%d" % k


def purge_scenario(cfg):
    """scripted history: three committed objects (one with staged changes), then purge and reset-all of every
    never-existing id related to them - each must change nothing (checked by the C08 hook)"""
    ids = [obj_id(cfg, k) for k in range(3)]
    ops = []
    for k, o in enumerate(ids):
        ops += [{"op": "new", "id": o},
                {"op": "cp_ext", "id": o, "files": [["a.txt", k + 1]], "dst": "a.txt", "recursive": False},
                {"op": "commit", "id": o}]
    ops.append({"op": "cp_ext", "id": ids[2], "files": [["b.txt", 2]], "dst": "dir/b.txt", "recursive": False})
    lay = cfg["layout"]
    if lay == "0002":
        rels = ids
    elif lay in ("0006", "0007"):
        rels = [o.split(":")[-1] for o in ids]
    else:
        rels = []
    for x in stranger_ids(cfg, rels):
        if x not in ids:
            ops.append({"op": "purge", "id": x})
            ops.append({"op": "reset_all", "id": x})
    ops.append({"op": "purge", "id": ids[1]})
    return ops


def mv_guard_scenario(cfg):
    """scripted history (external staging, fresh handle per operation): object B gets staged new content, then an
    external mv into object A names B's staged content file, B's staged object directory, a committed content file
    of A and the storage root as sources - each must be refused and change nothing (C08 hook: the staged form of
    B, the main repository).  `literal_src` entries are resolved by the runner against the scratch roots."""
    a, b = obj_id(cfg, 0), obj_id(cfg, 2)
    ops = [{"op": "new", "id": a}, {"op": "cp_ext", "id": a, "files": [["a.txt", 1]], "dst": "a.txt", "recursive": False},
           {"op": "commit", "id": a},
           {"op": "new", "id": b}, {"op": "cp_ext", "id": b, "files": [["b.txt", 2]], "dst": "b.txt", "recursive": False},
           {"op": "commit", "id": b},
           {"op": "cp_ext", "id": b, "files": [["bnew.txt", N_COMMON + 1]], "dst": "bnew.txt", "recursive": False}]
    for lit in (["staged-file", b, "bnew.txt"], ["staged-root", b], ["committed-file", a, "a.txt"], ["storage-root"], ["staging-root"]):
        ops.append({"op": "mv_ext", "id": a, "literal_src": [lit], "dst": "taken"})
    ops.append({"op": "commit", "id": b})
    return ops


def hostile_root_scenarios():
    """scripted histories (C01): a NEW object is committed at object roots (no layout: `commit -r`; flat-direct
    layout: the id is the path) that name a place inside another object, beside the storage root, or contain
    `.` / `..` / empty components before or after components that do not exist yet.  Whatever rocfl answers, the
    storage tree must stay a valid OCFL hierarchy (no nested object, no empty directory, nothing beside the root);
    the last, harmless root must be accepted.  All targets stay inside the scratch directory."""
    out = []
    base = {"repo_spec": "1.1", "obj_spec": "1.1", "alg": "sha512", "cdir": "content", "pad": 0, "ext_staging": False}
    roots = ["a", "a/inner", "tmp/../a/inner", "ghost/../../escaped", "a/../b", "./c/./d", "x//y", "new/sub/../../a/v1/content/deep",
             "a/v1", "extensions/e", "q/..", "fine/o2"]
    for fresh in (False, True):
        cfg = dict(base, layout="none", fresh_handle=fresh)
        ops = [{"op": "new", "id": "obj-0"}, {"op": "cp_ext", "id": "obj-0", "files": [["a.txt", 1]], "dst": "a.txt", "recursive": False},
               {"op": "commit", "id": "obj-0", "object_root": "a"},
               {"op": "new", "id": "obj-1"}, {"op": "cp_ext", "id": "obj-1", "files": [["b.txt", 2]], "dst": "b.txt", "recursive": False},
               # the same new content under two names (de-duplicated by every commit attempt, put back after each refusal),
               # one of them a name the occupant of root `a` has too
               {"op": "cp_ext", "id": "obj-1", "files": [["a.txt", N_COMMON + 2]], "dst": "a.txt", "recursive": False},
               {"op": "cp_ext", "id": "obj-1", "files": [["c.txt", N_COMMON + 2]], "dst": "c.txt", "recursive": False}]
        for r in roots:
            ops.append({"op": "commit", "id": "obj-1", "object_root": r})
        out.append((cfg, ops))
    cfg = dict(base, layout="0002", fresh_handle=False)
    ops = [{"op": "new", "id": "a"}, {"op": "cp_ext", "id": "a", "files": [["a.txt", 1]], "dst": "a.txt", "recursive": False},
           {"op": "commit", "id": "a"}]
    for k, r in enumerate(roots[1:]):            # (the id `a` itself is the existing object, not a hostile one)
        ops += [{"op": "new", "id": r}, {"op": "cp_ext", "id": r, "files": [["b.txt", 2 + k]], "dst": "b.txt", "recursive": False},
                {"op": "commit", "id": r}]
    out.append((cfg, ops))
    return out


def upgrade_scenarios():
    """scripted histories (C01): an object created under the OLDER specification in a 1.1 repository is upgraded
    before its first commit (the upgrade installs v1), after it with staged changes, and after it without any;
    every installed object must declare the version its inventories have"""
    out = []
    for n, (lay, alg, pad, cdir, ext) in enumerate([("0004", "sha512", 0, "content", False), ("none", "sha256", 3, "stuff", True),
                                                     ("0002", "sha512", 0, "content", False)]):
        cfg = {"layout": lay, "repo_spec": "1.1", "obj_spec": "1.0", "alg": alg, "cdir": cdir, "pad": pad,
               "ext_staging": ext, "fresh_handle": n % 2 == 1}
        a, b, c = obj_id(cfg, 0), obj_id(cfg, 1), obj_id(cfg, 2)
        cp = lambda o, name, k: {"op": "cp_ext", "id": o, "files": [[name, k]], "dst": name, "recursive": False}
        ops = [{"op": "new", "id": a}, cp(a, "a.txt", 1), {"op": "upgrade_object", "id": a, "spec": "1.1"},
               cp(a, "b.txt", 2), {"op": "commit", "id": a},
               {"op": "new", "id": b}, cp(b, "a.txt", 1), {"op": "commit", "id": b}, cp(b, "b.txt", 3),
               {"op": "upgrade_object", "id": b, "spec": "1.1"}, cp(b, "c.txt", 4), {"op": "commit", "id": b},
               {"op": "new", "id": c}, cp(c, "a.txt", 5), {"op": "commit", "id": c},
               {"op": "upgrade_object", "id": c, "spec": "1.1"}, {"op": "upgrade_object", "id": c, "spec": "1.1"},
               cp(c, "d.txt", 6), {"op": "commit", "id": c}]
        out.append((cfg, ops))
    return out


def backslash_scenarios():
    """scripted histories (C01): file names containing a backslash - an ordinary character of a name on this
    platform - are copied to literal destinations (no glob argument names them: there the backslash is the escape
    character) and committed, in a first and in a later version; every manifest path must have its file"""
    out = []
    for n, (lay, cdir, pad) in enumerate([("0004", "content", 0), ("0002", "data", 3)]):
        cfg = {"layout": lay, "repo_spec": "1.1", "obj_spec": "1.1", "alg": ("sha512", "sha256")[n], "cdir": cdir, "pad": pad,
               "ext_staging": n == 1, "fresh_handle": n == 1}
        o = obj_id(cfg, 0)
        cp = lambda src, dst, k: {"op": "cp_ext", "id": o, "files": [[src, k]], "dst": dst, "recursive": False}
        ops = [{"op": "new", "id": o}, cp("p.txt", "plain.txt", 1), cp("r.txt", "reports\\2024.txt", N_COMMON + 4),
               {"op": "commit", "id": o},
               cp("c.txt", "dir/sub/c\\d.txt", N_COMMON + 5), cp("e.txt", "e\\f.txt", N_COMMON + 6), cp("q.txt", "dir/q.txt", 2),
               {"op": "commit", "id": o, "pretty": True}]
        out.append((cfg, ops))
    return out


def stranger_ids(cfg, main_rel_roots):
    """ids of objects that NEVER exist in the history but whose layout path is related to an existing object's
    root (a prefix directory, a path inside it, another id mapped to the same root) plus degenerate ids:
    purge / reset-all of such an id must change nothing"""
    out = [".", "extensions", "no-such-object"]
    lay = cfg["layout"]
    for rel in main_rel_roots:
        parts = rel.split("/")
        if lay == "0002":
            out += ["/".join(parts[:k]) for k in range(1, len(parts))]
            out += [rel + "/v1", rel + "/v1/content", rel + "/extensions"]
        elif lay == "0006":
            out += ["other:" + parts[-1], "x:y:" + parts[-1]]
        elif lay == "0007":
            # (an id ending with the delimiter cannot be mapped: rocfl refuses it by panicking, C11's business)
            out += ["other:" + (parts[-1].lstrip("0") or "0"), "zz:" + parts[-1]]
    return sorted(set(out))


def gen_history(rng, cfg, length, n_objects=2):
    """abstract history: list of op dicts over a small universe so that operations collide.
    External sources are described abstractly ('files': [[relname, content index]...]) and
    materialised by run_history."""
    ids = [obj_id(cfg, k) for k in range(n_objects)]
    ops = []
    created = set()
    committed = {}
    for _ in range(length):
        oid = rng.choice(ids)
        if oid not in created:
            ops.append({"op": "new", "id": oid})
            created.add(oid)
            continue
        r = rng.random()
        if r < 0.30:
            nm = rng.choice(NAMES)
            style = rng.random()
            if style < 0.6:
                ops.append({"op": "cp_ext", "id": oid, "files": [[os.path.basename(nm), rng.randrange(N_COMMON)]], "dst": nm, "recursive": False})
            elif style < 0.8:
                ops.append({"op": "cp_ext", "id": oid,
                            "files": [[rng.choice(["p.txt", "q.txt"]), rng.randrange(N_COMMON)] for _ in range(2)],
                            "dst": rng.choice(["dir", "dir/", "/", "newdir/"]), "recursive": False})
            else:
                ops.append({"op": "mv_ext", "id": oid,
                            "dir": ["d%d" % rng.randrange(2), {"m.txt": rng.randrange(N_COMMON), "n/o.txt": rng.randrange(N_COMMON)}],
                            "dst": rng.choice(["dir", "moved", "/"])})
        elif r < 0.42:
            ops.append({"op": rng.choice(["cp_int", "cp_int", "mv_int"]), "id": oid,
                        "version": rng.choice([None, None, 1, 2]),
                        "src": [rng.choice(NAMES + ["dir", "dir/*", "*.txt", "dir/sub"])],
                        "dst": rng.choice(NAMES + ["dir/", "new/", "/", "dir"]), "recursive": rng.random() < 0.5})
        elif r < 0.52:
            ops.append({"op": "rm", "id": oid, "paths": [rng.choice(NAMES + ["dir", "dir/*", "*"])], "recursive": rng.random() < 0.5})
        elif r < 0.60:
            ops.append({"op": "reset", "id": oid, "paths": [rng.choice(NAMES + ["dir", "*"])], "recursive": rng.random() < 0.5})
        elif r < 0.63:
            ops.append({"op": "reset_all", "id": oid})
        elif r < 0.90:
            ops.append({"op": "commit", "id": oid})
            committed[oid] = committed.get(oid, 0) + 1
        elif r < 0.94 and cfg["repo_spec"] == "1.1":
            ops.append({"op": "upgrade_object", "id": oid, "spec": "1.1"})
        elif r < 0.97:
            ops.append({"op": "purge", "id": oid})
            created.discard(oid)
        else:
            ops.append({"op": "commit", "id": oid})
    return ops


class Runner:
    """executes abstract history ops against a scratch repository through a Session"""

    def __init__(self, ctx, cfg, name, session=None, handle="A", init=True):
        self.ctx, self.cfg, self.h = ctx, cfg, handle
        self.sc = Scratch(ctx, name)
        self.s = session or Session()
        self.own_session = session is None
        self.root = self.sc.root
        self.stg = self.sc.staging() if cfg.get("ext_staging") else None
        self.staging_root = self.stg or os.path.join(self.root, "extensions", "rocfl-staging")
        self.ncommit = 0
        self.ingested = {}   # (id) -> {logical path: bytes} is kept by callers that need it
        if init:
            r = self.s.call("init", h=handle, root=self.root, staging=self.stg, spec=cfg["repo_spec"],
                            layout=LAYOUTS[cfg["layout"]])
            if "ok" not in r:
                raise common.BuildError("cannot init scratch repository: %r" % (r,))

    def reopen(self):
        self.s.call("drop", h=self.h)
        r = self.s.call("open", h=self.h, root=self.root, staging=self.stg)
        if "ok" not in r:
            raise common.BuildError("cannot reopen scratch repository: %r" % (r,))

    def concrete(self, op):
        """abstract op -> harness command (materialising sources)"""
        o, h, cfg = op["op"], self.h, self.cfg
        if o == "new":
            return dict(cmd="new", h=h, id=op["id"], spec=op.get("spec", cfg["obj_spec"]), alg=op.get("alg", cfg["alg"]),
                        cdir=op.get("cdir", cfg["cdir"]), pad=op.get("pad", cfg["pad"]))
        if o == "cp_ext":
            src = [self.sc.source_file(n, CONTENTS[c] if isinstance(c, int) else c) for n, c in op["files"]]
            if "dir" in op:
                dn, files = op["dir"]
                src.append(self.sc.source_dir(dn, {k: (CONTENTS[v] if isinstance(v, int) else v) for k, v in files.items()}))
            if op.get("missing"):
                src.append(os.path.join(self.sc.src, "nope", "missing.txt"))
            return dict(cmd="cp_ext", h=h, id=op["id"], src=src, dst=op["dst"], recursive=op.get("recursive", False))
        if o == "mv_ext":
            src = []
            for lit in op.get("literal_src", []):
                src.append(self.literal_source(lit))
            if "files" in op:
                src += [self.sc.source_file(n, CONTENTS[c] if isinstance(c, int) else c) for n, c in op["files"]]
            if "dir" in op:
                dn, files = op["dir"]
                src.append(self.sc.source_dir(dn, {k: (CONTENTS[v] if isinstance(v, int) else v) for k, v in files.items()}))
            if op.get("missing"):
                src.append(os.path.join(self.sc.src, "nope", "missing.txt"))
            return dict(cmd="mv_ext", h=h, id=op["id"], src=src, dst=op["dst"])
        if o == "cp_int":
            return dict(cmd="cp_int", h=h, id=op["id"], version=op.get("version"), src=op["src"], dst=op["dst"],
                        recursive=op.get("recursive", False))
        if o == "mv_int":
            return dict(cmd="mv_int", h=h, id=op["id"], src=op["src"], dst=op["dst"])
        if o in ("rm", "reset"):
            return dict(cmd=o, h=h, id=op["id"], paths=op["paths"], recursive=op.get("recursive", False))
        if o in ("reset_all", "purge"):
            return dict(cmd=o, h=h, id=op["id"])
        if o == "commit":
            self.ncommit += 1
            d = dict(cmd="commit", h=h, id=op["id"], name=op.get("name", "user %d" % self.ncommit),
                     address=op.get("address", "mailto:u%d@example.org" % self.ncommit),
                     message=op.get("message", "commit %d" % self.ncommit),
                     created=op.get("created", "2021-03-%02dT10:00:%02dZ" % (1 + self.ncommit % 28, self.ncommit % 60)),
                     pretty=op.get("pretty", self.ncommit % 3 == 0))
            if self.cfg["layout"] == "none":
                d["object_root"] = op.get("object_root", "objs/" + hashlib.md5(op["id"].encode()).hexdigest()[:8])
            elif "object_root" in op:
                d["object_root"] = op["object_root"]
            return d
        if o == "upgrade_object":
            self.ncommit += 1
            return dict(cmd="upgrade_object", h=h, id=op["id"], spec=op["spec"], name="upgrader",
                        address="mailto:up@example.org", message="upgrade %d" % self.ncommit,
                        created="2022-01-01T00:00:%02dZ" % (self.ncommit % 60))
        if o == "upgrade_repo":
            return dict(cmd="upgrade_repo", h=h, spec=op["spec"])
        raise ValueError(o)

    def literal_source(self, lit):
        """absolute path of a place INSIDE the repository (hostile mv source)"""
        kind = lit[0]
        if kind == "storage-root":
            return self.root
        if kind == "staging-root":
            return self.staging_root
        h = hashlib.sha256(lit[1].encode("utf-8")).hexdigest()
        sroot = os.path.join(self.staging_root, h[0:3], h[3:6], h[6:9], h)
        if kind == "staged-root":
            return sroot
        if kind == "staged-file":
            inv = read_inventory(sroot) or {}
            return os.path.join(sroot, inv.get("head", "v1"), inv.get("contentDirectory", self.cfg["cdir"]), lit[2])
        if kind == "committed-file":
            for r in find_object_roots(self.root):
                inv = read_inventory(r)
                if inv and inv.get("id") == lit[1]:
                    for cps in inv["manifest"].values():
                        for cp in cps:
                            if cp.endswith("/" + lit[2]):
                                return os.path.join(r, cp)
            return os.path.join(self.root, "no-such-committed-file")
        raise ValueError(lit)

    def driver_action(self, op):
        """something a third party (or an interrupted earlier run) did to the main repository: {"op": "driver",
        "action": "mkdir" | "rmtree", "id": <object id>, "rel": <path below the object root>}"""
        target = None
        for r in find_object_roots(self.root):
            inv = read_inventory(r)
            if inv and inv.get("id") == op["id"]:
                target = os.path.join(r, op["rel"])
        if target is None:
            return dict(cmd="driver", **op), {"err": {"kind": "NotFound", "msg": "no such object"}}
        if op["action"] == "mkdir":
            os.makedirs(target, exist_ok=True)
        elif op["action"] == "rmtree":
            shutil.rmtree(target, ignore_errors=True)
        else:
            raise ValueError(op)
        return dict(cmd="driver", **op), {"ok": {}}

    def step(self, op):
        if op["op"] == "driver":
            return self.driver_action(op)
        if self.cfg.get("fresh_handle"):
            self.reopen()
        cmd = self.concrete(op)
        return cmd, self.s.call(cmd)

    def snap_main(self):
        """snapshot of the storage root without the default staging/locks extension dirs"""
        s = snapshot(self.root)
        # the default staging root lives in <root>/extensions: creating that directory is part of
        # creating the staging root, so the bare directory entry is not main-repository data
        return {k: v for k, v in s.items()
                if not under(k, "extensions/rocfl-staging") and not under(k, "extensions/rocfl-locks")
                and not (k == "extensions" and v == ("d",))}

    def snap_staging(self):
        return snapshot(self.staging_root)

    def object_roots(self):
        return find_object_roots(self.root)

    def close(self):
        if self.own_session:
            self.s.close()
        self.sc.cleanup()
