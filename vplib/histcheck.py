"""Common driver of the history-based checks (C01, C02, C08, C09)."""
import collections
import copy

from . import common, hist, histeval, histrun


def op_replay(run, upto):
    return {"config": run.cfg, "history": [s.op for s in run.steps[:upto + 1]],
            "commands": [s.cmd for s in run.steps[:upto + 1]][-3:]}


def run_history_check(ctx, proof, hook, n_hist, length, rule, final_commit=False, coq_steps=True,
                      known_classifier=None, extra_evidence=None, scripted=()):
    """hook(run, st) fills st.findings[ctx.prop] with messages (model-free oracle, at step time).
    known_classifier(run, st, msg) -> known-finding id or None."""
    common.build_harness()
    ok, log = common.coq_make(["theories/Corr/CheckStage.vo"])
    if not ok:
        raise common.BuildError("Corr/CheckStage.v does not build:\n" + log[-3000:])
    rng = ctx.rng
    runs = []
    stats = collections.Counter()
    cfgs = hist.configurations(rng, n_hist)
    all_steps = []
    jobs = [(cfg, None) for cfg in cfgs] + list(scripted)       # scripted: (configuration, list of ops) run as given
    for i, (cfg, script) in enumerate(jobs):
        run = histrun.HistoryRun(ctx, cfg, "h%d" % i, length if script is None else len(script), rng, hooks=[hook])
        if script is not None:
            run.preamble = list(script)
        try:
            run.run()
            if final_commit:
                # every staged object must still be committable
                for oid in run.ids:
                    if run.staged_inv(oid) is not None:
                        st = histrun.Step()
                        st.k, st.op, st.pre = len(run.steps), {"op": "commit", "id": oid}, run.view()
                        st.pre_main_snap, st.pre_stg_snap = run.r.snap_main(), run.r.snap_staging()
                        st.cmd, st.res = run.r.step(st.op)
                        st.rc = hist.res_class(st.res)
                        st.post = run.view()
                        st.post_main_snap, st.post_stg_snap = run.r.snap_main(), run.r.snap_staging()
                        st.staged_probe, st.committed_probe, st.findings = None, None, {}
                        st.final = True
                        hook(run, st)
                        run.steps.append(st)
        finally:
            run.close()
        runs.append(run)
        for st in run.steps:
            all_steps.append((run, st))
            stats[(st.op["op"], st.rc)] += 1
    ev = histeval.eval_steps([s for _, s in all_steps], ctx.prop.lower()) if coq_steps else [(s, None) for _, s in all_steps]
    outcome = collections.Counter()
    for (run, st), (_, r) in zip(all_steps, ev):
        outcome[r] += 1
        msgs = st.findings.get(ctx.prop) or []
        key = (st.op["op"], st.rc, tuple(sorted((k, str(v)) for k, v in st.op.items() if k not in ("id",))))
        ctx.count(key, nontrivial=(st.rc != "err:NotFound"),
                  sample={"config": run.cfg["layout"], "op": st.op, "result": st.rc, "model": r})
        real = []
        for m in msgs:
            kid = known_classifier(run, st, m) if known_classifier else None
            if kid:
                ctx.known_hit(kid)
            else:
                real.append(m)
        if real:
            ctx.violation("impl-violation", dict(op_replay(run, st.k), observed=real[:5], step=st.k))
        elif r == "0":
            common.corr_break(ctx, "Corr.CheckStage step (Model/Staging.v + Model/Inventory.v vs repo.rs/inventory.rs)",
                              dict(op_replay(run, st.k), step=st.k, result=st.rc))
    ctx.coverage["traces_validated_against_impl"] = sum(1 for _, r in ev if r in ("0", "1", "2"))
    ctx.coverage["step_outcomes"] = {str(k): v for k, v in outcome.items()}
    ctx.coverage["distribution"] = {"%s/%s" % k: v for k, v in sorted(stats.items())}
    ctx.coverage["histories"] = n_hist
    ctx.coverage["scripted_histories"] = len(scripted)
    shapes = collections.Counter()
    for run in runs:
        shapes.update(run.shapes)
    ctx.coverage["targeted_shapes"] = dict(shapes)
    if extra_evidence:
        ctx.coverage.update(extra_evidence)
    return common.finish_with_proof(ctx, proof, rule=rule)
