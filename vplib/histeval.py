"""Per-step refinement terms (Corr.CheckStage) and the model-free oracles of the
history-based properties."""
import hashlib
import os

from . import absinv, common, hist, histrun, ocflv
from .common import coq_str, coq_bool


def esrc_terms(op, alg, toks):
    out = []
    for name, c in op.get("files", []):
        data = hist.CONTENTS[c] if isinstance(c, int) else c
        out.append("EFile %s %d" % (coq_str(os.path.basename(name)), toks.tok(hashlib.new(alg, data).hexdigest())))
    if "dir" in op:
        dn, files = op["dir"]
        ents = []
        for rel in sorted(files):
            c = files[rel]
            data = hist.CONTENTS[c] if isinstance(c, int) else c
            ents.append("(%s, %d)" % (absinv.coq_lpath(rel), toks.tok(hashlib.new(alg, data).hexdigest())))
        out.append("EDir %s [%s]" % (coq_str(dn), "; ".join(ents)))
    if op.get("missing"):
        out.append("EMissing")
    return "[" + "; ".join(out) + "]"


def pre_term(st, oid, toks):
    """the staged inventory the operation starts from (ensure_staged), or None"""
    sinv = st.pre["staged"].get(oid)
    if sinv is not None:
        return absinv.abs_inventory(sinv, toks), sinv
    if oid in st.pre["main"]:
        minv = st.pre["main"][oid][1]
        return "(create_staging_head %s)" % absinv.abs_inventory(minv, toks), minv
    return None, None


def step_term(st):
    """Coq term (of type N: 1 agree / 0 disagree / 2 order-sensitive) for one step, or None
    when the step is outside the refinement check (reads, failing preconditions...)."""
    op = st.op
    o = op["op"]
    oid = op.get("id")
    toks = absinv.Tokens()
    try:
        if o == "new":
            if st.rc != "ok":
                return None
            return "check_new %s" % absinv.abs_inventory(st.post["staged"][oid], toks)
        if op.get("literal_src"):
            return None        # hostile mv sources inside the repository: refused before staging (C08/C12 oracles)
        if o in ("cp_ext", "mv_ext", "cp_int", "mv_int", "rm", "reset"):
            pre, pinv = pre_term(st, oid, toks)
            if pre is None:
                return None
            post_inv = st.post["staged"].get(oid)
            if o == "reset" and st.pre["staged"].get(oid) is None:
                return None        # reset of an object without staged changes is a no-op (checked by the oracle)
            if post_inv is None:
                return None
            post = absinv.abs_inventory(post_inv, toks)
            rc = histrun.coq_rc(st.rc)
            alg = pinv.get("digestAlgorithm", "sha512")
            if o in ("cp_ext", "mv_ext"):
                rec = True if o == "mv_ext" else op.get("recursive", False)
                return "check_ext %s %s %s %s %s %s" % (esrc_terms(op, alg, toks), coq_str(op["dst"]), coq_bool(rec), pre, post, rc)
            if o in ("cp_int", "mv_int"):
                v = op.get("version") if o == "cp_int" else None
                rec = True if o == "mv_int" else op.get("recursive", False)
                return "check_int %s %s %s %s %s %s %s %s" % (
                    coq_bool(o == "mv_int"), "None" if v is None else "(Some %d)" % v,
                    "[" + "; ".join(coq_str(g) for g in op["src"]) + "]", coq_str(op["dst"]), coq_bool(rec), pre, post, rc)
            if o == "rm":
                return "check_rm %s %s %s %s %s" % ("[" + "; ".join(coq_str(g) for g in op["paths"]) + "]",
                                                    coq_bool(op.get("recursive", False)), pre, post, rc)
            return "check_reset %s %s %s %s %s" % ("[" + "; ".join(coq_str(g) for g in op["paths"]) + "]",
                                                   coq_bool(op.get("recursive", False)), pre, post, rc)
        if o == "commit" and st.rc.startswith("err") and st.pre["staged"].get(oid) is not None \
                and st.post["staged"].get(oid) is not None:
            # a refused / failed commit: the staged inventory is unchanged or what refused_commit says (890d206)
            pre, pinv = pre_term(st, oid, toks)
            return "check_refused_commit %s %s" % (pre, absinv.abs_inventory(st.post["staged"][oid], toks))
        if o in ("commit", "upgrade_object"):
            if st.rc != "ok":
                return None
            pre, pinv = pre_term(st, oid, toks)
            if pre is None or oid not in st.post["main"]:
                return None
            return "check_commit %s %s" % (pre, absinv.abs_inventory(st.post["main"][oid][1], toks))
    except (ValueError, KeyError) as e:
        return None
    return None


STAGE_IMPORTS = ["Base.Bytes", "Model.Inventory", "Model.InvSpec", "Model.Staging", "Corr.CheckStage"]


def eval_steps(steps, name):
    """-> list of (step, outcome) with outcome in {'1','0','2',None}"""
    terms, idx = [], []
    for st in steps:
        t = step_term(st)
        if t is not None:
            terms.append(t)
            idx.append(st)
    res = common.coq_eval(name, STAGE_IMPORTS, terms, batch=60) if terms else []
    m = {id(s): r for s, r in zip(idx, res)}
    return [(st, m.get(id(st))) for st in steps]


# ---------------------------------------------------------------- model-free oracles

def no_empty_dirs(root):
    out = []
    for d, dirs, files in os.walk(root):
        if not dirs and not files:
            out.append(d)
    return out


def c01_oracle(run, st):
    """after a successful commit/upgrade/purge: the storage root and every object are valid
    (independent validator), every version directory has inventory + sidecar, no empty dir,
    at most one new content file per new digest.  Returns list of messages."""
    msgs = []
    root = run.r.root
    oroots = hist.find_object_roots(root)
    for c, m in ocflv.validate_storage_root(root, oroots):
        msgs.append("storage root: %s %s" % (c, m))
    for orr in oroots:
        for c, m in ocflv.validate_object(orr):
            msgs.append("%s: %s %s" % (os.path.relpath(orr, root), c, m))
        inv = hist.read_inventory(orr)
        if inv is None:
            continue
        alg = inv.get("digestAlgorithm", "sha512")
        for v in inv.get("versions", {}):
            vd = os.path.join(orr, v)
            if not os.path.isfile(os.path.join(vd, "inventory.json")) or not os.path.isfile(os.path.join(vd, "inventory.json." + alg)):
                msgs.append("%s/%s lacks its inventory or sidecar" % (os.path.relpath(orr, root), v))
        for e in no_empty_dirs(orr):
            msgs.append("empty directory %s" % os.path.relpath(e, root))
        # nested object roots
        for d, dirs, files in os.walk(orr):
            if d != orr and any(f.startswith("0=ocfl_object_") for f in files):
                msgs.append("object nested in %s" % os.path.relpath(orr, root))
    oid = st.op.get("id")
    if st.op["op"] in ("commit", "upgrade_object") and st.rc == "ok" and oid in st.post["main"]:
        orr, inv = st.post["main"][oid]
        head = inv["head"]
        cdir = inv.get("contentDirectory", "content")
        alg = inv.get("digestAlgorithm", "sha512")
        old = set()
        if oid in st.pre["main"]:
            old = set(d.lower() for d in st.pre["main"][oid][1]["manifest"])
        seen = {}
        base = os.path.join(orr, head, cdir)
        for d, _, files in os.walk(base):
            for f in files:
                dg = hashlib.new(alg, open(os.path.join(d, f), "rb").read()).hexdigest()
                seen[dg] = seen.get(dg, 0) + 1
        for dg, n in seen.items():
            if dg in old:
                msgs.append("commit stored a content file whose digest the object already held")
            if n > 1:
                msgs.append("commit stored %d files with the same digest" % n)
    return msgs


def c09_staged_oracle(run, st):
    """the staged object is readable: every listed staged path returns bytes with the listed digest,
    head-version manifest entries have their file, and commit-ability is checked by later steps"""
    msgs = []
    oid = st.op.get("id")
    pr = st.staged_probe
    inv = st.post["staged"].get(oid) if oid else None
    if inv is None:
        return msgs
    if pr is None:
        return msgs
    if pr["listing"] is None:
        msgs.append("staged object cannot be opened after %s (%s): %s" % (st.op["op"], st.rc, pr["listing_res"]))
        return msgs
    hs = absinv.head_state_map(inv)
    if pr["listing"] != hs:
        msgs.append("get_staged_object listing differs from the staged inventory on disk")
    alg = inv.get("digestAlgorithm", "sha512")
    # a path can never be both a file and a directory
    for p in pr["listing"]:
        parts = p.split("/")
        for k in range(1, len(parts)):
            if "/".join(parts[:k]) in pr["listing"]:
                msgs.append("staged view holds %s both as a file and as a directory (of %s)" % ("/".join(parts[:k]), p))
    for p, dg in pr["listing"].items():
        data = run.pool.get(dg)
        got = pr["cat"].get(p)
        if data is None:
            msgs.append("staged path %s has a digest that was never ingested" % p)
        elif got != hashlib.sha256(data).hexdigest():
            msgs.append("cat -S %s does not return the staged bytes (%s)" % (p, got))
    # I4: every head-version manifest path has its file in staging with the recorded digest
    rel0 = histrun.staged_rel(oid)
    head = inv["head"]
    for cp, dg in absinv.manifest_map(inv).items():
        if cp.startswith(head + "/"):
            e = st.post_stg_snap.get(rel0 + "/" + cp)
            if e is None or e[0] != "f":
                msgs.append("staged content file %s is missing" % cp)
            elif (e[3] if alg == "sha512" else e[2]) != dg:
                msgs.append("staged content file %s does not match its digest" % cp)
    return msgs
