"""Executes generated histories against the real library and records, per step,
everything the history-based properties (C01, C02, C08, C09) look at."""
import hashlib
import json
import os

from . import absinv, common, hist


def staged_rel(oid):
    h = hashlib.sha256(oid.encode("utf-8")).hexdigest()
    return "%s/%s/%s/%s" % (h[0:3], h[3:6], h[6:9], h)


def alg_digest(alg, data):
    return hashlib.new(alg, data).hexdigest()


class Step:
    pass


class HistoryRun:
    """one history on one scratch repository"""

    def __init__(self, ctx, cfg, name, length, rng, probes=True, hooks=()):
        self.ctx, self.cfg, self.rng, self.length, self.probes = ctx, cfg, rng, length, probes
        self.hooks = list(hooks)      # fn(run, step) -> None, called right after each step (disk still in that state)
        self.r = hist.Runner(ctx, cfg, name)
        self.ids = [hist.obj_id(cfg, k) for k in range(3)]
        self.steps = []
        self.pool = {}            # digest (both algs) -> bytes of every content ever offered
        self.committed = {}       # id -> list of {path: digest} per committed version (as staged at commit time)
        self.alg = {}             # id -> digest algorithm
        self.shapes = {}          # targeted generator shapes -> how often produced
        self.queue = []           # remaining operations of a multi-step targeted shape
        self.next_reserved = hist.N_COMMON      # next never-used reserved content
        # every other history starts from a populated object (names that clash as file/directory across trees,
        # nested directories, duplicate content) so that the rare shapes have something to work on
        self.preamble = []
        if rng.random() < 0.5:
            o = self.ids[0]
            nC = hist.N_COMMON
            self.preamble = [{"op": "new", "id": o}] + [
                {"op": "cp_ext", "id": o, "files": [[os.path.basename(nm), rng.randrange(nC)]], "dst": nm, "recursive": False}
                for nm in ("a.txt", "dir/c.txt", "dir/sub/e.txt", "dir2/sub", "dir2/a.txt", "n")] + [
                {"op": "cp_ext", "id": o, "files": [], "dir": ["d0", {"m.txt": rng.randrange(nC), "n/o.txt": rng.randrange(nC)}],
                 "dst": "moved", "recursive": True},
                {"op": "commit", "id": o}]
        for c in hist.CONTENTS:
            self.remember(c)

    def remember(self, data):
        for a in ("sha256", "sha512"):
            self.pool[alg_digest(a, data)] = data

    # ---- views
    def main_objects(self):
        out = {}
        for root in hist.find_object_roots(self.r.root):
            inv = hist.read_inventory(root)
            if inv is not None and isinstance(inv.get("id"), str):
                out[inv["id"]] = (root, inv)
        return out

    def staged_inv(self, oid):
        p = os.path.join(self.r.staging_root, staged_rel(oid))
        return hist.read_inventory(p) if os.path.isdir(p) else None

    def view(self):
        v = {"main": self.main_objects(), "staged": {}}
        for oid in self.ids:
            v["staged"][oid] = self.staged_inv(oid)
        return v

    def current_paths(self, view, oid):
        inv = view["staged"].get(oid) or (view["main"].get(oid) or (None, None))[1]
        if not inv:
            return []
        return sorted(absinv.head_state_map(inv))

    # ---- adaptive generator (DESIGN.md 3.8): small universe so that operations collide
    def gen_op(self, view):
        rng, cfg = self.rng, self.cfg
        oid = rng.choice(self.ids[:2] if rng.random() < 0.8 else self.ids)
        exists = oid in view["main"] or view["staged"].get(oid) is not None
        if not exists:
            if rng.random() < 0.85:
                return {"op": "new", "id": oid}
            return {"op": rng.choice(["commit", "rm", "cp_int", "reset"]), "id": oid, "paths": ["a.txt"], "src": ["a.txt"], "dst": "b.txt"}
        paths = self.current_paths(view, oid)
        dirs = sorted({"/".join(p.split("/")[:k]) for p in paths for k in range(1, len(p.split("/")))})
        NAMES = hist.NAMES
        pick_path = lambda: rng.choice(paths) if paths and rng.random() < 0.8 else rng.choice(NAMES)
        pick_dir = lambda: rng.choice(dirs) if dirs and rng.random() < 0.7 else rng.choice(["dir", "newdir", "dir/sub"])
        nC = len(hist.CONTENTS)
        if view["main"] and rng.random() < (0.08 if cfg["layout"] in ("0002", "0006", "0007") else 0.01):
            # purge / reset-all of an id that never existed but whose layout path is related to an existing object
            rels = [os.path.relpath(r, self.r.root) for r, _ in view["main"].values()]
            cands = [x for x in hist.stranger_ids(cfg, rels) if x not in self.ids]
            related = [x for x in cands if x not in (".", "extensions", "no-such-object")]
            if related and rng.random() < 0.8:
                cands = related
            self.shapes["purge / reset-all of a never-existing id related to an existing object's root"] = \
                self.shapes.get("purge / reset-all of a never-existing id related to an existing object's root", 0) + 1
            return {"op": rng.choice(["purge", "purge", "reset_all"]), "id": rng.choice(cands)}
        m = self.macro(view, oid, paths)
        if m is not None:
            return m
        cps = clash_pairs(paths)
        if cps and rng.random() < 0.07:
            # two source trees in which one NAME is a file in the first and a directory in the second: merged
            # into one destination the name would be both (validate_non_conflicting must refuse one of them
            # whatever order the destination map is iterated in)
            d1, d2 = rng.choice(cps)
            src = [d + "/*" if d else "*" for d in (d1, d2)]
            rng.shuffle(src)
            self.shapes["internal cp/mv merging two trees where one name is a file in one and a directory in the other"] = \
                self.shapes.get("internal cp/mv merging two trees where one name is a file in one and a directory in the other", 0) + 1
            return {"op": rng.choice(["cp_int", "cp_int", "mv_int"]), "id": oid, "version": None, "src": src,
                    "dst": rng.choice(["merged", "merged/", pick_dir(), "/"]), "recursive": True}
        r = rng.random()
        if r < 0.24:
            style = rng.random()
            if style < 0.55:
                nm = pick_path() if rng.random() < 0.4 else rng.choice(NAMES)
                return {"op": "cp_ext", "id": oid, "files": [[os.path.basename(nm), rng.randrange(nC)]], "dst": nm, "recursive": False}
            if style < 0.75:
                return {"op": rng.choice(["cp_ext", "mv_ext"]), "id": oid,
                        "files": [[rng.choice(["p.txt", "q.txt", "a.txt"]), rng.randrange(nC)] for _ in range(rng.choice([1, 2]))],
                        "dst": rng.choice([pick_dir(), pick_dir() + "/", "/", "a.txt", "dir/c.txt/x"]), "recursive": False}
            if style < 0.95:
                return {"op": rng.choice(["cp_ext", "mv_ext"]), "id": oid, "files": [],
                        "dir": [rng.choice(["d0", "dir", "sub"]), {"m.txt": rng.randrange(nC), "n/o.txt": rng.randrange(nC)}],
                        "dst": rng.choice([pick_dir(), "moved", "/", "moved/"]), "recursive": rng.random() < 0.85}
            return {"op": "cp_ext", "id": oid, "files": [["z.txt", rng.randrange(nC)]], "missing": True, "dst": pick_dir(), "recursive": False}
        if r < 0.44:
            op = rng.choice(["cp_int", "cp_int", "mv_int", "mv_int"])
            k = rng.random()
            if k < 0.55:
                src = [pick_path()]
            elif k < 0.75:
                src = [pick_dir()]
            elif k < 0.9:
                src = [rng.choice(["*", "*.txt", "dir/*", pick_dir() + "/*", "?.txt"])]
            elif k < 0.95:
                src = [pick_path(), pick_path()]
            else:
                # several source trees merged into one destination (names may clash as file vs directory)
                src = [rng.choice(["dir/*", "dir2/*", pick_dir() + "/*", pick_dir(), "*"]) for _ in range(2)]
                self.shapes["internal cp/mv of several globs/directories into one destination"] = \
                    self.shapes.get("internal cp/mv of several globs/directories into one destination", 0) + 1
            dst = rng.choice([pick_path(), pick_dir(), pick_dir() + "/", "/", rng.choice(NAMES), "new/"])
            nmain = len(view["main"][oid][1]["versions"]) if oid in view["main"] else 0
            ver = None if op == "mv_int" or rng.random() < 0.6 or nmain == 0 else rng.randint(1, nmain + 1)
            sinv = view["staged"].get(oid)
            if sinv is not None and rng.random() < 0.12:
                # the staged head named EXPLICITLY by its number (not Head), source = a file new in the staged version
                hnum = absinv.vnum_of(sinv["head"])
                newp = sorted(p for p, d in absinv.head_state_map(sinv).items()
                              if any(cp.startswith(sinv["head"] + "/") and cp.endswith("/" + p) for cp in absinv.manifest_map(sinv)))
                if newp:
                    self.shapes["cp_int with the staged head given as an explicit number, source new in the staged version"] = \
                        self.shapes.get("cp_int with the staged head given as an explicit number, source new in the staged version", 0) + 1
                    return {"op": "cp_int", "id": oid, "version": hnum, "src": [rng.choice(newp)],
                            "dst": rng.choice([rng.choice(NAMES), pick_dir() + "/", "copy-of-new.txt"]), "recursive": False}
            if nmain > 0 and rng.random() < 0.3:
                # cross-version shape: the source is taken from the tree of an older version, the destination from
                # names whose file/directory status DIFFERS between that version and the staged head (the
                # destination rule must look at the staged head, the source resolution at the source version)
                minv = view["main"][oid][1]
                cands = []
                for vk, vv in minv["versions"].items():
                    vpaths = sorted(pp for ps in vv["state"].values() for pp in ps)
                    vdirs = {"/".join(q.split("/")[:k]) for q in vpaths for k in range(1, len(q.split("/")))}
                    ddiff = sorted(set(dirs) ^ vdirs)
                    pdiff = sorted(set(paths) ^ set(vpaths))
                    if vpaths:
                        cands.append((absinv.vnum_of(vk), vpaths, sorted(vdirs), ddiff, pdiff))
                good = [c for c in cands if c[3]] or cands
                if good:
                    vn, vpaths, vdirs, ddiff, pdiff = rng.choice(good)
                    op, ver = "cp_int", vn
                    k2 = rng.random()
                    src = [rng.choice(vpaths)] if k2 < 0.75 else [rng.choice(vdirs)] if vdirs and k2 < 0.9 else [rng.choice(vpaths), rng.choice(vpaths)]
                    if ddiff and rng.random() < 0.8:
                        dst = rng.choice(ddiff)
                        self.shapes["cp_int from older version, dst is a directory in only one of source version / staged head"] = \
                            self.shapes.get("cp_int from older version, dst is a directory in only one of source version / staged head", 0) + 1
                    elif pdiff and rng.random() < 0.5:
                        dst = rng.choice(pdiff)
            return {"op": op, "id": oid, "version": ver, "src": src, "dst": dst, "recursive": rng.random() < 0.6}
        if r < 0.54:
            k = rng.random()
            ps = [pick_path()] if k < 0.6 else [pick_dir()] if k < 0.8 else [rng.choice(["*", "dir/*", "*.txt", "/"])]
            return {"op": "rm", "id": oid, "paths": ps, "recursive": rng.random() < 0.5}
        if r < 0.63:
            k = rng.random()
            ps = [pick_path()] if k < 0.6 else [pick_dir()] if k < 0.8 else [rng.choice(["*", "dir/*", "/"])]
            return {"op": "reset", "id": oid, "paths": ps, "recursive": rng.random() < 0.5}
        if r < 0.66:
            return {"op": "reset_all", "id": oid}
        if r < 0.92:
            return {"op": "commit", "id": oid}
        if r < 0.95 and cfg["repo_spec"] == "1.1":
            return {"op": "upgrade_object", "id": oid, "spec": "1.1"}
        if r < 0.975:
            return {"op": "purge", "id": oid}
        return {"op": "new", "id": oid}

    def fresh_content(self):
        c = self.next_reserved
        if c >= len(hist.CONTENTS):
            return None
        self.next_reserved += 1
        return c

    def macro(self, view, oid, paths):
        """multi-step targeted shapes (first operation returned, the rest queued)"""
        rng = self.rng
        r = rng.random()
        if r < 0.025 and oid in view["main"]:
            # a committed FILE is replaced by a DIRECTORY of the same name in the staged version, next to a sibling
            # whose name merely starts with that name; then a recursive reset of the name must restore the file
            mpaths = sorted(absinv.head_state_map(view["main"][oid][1]))
            files = [p for p in mpaths if p in paths]
            if files:
                p = rng.choice(files)
                c1, c2 = self.fresh_content(), self.fresh_content()
                if c2 is not None:
                    self.shapes["file replaced by a directory of the same name + prefix sibling, then reset -r"] = \
                        self.shapes.get("file replaced by a directory of the same name + prefix sibling, then reset -r", 0) + 1
                    self.queue = [
                        {"op": "rm", "id": oid, "paths": [p], "recursive": False},
                        {"op": "cp_ext", "id": oid, "files": [["new.txt", c2]], "dst": p + "/new.txt", "recursive": False},
                        {"op": "reset", "id": oid, "paths": [p], "recursive": True},
                    ]
                    return {"op": "cp_ext", "id": oid, "files": [["x.txt", c1]], "dst": p + "2/x.txt", "recursive": False}
        elif r < 0.05:
            # a file with never-seen content is staged, copied internally within the staged version, then one of the
            # two paths is overwritten by an external copy: the other path must keep its bytes (also after commit)
            c1, c2 = self.fresh_content(), self.fresh_content()
            if c2 is not None:
                a, b_ = "hl/orig-%d.txt" % c1, "hl/copy-%d.txt" % c1
                over = rng.choice([a, b_])
                self.shapes["new file copied inside the staged version, then one copy overwritten externally"] = \
                    self.shapes.get("new file copied inside the staged version, then one copy overwritten externally", 0) + 1
                self.queue = [
                    {"op": "cp_int", "id": oid, "version": None, "src": [a], "dst": b_, "recursive": False},
                    {"op": "cp_ext", "id": oid, "files": [[os.path.basename(over), c2]], "dst": over, "recursive": False},
                    {"op": "commit", "id": oid},
                ]
                return {"op": "cp_ext", "id": oid, "files": [[os.path.basename(a), c1]], "dst": a, "recursive": False}
        elif r < 0.075 and oid in view["main"]:
            # reset of several paths of which ONE cannot be restored (its name is a directory now) while the others
            # were modified / removed: the others are restored, the failure is reported, everything stays readable
            mpaths = sorted(absinv.head_state_map(view["main"][oid][1]))
            files = [p for p in mpaths if p in paths]
            if len(files) >= 2:
                blocked = rng.choice(files)
                others = [p for p in files if p != blocked and not p.startswith(blocked + "/") and not blocked.startswith(p + "/")]
                rng.shuffle(others)
                others = others[:rng.randint(1, 3)]
                cs = [self.fresh_content() for _ in range(len(others) + 1)]
                if others and cs[-1] is not None:
                    key = "reset of several paths, one blocked by a directory of its name, others modified"
                    self.shapes[key] = self.shapes.get(key, 0) + 1
                    self.queue = [{"op": "cp_ext", "id": oid, "files": [["in.txt", cs[0]]], "dst": blocked + "/in.txt", "recursive": False}]
                    for q, c in zip(others, cs[1:]):
                        if rng.random() < 0.7:
                            self.queue.append({"op": "cp_ext", "id": oid, "files": [[os.path.basename(q), c]], "dst": q, "recursive": False})
                        else:
                            self.queue.append({"op": "rm", "id": oid, "paths": [q], "recursive": False})
                    self.queue.append({"op": "reset", "id": oid, "paths": [blocked] + others, "recursive": False})
                    return {"op": "rm", "id": oid, "paths": [blocked], "recursive": False}
        return None

    # ---- execution
    def staged_probe(self, oid):
        """staged view as the library reports it + bytes of every staged path"""
        s = self.r.s
        out = {"listing": None, "cat": {}}
        g = s.call("get_staged_object", h=self.r.h, id=oid)
        out["listing_res"] = hist.res_class(g)
        if "ok" in g:
            out["listing"] = {p: d["digest"].lower() for p, d in g["ok"]["state"].items()}
            out["storage"] = {p: d["storage_path"] for p, d in g["ok"]["state"].items()}
            for p in out["listing"]:
                c = s.call("cat_staged", h=self.r.h, id=oid, path=p)
                out["cat"][p] = c["ok"]["sha256"] if "ok" in c else hist.res_class(c) + ":" + str(c.get("err", c.get("panic")))
        return out

    def committed_probe(self, oid):
        """every version of a committed object: listing + bytes"""
        s = self.r.s
        out = {}
        vs = s.call("versions", h=self.r.h, id=oid)
        if "ok" not in vs:
            return {"error": hist.res_class(vs)}
        out["log"] = [(vd["version"], vd["name"], vd["address"], vd["message"], vd["created"]) for vd in vs["ok"]]
        va = s.call("validate_object", h=self.r.h, id=oid, fixity=True)
        out["validate"] = sorted(e[0] for e in va["ok"]["errors"]) if "ok" in va else hist.res_class(va)
        for vd in vs["ok"]:
            n = vd["num"]
            df = s.call("diff", h=self.r.h, id=oid, left=None, right=n)
            out[("diff", n)] = sorted(map(lambda x: repr(sorted(x.items())), df["ok"])) if "ok" in df else hist.res_class(df)
            g = s.call("get_object", h=self.r.h, id=oid, version=n)
            ent = {"res": hist.res_class(g), "listing": None, "cat": {}}
            if "ok" in g:
                ent["listing"] = {p: d["digest"].lower() for p, d in g["ok"]["state"].items()}
                for p in ent["listing"]:
                    c = s.call("cat", h=self.r.h, id=oid, path=p, version=n)
                    ent["cat"][p] = c["ok"]["sha256"] if "ok" in c else hist.res_class(c)
            out[n] = ent
        return out

    def run(self):
        for k in range(self.length):
            pre_view = self.view()
            if k < len(self.preamble):
                op = self.preamble[k]
            elif self.queue:
                op = self.queue.pop(0)
            else:
                op = self.gen_op(pre_view)
            st = Step()
            st.k, st.op, st.pre = k, op, pre_view
            st.pre_main_snap = self.r.snap_main()
            st.pre_stg_snap = self.r.snap_staging()
            cmd, res = self.r.step(op)
            if op.get("missing"):
                pass
            st.cmd, st.res, st.rc = cmd, res, hist.res_class(res)
            st.post = self.view()
            st.post_main_snap = self.r.snap_main()
            st.post_stg_snap = self.r.snap_staging()
            oid = op.get("id")
            st.staged_probe = None
            st.committed_probe = None
            if self.probes and oid is not None:
                if st.post["staged"].get(oid) is not None and op["op"] not in ("commit", "purge", "reset_all"):
                    st.staged_probe = self.staged_probe(oid)
                if op["op"] in ("commit", "upgrade_object") and st.rc == "ok":
                    inv = st.pre["staged"].get(oid)
                    # record what was staged when this version was committed (model-free expectation of C02)
                    if inv is not None:
                        self.committed.setdefault(oid, {})[absinv.vnum_of(inv["head"])] = absinv.head_state_map(inv)
                if op["op"] == "purge" and st.rc == "ok":
                    self.committed.pop(oid, None)
                st.committed_probe = {o: self.committed_probe(o) for o in st.post["main"]}
            st.findings = {}
            for hk in self.hooks:
                hk(self, st)
            self.steps.append(st)
            if st.rc == "panic":
                break
        return self

    def close(self):
        self.r.close()


def clash_pairs(paths):
    """pairs of directories (d1, d2), "" = root, such that some name is a FILE directly in d1 and a DIRECTORY directly in d2"""
    children = {}
    for p in paths:
        parts = p.split("/")
        for i in range(len(parts)):
            children.setdefault("/".join(parts[:i]), {})[parts[i]] = "f" if i == len(parts) - 1 else "d"
    return sorted((d1, d2) for d1 in children for d2 in children if d1 != d2
                  and any(k == "f" and children[d2].get(n) == "d" for n, k in children[d1].items()))


def concrete_sources(run, cmd, op):
    """description of the external sources of a cp_ext/mv_ext command for the model:
    list of ('file', name, bytes) | ('dir', name, {rel: bytes}) | ('missing',)"""
    out = []
    for p in cmd["src"]:
        if not os.path.lexists(p):
            out.append(("missing",))
    return out


def coq_rc(rc):
    return {"ok": "ROk", "err:CopyMoveError": "RPartial"}.get(rc, "RErr")
