"""C14, second half: several clients (= distinct staging roots) on one storage root.

Drives the REAL code over interleavings of whole operations, observes the storage root and
every staging root on disk after each step (model-free), evaluates a model-free oracle and
builds the Coq term Corr.CheckMultiClient.check_run evaluates.

An interleaving is a list of abstract operations
    ("new", c, id, width[, cfg]) | ("stage", c, id, path, token) | ("commit", c, id[, k])
cfg = index into CFGS (digest algorithm, content directory); k = number naming explicit commit
metadata (meta_of); a commit without k lets rocfl stamp the version itself (created = now).
    | ("reset", c, id) | ("purge", c, id)
c = client number (0..), token = number naming the content of the copied file."""
import hashlib
import json
import os
import re
import shutil
import subprocess

from . import common
from . import hist
from . import ocflv

UNKNOWN_TOKEN = 999999999


def token_content(tok):
    return ("content of token %d\n" % tok).encode()


_DIGESTS = {}


def token_of_digest(d):
    if not _DIGESTS:
        for t in range(0, 4000):
            _DIGESTS[hashlib.sha512(token_content(t)).hexdigest()] = t
            _DIGESTS[hashlib.sha256(token_content(t)).hexdigest()] = t
    return _DIGESTS.get(d.lower(), UNKNOWN_TOKEN)


# object-level settings compared by write_new_version besides the padding width (fix 5c18ef1)
CFGS = [("sha512", "content"), ("sha256", "content"), ("sha512", "stuff")]


def cfg_of(inv):
    k = (inv.get("digestAlgorithm"), inv.get("contentDirectory") or "content")
    return CFGS.index(k) if k in CFGS else 99


def _ts(s):
    import datetime
    try:
        return datetime.datetime.fromisoformat(s.replace("Z", "+00:00")).timestamp()
    except (ValueError, AttributeError):
        return s


def meta_key(ver):
    """what Version::same_as compares besides the state: created, message, user"""
    u = ver.get("user") or {}
    return (_ts(ver.get("created")), ver.get("message"), u.get("name"), u.get("address"))


def meta_key_of(k):
    m = meta_of(k)
    return (_ts(m["created"]), m["message"], m["name"], m["address"])


def meta_of(k):
    """explicit commit metadata named by the number k (commit --created/--name/--address/--message)"""
    return {"name": "user %d" % k, "address": "mailto:u%d@example.org" % k, "message": "message %d" % k,
            "created": "2021-%02d-%02dT10:%02d:%02dZ" % (1 + k % 12, 1 + (k // 12) % 28, (k // 336) % 60, (k // 20160) % 60)}


def parse_vname(s):
    """'v03' -> (3, 2); 'v3' -> (3, 0); None when not a version name"""
    m = re.fullmatch(r"v(\d+)", s)
    if not m:
        return None
    ds = m.group(1)
    sig = ds.lstrip("0")                  # the padding can be tens of thousands of digits long
    if len(sig) > 12:
        return None
    return (int(sig) if sig else 0), (len(ds) if ds.startswith("0") else 0)


# --------------------------------------------------------------------------- worlds

class World:
    """scratch area: one storage root, one staging root per client, source files"""

    def __init__(self, base, nclients):
        self.base = base
        shutil.rmtree(base, ignore_errors=True)
        os.makedirs(os.path.join(base, "src"))
        self.root = os.path.join(base, "root")
        self.stg = [os.path.join(base, "stg%d" % k) for k in range(nclients)]
        self.n = nclients

    def src_file(self, path, tok):
        d = os.path.join(self.base, "src", "t%d" % tok)
        os.makedirs(d, exist_ok=True)
        p = os.path.join(d, os.path.basename(path))
        with open(p, "wb") as f:
            f.write(token_content(tok))
        return p

    def cleanup(self):
        shutil.rmtree(self.base, ignore_errors=True)


class SessWorld(World):
    """clients = library handles of one `vh hist` process (debug build: overflow checks on)"""
    dbg = True

    def __init__(self, base, nclients, sess):
        World.__init__(self, base, nclients)
        self.s = sess
        r = sess.call("init", h="c0", root=self.root, staging=self.stg[0], spec="1.1", layout=hist.LAYOUTS["0004"])
        if "ok" not in r:
            raise common.BuildError("cannot init scratch repository: %r" % (r,))
        for k in range(1, nclients):
            r = sess.call("open", h="c%d" % k, root=self.root, staging=self.stg[k])
            if "ok" not in r:
                raise common.BuildError("cannot open scratch repository: %r" % (r,))

    def apply(self, op):
        h = "c%d" % op[1]
        if op[0] == "new":
            alg, cdir = CFGS[op[4]] if len(op) > 4 else CFGS[0]
            r = self.s.call("new", h=h, id=op[2], pad=op[3], alg=alg, cdir=cdir)
        elif op[0] == "stage":
            r = self.s.call("cp_ext", h=h, id=op[2], src=[self.src_file(op[3], op[4])], dst=op[3])
        elif op[0] == "commit":
            r = self.s.call("commit", h=h, id=op[2], **(meta_of(op[3]) if len(op) > 3 else {}))
        elif op[0] == "reset":
            r = self.s.call("reset_all", h=h, id=op[2])
        elif op[0] == "purge":
            r = self.s.call("purge", h=h, id=op[2])
        else:
            raise ValueError(op)
        c = hist.res_class(r)
        return ("ok" if c == "ok" else "panic" if c == "panic" else "err"), c

    def validate(self, oid):
        """error codes rocfl's own validator reports for the object ([] = valid)"""
        r = self.s.call("validate_object", h="c0", id=oid, fixity=True)
        if "ok" not in r:
            return ["validate failed: " + hist.res_class(r)]
        return sorted({e[0] for e in r["ok"]["errors"]})

    def cleanup(self):
        for k in range(self.n):
            self.s.call("drop", h="c%d" % k)
        World.cleanup(self)


class CliWorld(World):
    """clients = separate processes of the release CLI: rocfl -r ROOT -s STAGING_k ..."""
    dbg = False

    def __init__(self, base, nclients, binary):
        World.__init__(self, base, nclients)
        self.bin = binary
        home = os.path.join(base, "home")
        os.makedirs(home)
        self.env = dict(os.environ, HOME=home, XDG_CONFIG_HOME=os.path.join(home, ".config"), NO_COLOR="1")
        p = subprocess.run([binary, "-r", self.root, "init"], env=self.env, capture_output=True, timeout=120)
        if p.returncode != 0:
            raise common.BuildError("rocfl init failed: %r" % (p.stderr[-500:],))

    def _run(self, c, args):
        p = subprocess.run([self.bin, "-r", self.root, "-s", self.stg[c]] + args, env=self.env,
                           capture_output=True, timeout=120)
        return p.returncode, p.stderr.decode("utf-8", "replace")

    def apply(self, op):
        c = op[1]
        if op[0] == "new":
            alg, cdir = CFGS[op[4]] if len(op) > 4 else CFGS[0]
            rc, err = self._run(c, ["new", "-z", str(op[3]), "-d", alg, "-c", cdir, op[2]])
        elif op[0] == "stage":
            rc, err = self._run(c, ["cp", op[2], self.src_file(op[3], op[4]), "--", op[3]])
        elif op[0] == "commit":
            m = meta_of(op[3]) if len(op) > 3 else None
            rc, err = self._run(c, ["commit"] + (["-n", m["name"], "-a", m["address"], "-m", m["message"], "-c", m["created"]] if m else [])
                                + [op[2]])
        elif op[0] == "reset":
            rc, err = self._run(c, ["reset", op[2]])
        elif op[0] == "purge":
            rc, err = self._run(c, ["purge", "-f", op[2]])
        else:
            raise ValueError(op)
        if rc == 0:
            return "ok", "ok"
        if rc == 101 or rc < 0 or "panicked" in err:
            return "panic", "panic rc=%d" % rc
        return "err", "err rc=%d" % rc

    def validate(self, oid):
        """`rocfl validate <id>`: exit status 0 = valid (warnings allowed)"""
        rc, err = self._run(0, ["validate", oid])
        return [] if rc == 0 else ["rocfl validate exit status %d" % rc]


# --------------------------------------------------------------------------- observation (model-free)

def _states(inv):
    """[(number, width, {path: token}, metadata key)] of an inventory's versions, sorted by number; None if malformed"""
    out = []
    try:
        for name, ver in inv["versions"].items():
            nw = parse_vname(name)
            if nw is None:
                return None
            st = {}
            for digest, paths in ver["state"].items():
                for p in paths:
                    st[p] = token_of_digest(digest)
            out.append((nw[0], nw[1], st, meta_key(ver)))
    except (KeyError, TypeError, AttributeError):
        return None
    return sorted(out, key=lambda x: x[0])


def fast_snapshot(root):
    """{relative path: ('d',) | ('f', size, sha256) | ('l', target)} of everything below root"""
    out = {}
    cut = len(root.rstrip("/")) + 1
    for d, dirs, files in os.walk(root, followlinks=False):
        if len(d) >= cut:
            out[d[cut:]] = ("d",)
        for name in files:
            p = d + "/" + name
            if os.path.islink(p):
                out[p[cut:]] = ("l", os.readlink(p))
            else:
                with open(p, "rb") as f:
                    data = f.read()
                out[p[cut:]] = ("f", len(data), hashlib.sha256(data).hexdigest())
    return out


def snap_diff(a, b):
    return [k for k in sorted(set(a) | set(b)) if a.get(k) != b.get(k)]


def observe_main(root):
    """({id: object observation}, full snapshot of the storage root)"""
    snap = fast_snapshot(root)
    objs = {}
    roots = sorted(k[:k.rindex("/")] for k, v in snap.items()
                   if v[0] == "f" and "/" in k and k[k.rindex("/") + 1:].startswith("0=ocfl_object_")
                   and not k.startswith("extensions/"))
    for rel in roots:
        oroot = os.path.join(root, rel)
        inv = hist.read_inventory(oroot)
        o = {"root": rel, "abs": oroot, "inv_ok": False}
        if isinstance(inv, dict) and isinstance(inv.get("id"), str):
            sts = _states(inv)
            head = parse_vname(inv.get("head", "")) if isinstance(inv.get("head"), str) else None
            if sts is not None and head is not None:
                o.update(inv_ok=True, head=head, vnums=[s[0] for s in sts], states=[s[2] for s in sts],
                         metas=[s[3] for s in sts], cfg=cfg_of(inv))
            oid = inv["id"]
        else:
            oid = "?" + rel
        # physical version directories and the hashes of everything below them
        vdirs = {}
        pre = rel + "/"
        for k, v in snap.items():
            if k.startswith(pre):
                sub = k[len(pre):]
                first = sub.split("/", 1)[0]
                if parse_vname(first) is not None:
                    vdirs.setdefault(first, {})
                    if sub != first:
                        vdirs[first][sub] = v
        o["vdirs"] = vdirs
        objs[oid] = o
    return objs, snap


def observe_staging(stg):
    """{id: {head:(n,w), state:{path:token}, missing:[staged content files that do not exist]}}"""
    out = {}
    if not os.path.isdir(stg):
        return out
    for oroot in hist.find_object_roots(stg):
        inv = hist.read_inventory(oroot)
        if not isinstance(inv, dict) or not isinstance(inv.get("id"), str):
            out["?" + os.path.relpath(oroot, stg)] = {"head": (0, 0), "state": {}, "missing": ["unreadable staged inventory"], "cfg": 99, "base": []}
            continue
        sts = _states(inv)
        head = parse_vname(inv.get("head", "")) if isinstance(inv.get("head"), str) else None
        if sts is None or head is None:
            out[inv["id"]] = {"head": (0, 0), "state": {}, "missing": ["malformed staged inventory"], "cfg": 99, "base": []}
            continue
        hname = inv["head"]
        state = [s for s in sts if s[0] == head[0]]
        missing = []
        try:
            for digest in inv["versions"][hname]["state"]:
                for cp in inv["manifest"].get(digest, []):
                    if cp.startswith(hname + "/") and not os.path.isfile(os.path.join(oroot, cp)):
                        missing.append(cp)
        except (KeyError, TypeError, AttributeError):
            missing.append("malformed staged inventory")
        out[inv["id"]] = {"head": head, "state": state[0][2] if state else {}, "missing": missing, "cfg": cfg_of(inv),
                          "base": [(s[3], s[2]) for s in sts if s[0] < head[0]]}
    return out


def observe(world):
    objs, snap = observe_main(world.root)
    stag = {}
    for c in range(world.n):
        for oid, s in observe_staging(world.stg[c]).items():
            stag[(c, oid)] = s
    return {"main": objs, "snap": snap, "stag": stag}


# --------------------------------------------------------------------------- oracle (model-free)

def max_for_width(w):
    return 4294967295 if w == 0 else 10 ** (w - 1) - 1


class Tracker:
    """what the driver itself remembers: lineage numbers (+1 whenever an object directory appears)
    and, per staged copy, the main object (lineage, head) it was cloned from"""

    def __init__(self):
        self.lineage = {}
        self.next_lin = 0
        self.base = {}
        self.frozen = {}      # (lineage, version number) -> {file: hash} as first seen
        self.mtok = {}        # metadata key -> token (explicit metadata k -> k, anything else numbered from 1000000)

    def meta_token(self, key):
        if key not in self.mtok:
            m = re.fullmatch(r"message (\d+)", key[1] or "")
            if m and meta_key_of(int(m.group(1))) == key:
                self.mtok[key] = int(m.group(1))
            else:
                self.mtok[key] = 1000000 + sum(1 for v in self.mtok.values() if v >= 1000000)
        return self.mtok[key]

    def update(self, prev, cur):
        prev_lin = dict(self.lineage)
        for oid in list(self.lineage):
            if oid not in cur["main"]:
                del self.lineage[oid]
        for oid in cur["main"]:
            if oid not in prev["main"]:
                self.lineage[oid] = self.next_lin
                self.next_lin += 1
        for k in list(self.base):
            if k not in cur["stag"]:
                del self.base[k]
        for k, s in cur["stag"].items():
            if k not in prev["stag"]:
                oid = k[1]
                po = prev["main"].get(oid)
                if s["head"][0] == 1 or po is None or not po.get("inv_ok"):
                    self.base[k] = ("new",)
                else:
                    self.base[k] = (prev_lin.get(oid), po["head"][0])


def oracle(op, rc, prev, cur, tr, world, validate=True):
    """the property stated directly on what is on disk before/after one operation; list of messages"""
    msgs = []
    kind, c, oid = op[0], op[1], op[2]
    if rc == "panic":
        msgs.append("operation panicked")
    pm, cm = prev["main"], cur["main"]
    # refused operation: nothing changes
    if rc != "ok":
        if prev["snap"] != cur["snap"]:
            msgs.append("main repository changed by a refused %s: %s" % (kind, snap_diff(prev["snap"], cur["snap"])[:6]))
        for k, s in prev["stag"].items():
            t = cur["stag"].get(k)
            if t is None or t["head"] != s["head"] or t["state"] != s["state"]:
                msgs.append("staged changes of client %d for %s lost or altered by a refused %s" % (k[0], k[1], kind))
            elif t["missing"] and not s["missing"]:
                msgs.append("staged content files of client %d removed by a refused %s: %s" % (k[0], kind, t["missing"][:3]))
    # objects never disappear except by purge
    for x in pm:
        if x not in cm and not (kind == "purge" and x == oid and rc == "ok"):
            msgs.append("object %s disappeared from the main repository by %s" % (x, kind))
    lin_before = dict(tr.lineage)
    committed = kind == "commit" and rc == "ok"
    for x, o in cm.items():
        if not o.get("inv_ok"):
            msgs.append("root inventory of %s unreadable" % x)
            continue
        n, w = o["head"]
        # numbering: v1..vh, each once, in the inventory and on disk; head within its width
        if o["vnums"] != list(range(1, n + 1)):
            msgs.append("inventory of %s lists versions %s, head %d: skipped or repeated number" % (x, o["vnums"], n))
        dn = sorted(parse_vname(d)[0] for d in o["vdirs"])
        if dn != list(range(1, n + 1)):
            msgs.append("version directories of %s are %s, head %d: skipped or repeated number" % (x, sorted(o["vdirs"]), n))
        if n > max_for_width(w):
            msgs.append("head v%d of %s exceeds the largest number padding width %d can express" % (n, x, w))
        po = pm.get(x)
        if po is not None and po.get("inv_ok"):
            # same directory before and after: same lineage
            if po["head"][1] != w:
                msgs.append("padding width of %s changed from %d to %d" % (x, po["head"][1], w))
            if po["cfg"] != o["cfg"]:
                msgs.append("digest algorithm / content directory of %s changed" % x)
            if o["metas"][:len(po["metas"])] != po["metas"]:
                msgs.append("metadata of earlier versions of %s changed" % x)
            for d, files in po["vdirs"].items():
                if o["vdirs"].get(d) != files:
                    msgs.append("bytes of committed version %s of %s changed" % (d, x))
            grew = len(o["states"]) - len(po["states"])
            if o["states"][:len(po["states"])] != po["states"]:
                msgs.append("states of earlier versions of %s changed (overwritten or merged)" % x)
            if grew != 0 and not (committed and x == oid and grew == 1):
                msgs.append("%s went from %d to %d versions by %s %s" % (x, len(po["states"]), len(o["states"]), kind, rc))
            if committed and x == oid and grew != 1:
                msgs.append("successful commit did not create exactly the next version of %s (%d -> %d)" % (x, po["head"][0], n))
        elif po is None:
            if not (committed and x == oid):
                msgs.append("object %s appeared by %s %s" % (x, kind, rc))
            elif n != 1 or len(o["states"]) != 1:
                msgs.append("new object %s starts at head %d" % (x, n))
    if committed:
        s = prev["stag"].get((c, oid))
        b = tr.base.get((c, oid))
        o = cm.get(oid)
        if s is None:
            msgs.append("commit succeeded without staged changes")
        else:
            if o is not None and o.get("inv_ok") and o["states"] and o["states"][-1] != s["state"]:
                msgs.append("state of the new version is not the client's staged state")
            if o is not None and o.get("inv_ok") and o["head"] != s["head"]:
                msgs.append("new head %r is not the staged head %r" % (o["head"], s["head"]))
            po = pm.get(oid)
            if b == ("new",):
                if po is not None:
                    msgs.append("commit of a new object succeeded although the object exists")
            elif b is not None:
                now = (lin_before.get(oid), po["head"][0]) if (po is not None and po.get("inv_ok")) else None
                # a re-created object whose versions have the same metadata and the same states as the
                # staged copy's base (explicitly repeated commit metadata) cannot be told apart from it
                same_history = (po is not None and po.get("inv_ok") and po["head"][1] == s["head"][1] and po["cfg"] == s["cfg"]
                                and list(zip(po["metas"], po["states"])) == s["base"])
                if now != b and not same_history:
                    msgs.append("commit succeeded although the main object was no longer the version the staged changes "
                                "were based on: based on (lineage, head) %r, main was %r" % (b, now))
        if (c, oid) in cur["stag"]:
            msgs.append("staged copy still present after a successful commit")
    # validity of every object the step touched
    if validate and prev["snap"] != cur["snap"]:
        for x, o in cm.items():
            po = pm.get(x)
            if po is not None and po.get("vdirs") == o.get("vdirs") and po.get("states") == o.get("states"):
                continue
            errs = world.validate(x)
            if errs:
                msgs.append("object %s invalid afterwards (rocfl validate): %s" % (x, errs[:8]))
            errs2 = ocflv.validate_object(o["abs"])
            if errs2:
                msgs.append("object %s invalid afterwards (independent validator): %s" % (x, sorted({e[0] for e in errs2})[:8]))
    return msgs


# --------------------------------------------------------------------------- Coq terms

# the table Corr.CheckMultiClient.nm (string literals are slow to elaborate)
NM = ["o", "p", "a.txt", "b.txt", "c.txt", "s.txt", "z.txt"]


def coq_name(s):
    return "(nm %d)" % NM.index(s) if s in NM else common.coq_str(s)


def coq_vstate(st):
    return common.coq_list(["pd %s %d" % (coq_name(p), t) for p, t in sorted(st.items())])


def coq_event(op, m=None):
    c, oid = op[1], coq_name(op[2])
    if op[0] == "new":
        return "ev %d (New %s %d %d)" % (c, oid, op[3], op[4] if len(op) > 4 else 0)
    if op[0] == "stage":
        return "ev %d (Stage %s (put %s %d))" % (c, oid, coq_name(op[3]), op[4])
    if op[0] == "commit":
        return "ev %d (Commit %s %d)" % (c, oid, m)
    if op[0] == "reset":
        return "ev %d (ResetAll %s)" % (c, oid)
    if op[0] == "purge":
        return "ev %d (Purge %s)" % (c, oid)
    raise ValueError(op)


def coq_obs(rc, cur, tr):
    main = []
    for oid, o in sorted(cur["main"].items()):
        if o.get("inv_ok"):
            main.append("oo %s %d %d %d %d %s" % (coq_name(oid), tr.lineage.get(oid, 777777), o["head"][0], o["head"][1], o["cfg"],
                                                  common.coq_list(["cv %d %s" % (tr.meta_token(m), coq_vstate(s))
                                                                   for m, s in zip(o["metas"], o["states"])])))
        else:
            main.append("oo %s 777777 0 0 99 []" % coq_name(oid))
    stag = []
    for (c, oid), s in sorted(cur["stag"].items()):
        stag.append("os %d %s %d %d %d %s" % (c, coq_name(oid), s["head"][0], s["head"][1], s["cfg"], coq_vstate(s["state"])))
    code = {"ok": 0, "err": 1, "panic": 2}[rc]
    return "ob %d %s %s" % (code, common.coq_list(main), common.coq_list(stag))


def abstract_view(cur, tr):
    """JSON-friendly summary of an observation (for replay files and samples)"""
    return {
        "main": {oid: ({"lineage": tr.lineage.get(oid), "head": list(o["head"]), "config": o["cfg"],
                        "versions": [[tr.meta_token(m), sorted(s.items())] for m, s in zip(o["metas"], o["states"])]}
                       if o.get("inv_ok") else "unreadable") for oid, o in sorted(cur["main"].items())},
        "staged": {"client %d %s" % k: {"head": list(s["head"]), "state": sorted(s["state"].items())}
                   for k, s in sorted(cur["stag"].items())},
    }


# --------------------------------------------------------------------------- running one interleaving

def run_sequence(world, ops, validate=True):
    """execute ops; returns dict(term, steps=[{op, rc, detail, problems, view}])"""
    tr = Tracker()
    prev = observe(world)
    steps, obs_terms, events = [], [], []
    for i, op in enumerate(ops):
        rc, detail = world.apply(op)
        cur = observe(world)
        # long runs (width maxima): full validation of the growing object every 10th step and at the end
        val = validate and (len(ops) <= 60 or i % 10 == 0 or i >= len(ops) - 8)
        msgs = oracle(op, rc, prev, cur, tr, world, validate=val)
        tr.update(prev, cur)
        obs_terms.append(coq_obs(rc, cur, tr))
        m = None
        if op[0] == "commit":
            # the metadata token of the commit: the explicit one, or the one rocfl stamped (observed), or unused
            o = cur["main"].get(op[2])
            if len(op) > 3:
                m = op[3]
            elif rc == "ok" and o is not None and o.get("inv_ok") and o["metas"]:
                m = tr.meta_token(o["metas"][-1])
            else:
                m = 2000000 + i
        events.append(coq_event(op, m))
        steps.append({"op": list(op), "rc": rc, "detail": detail, "problems": msgs, "view": abstract_view(cur, tr)})
        prev = cur
    term = "check_run %s %s %s" % ("true" if world.dbg else "false",
                                   common.coq_list(events), common.coq_list(obs_terms))
    return {"term": term, "steps": steps}


def parse_check(s):
    """'[(0, false); (3, true)]' -> [(0, False), (3, True)]: (disagreement code, commit metadata fresh)"""
    return [(int(a), b == "true") for a, b in re.findall(r"\((\d+), (true|false)\)", s)]


# --------------------------------------------------------------------------- workers

def _worker(args):
    """run a chunk of interleavings in one process; args = (kind, vh or binary, tmp base, [(key, nclients, ops)])"""
    kind, exe, base, jobs = args
    out = []
    sess = hist.Session(vh=exe) if kind == "sess" else None
    try:
        for key, ncl, ops in jobs:
            d = os.path.join(base, "w%d" % os.getpid(), "q")
            w = SessWorld(d, ncl, sess) if kind == "sess" else CliWorld(d, ncl, exe)
            try:
                r = run_sequence(w, [tuple(o) for o in ops])
            finally:
                w.cleanup()
            r["key"] = key
            r["kind"] = kind
            r["nclients"] = ncl
            out.append(r)
    finally:
        if sess is not None:
            sess.close()
    return out


def run_all(kind, exe, base, jobs, workers=None):
    """jobs: [(key, nclients, ops)]; returns results in job order"""
    import concurrent.futures
    workers = workers or max(1, min(common.NPROC, 16))
    if not jobs:
        return []
    nchunks = max(1, min(len(jobs), workers * 4))
    chunks = [jobs[i::nchunks] for i in range(nchunks)]
    res = {}
    with concurrent.futures.ProcessPoolExecutor(max_workers=workers) as ex:
        for part in ex.map(_worker, [(kind, exe, base, ch) for ch in chunks]):
            for r in part:
                res[r["key"]] = r
    return [res[j[0]] for j in jobs]


# --------------------------------------------------------------------------- generators

OID = "o"
PATHS = ["a.txt", "b.txt", "c.txt"]


class Tok:
    """fresh content token per stage operation"""

    def __init__(self):
        self.k = 0

    def stage(self, c, oid=OID, path=None):
        self.k += 1
        if path is None:
            path = "s.txt" if self.k % 3 == 0 else PATHS[c % len(PATHS)]
        return ("stage", c, oid, path, self.k)


def prefix_versions(t, w, n, c=0, oid=OID):
    """client c creates oid with width w and commits n versions"""
    ops = [("new", c, oid, w)]
    for _ in range(n):
        ops += [t.stage(c, oid), ("commit", c, oid)]
    return ops


def start_state(name, w, t):
    if name == "S0":      # nothing exists
        return []
    if name == "S1":      # object with two versions, nobody holds a staged copy
        return prefix_versions(t, w, 2)
    if name == "S2":      # two versions, clients 0 and 1 both hold a staged v3
        return prefix_versions(t, w, 2) + [t.stage(0), t.stage(1)]
    if name == "S4":      # one version, client 0 holds a staged v2
        return prefix_versions(t, w, 1) + [t.stage(0)]
    if name == "S5":      # client 0 holds a staged v2 of an object that client 1 has purged
        return prefix_versions(t, w, 1) + [t.stage(0), ("purge", 1, OID)]
    raise ValueError(name)


ALPHABET = ["new", "stage", "commit", "reset", "purge"]


def concrete(sym, c, w, t):
    if sym == "new":
        return ("new", c, OID, w)
    if sym == "stage":
        return t.stage(c)
    return (sym, c, OID)


def interleavings(la, lb):
    """all merge patterns of la zeros and lb ones"""
    if la == 0:
        return [[1] * lb]
    if lb == 0:
        return [[0] * la]
    return [[0] + r for r in interleavings(la - 1, lb)] + [[1] + r for r in interleavings(la, lb - 1)]


def words(n):
    out = [[]]
    for _ in range(n):
        out = [x + [a] for x in out for a in ALPHABET]
    return out


def exhaustive(start, maxlen, widths):
    """every interleaving of two clients with <= maxlen operations each after the start state;
    yields (description, ops); the padding width rotates over `widths`"""
    k = 0
    for la in range(0, maxlen + 1):
        for lb in range(0, maxlen + 1):
            if la + lb == 0:
                continue
            for wa in words(la):
                for wb in words(lb):
                    for pat in interleavings(la, lb):
                        w = widths[k % len(widths)]
                        k += 1
                        t = Tok()
                        ops = start_state(start, w, t)
                        ia = ib = 0
                        for who in pat:
                            if who == 0:
                                ops.append(concrete(wa[ia], 0, w, t))
                                ia += 1
                            else:
                                ops.append(concrete(wb[ib], 1, w, t))
                                ib += 1
                        yield ("%s/w%d/%s|%s|%s" % (start, w, ",".join(wa), ",".join(wb), "".join(map(str, pat))), ops)


def sampled(rng, start, maxlen, widths, n):
    """n random members of exhaustive(start, maxlen, widths) with exactly maxlen operations of each client"""
    out = []
    for _ in range(n):
        w = rng.choice(widths)
        t = Tok()
        ops = start_state(start, w, t)
        wa = [rng.choice(ALPHABET) for _ in range(maxlen)]
        wb = [rng.choice(ALPHABET) for _ in range(maxlen)]
        pat = [0] * maxlen + [1] * maxlen
        rng.shuffle(pat)
        ia = ib = 0
        for who in pat:
            if who == 0:
                ops.append(concrete(wa[ia], 0, w, t))
                ia += 1
            else:
                ops.append(concrete(wb[ib], 1, w, t))
                ib += 1
        out.append(("%s/w%d/%s|%s|%s" % (start, w, ",".join(wa), ",".join(wb), "".join(map(str, pat))), ops))
    return out


def random_sequence(rng, nclients, length, ids, widths):
    t = Tok()
    w = {i: rng.choice(widths) for i in ids}
    ops = []
    if rng.random() < 0.7:
        ops += prefix_versions(t, w[ids[0]], rng.randint(1, 2), c=rng.randrange(nclients), oid=ids[0])
    for _ in range(length):
        c = rng.randrange(nclients)
        oid = rng.choice(ids)
        r = rng.random()
        if r < 0.30:
            ops.append(t.stage(c, oid))
        elif r < 0.62:
            ops.append(("commit", c, oid, rng.randint(1, 3)) if rng.random() < 0.2 else ("commit", c, oid))
        elif r < 0.77:
            wn = rng.choice([w[oid], w[oid], rng.choice(widths)])
            ops.append(("new", c, oid, wn, rng.randint(1, 2)) if rng.random() < 0.15 else ("new", c, oid, wn))
        elif r < 0.88:
            ops.append(("purge", c, oid))
        else:
            ops.append(("reset", c, oid))
    return ops


WIDE_WIDTHS = [254, 255, 65535, 65536, 70000]


def wide_scenarios():
    """very wide paddings (fix d5a9e2d: Display pads by hand): must not panic and must not wedge the
    staging root; from width 255 on the version directory name exceeds NAME_MAX and the operating
    system refuses every cp / commit - cleanly: nothing changes, reset recovers.  The last five
    operations (after the reset) must succeed."""
    out = []
    for w in WIDE_WIDTHS:
        t = Tok()
        ops = [("new", 0, OID, w), t.stage(0), ("commit", 0, OID), t.stage(0), ("commit", 0, OID), ("new", 1, OID, w),
               ("reset", 0, OID), ("reset", 1, OID), ("purge", 1, OID),
               ("new", 0, OID, 2), t.stage(0), ("commit", 0, OID), t.stage(1), ("commit", 1, OID)]
        out.append(("wide-%d" % w, 2, ops))
    return out


def scenarios(thorough=False):
    """hand-written interleavings: the reproduced finding and its boundary, races, width maxima"""
    out = []

    def recreate(nb, wb, wa=0):
        t = Tok()
        ops = prefix_versions(t, wa, 2) + [t.stage(0)]              # client 0 holds a staged v3
        ops += [("purge", 1, OID)] + prefix_versions(t, wb, nb, c=1)  # client 1 re-creates with nb versions
        ops += [("commit", 0, OID), ("stage", 0, OID, "z.txt", 900), ("commit", 0, OID),
                ("reset", 0, OID), t.stage(0), ("commit", 0, OID)]
        return ops
    for nb in (1, 2, 3):
        for wb in (0, 2):
            out.append(("recreate-%d-versions-width-%d" % (nb, wb), 2, recreate(nb, wb)))
    out.append(("recreate-padded-base", 2, recreate(2, 0, wa=3)))
    out.append(("recreate-padded-both", 2, recreate(2, 3, wa=3)))

    # purge + re-create with exactly head-1 versions and the SAME file names and contents
    def same_history(wb, kb, metas, wa=0):
        ops = [("new", 0, OID, wa), ("stage", 0, OID, "a.txt", 1), ("commit", 0, OID) + metas[0:1],
               ("stage", 0, OID, "b.txt", 2), ("commit", 0, OID) + metas[1:2], ("stage", 0, OID, "c.txt", 3),
               ("purge", 1, OID), ("new", 1, OID, wb, kb), ("stage", 1, OID, "a.txt", 1), ("commit", 1, OID) + metas[0:1],
               ("stage", 1, OID, "b.txt", 2), ("commit", 1, OID) + metas[1:2],
               ("commit", 0, OID) + ((7,) if metas else ()), ("stage", 0, OID, "z.txt", 900), ("commit", 0, OID),
               ("reset", 0, OID), ("stage", 0, OID, "c.txt", 4), ("commit", 0, OID)]
        return ops
    out.append(("recreate-same-states-default-metadata", 2, same_history(0, 0, ())))       # refused (created differs)
    out.append(("recreate-same-states-same-metadata", 2, same_history(0, 0, (1, 2))))      # accepted: same history
    out.append(("recreate-same-metadata-other-width", 2, same_history(2, 0, (1, 2))))      # refused (fix 5c18ef1)
    out.append(("recreate-same-metadata-padded-base", 2, same_history(0, 0, (1, 2), wa=2)))
    out.append(("recreate-same-metadata-other-digest", 2, same_history(0, 1, (1, 2))))     # refused
    out.append(("recreate-same-metadata-other-content-dir", 2, same_history(0, 2, (1, 2))))  # refused

    # same metadata, same head, but the re-created versions hold MORE / FEWER / OTHER files than the ones the staged
    # copy is based on (Version::same_as must compare whole states, both directions): all refused
    def other_states(kind, which):
        ops = [("new", 0, OID, 0), ("stage", 0, OID, "a.txt", 1), ("stage", 0, OID, "b.txt", 2), ("commit", 0, OID, 1),
               ("stage", 0, OID, "c.txt", 3), ("commit", 0, OID, 2), ("stage", 0, OID, "d.txt", 4),
               ("purge", 1, OID), ("new", 1, OID, 0), ("stage", 1, OID, "a.txt", 1)]
        v1 = {"more": [("stage", 1, OID, "b.txt", 2), ("stage", 1, OID, "x.txt", 9)], "fewer": [],
              "other": [("stage", 1, OID, "b.txt", 8)], "renamed": [("stage", 1, OID, "bb.txt", 2)]}
        ops += (v1[kind] if which == 1 else [("stage", 1, OID, "b.txt", 2)]) + [("commit", 1, OID, 1)]
        v2 = {"more": [("stage", 1, OID, "c.txt", 3), ("stage", 1, OID, "y.txt", 10)], "fewer": [("stage", 1, OID, "b.txt", 2)],
              "other": [("stage", 1, OID, "c.txt", 7)], "renamed": [("stage", 1, OID, "cc.txt", 3)]}
        ops += (v2[kind] if which == 2 else [("stage", 1, OID, "c.txt", 3)]) + [("commit", 1, OID, 2)]
        ops += [("commit", 0, OID, 7), ("stage", 0, OID, "z.txt", 900), ("commit", 0, OID),
                ("reset", 0, OID), ("stage", 0, OID, "d.txt", 5), ("commit", 0, OID)]
        return ops
    for kind in ("more", "fewer", "other", "renamed"):
        for which in (1, 2):
            out.append(("recreate-same-metadata-%s-files-in-v%d" % (kind, which), 2, other_states(kind, which)))
    # the re-created object agrees with the staged copy in its HEAD version (state and metadata) and differs in an
    # EARLIER one: every version must be compared, not only the head
    def other_base(nv, differ):
        ops = [("new", 0, OID, 0)]
        for v in range(1, nv + 1):
            ops += [("stage", 0, OID, "a.txt", 10 + v), ("commit", 0, OID, v)]
        ops += [("stage", 0, OID, "c.txt", 4), ("purge", 1, OID), ("new", 1, OID, 0)]
        for v in range(1, nv + 1):
            ops += [("stage", 1, OID, "a.txt", (50 + v) if v == differ else (10 + v)), ("commit", 1, OID, v)]
        ops += [("commit", 0, OID, 7), ("stage", 0, OID, "z.txt", 900), ("commit", 0, OID),
                ("reset", 0, OID), ("stage", 0, OID, "c.txt", 5), ("commit", 0, OID)]
        return ops
    out.append(("recreate-same-head-other-v1-of-2", 2, other_base(2, 1)))
    out.append(("recreate-same-head-other-v1-of-3", 2, other_base(3, 1)))
    out.append(("recreate-same-head-other-v2-of-3", 2, other_base(3, 2)))
    # one-version objects: an EMPTY first version against a re-created one with files, and the reverse
    out.append(("recreate-same-metadata-empty-v1-vs-files", 2,
                [("new", 0, OID, 0), ("commit", 0, OID, 1), ("stage", 0, OID, "b.txt", 2), ("purge", 1, OID), ("new", 1, OID, 0),
                 ("stage", 1, OID, "a.txt", 1), ("commit", 1, OID, 1), ("commit", 0, OID, 7), ("reset", 0, OID),
                 ("stage", 0, OID, "b.txt", 2), ("commit", 0, OID)]))
    out.append(("recreate-same-metadata-files-vs-empty-v1", 2,
                [("new", 0, OID, 0), ("stage", 0, OID, "a.txt", 1), ("commit", 0, OID, 1), ("stage", 0, OID, "b.txt", 2),
                 ("purge", 1, OID), ("new", 1, OID, 0), ("commit", 1, OID, 1), ("commit", 0, OID, 7), ("reset", 0, OID),
                 ("stage", 0, OID, "b.txt", 2), ("commit", 0, OID)]))

    # S4-style: staged v2 over a re-created v1
    t = Tok()
    ops = prefix_versions(t, 0, 1) + [t.stage(0), ("purge", 1, OID), ("new", 1, OID, 0), ("commit", 1, OID),
                                      ("commit", 0, OID), t.stage(1), ("commit", 1, OID)]
    out.append(("recreate-empty-v1", 2, ops))

    # three clients clone v1; every commit order; the losers reset, re-stage, commit one after the other
    import itertools
    for order in itertools.permutations([0, 1, 2]):
        t = Tok()
        ops = prefix_versions(t, 2, 1) + [t.stage(0), t.stage(1), t.stage(2)]
        ops += [("commit", c, OID) for c in order]
        for c in order[1:]:
            ops += [("commit", c, OID), ("reset", c, OID), t.stage(c), ("commit", c, OID)]
        out.append(("three-client-race-%d%d%d" % order, 3, ops))

    # both create the same id
    t = Tok()
    ops = [("new", 0, OID, 0), ("new", 1, OID, 2), ("new", 0, OID, 0), t.stage(0), t.stage(1), ("commit", 0, OID),
           ("commit", 1, OID), t.stage(1), ("commit", 1, OID), ("new", 1, OID, 2), ("purge", 0, OID), ("commit", 1, OID),
           t.stage(0), ("commit", 0, OID), ("commit", 0, OID)]
    out.append(("create-create-race", 2, ops))

    # purge under a staged copy
    t = Tok()
    ops = prefix_versions(t, 3, 2) + [t.stage(0), ("purge", 1, OID), ("commit", 0, OID), t.stage(0), ("new", 0, OID, 3),
                                      ("reset", 0, OID), ("new", 0, OID, 3), t.stage(0), ("commit", 0, OID), t.stage(1),
                                      ("commit", 1, OID)]
    out.append(("purge-under-staged-copy", 2, ops))

    # width 1 is read back as width 0; width 2 stops at v9
    t = Tok()
    out.append(("width-1", 2, prefix_versions(t, 1, 3) + [t.stage(1), ("commit", 1, OID)]))
    t = Tok()
    ops = prefix_versions(t, 2, 8) + [t.stage(0), t.stage(1), ("commit", 1, OID), ("commit", 0, OID), ("reset", 0, OID),
                                      t.stage(0), t.stage(1), ("commit", 0, OID), ("commit", 1, OID),
                                      ("new", 1, OID, 2), ("purge", 0, OID), ("new", 1, OID, 2), ("commit", 1, OID)]
    out.append(("width-2-maximum", 2, ops))
    # padding widths of the former overflow class (fix 476b184): ordinary objects now, several versions, two clients
    for w in (11, 20):
        t = Tok()
        ops = prefix_versions(t, w, 3) + [t.stage(0), t.stage(1), ("commit", 1, OID), ("commit", 0, OID), ("reset", 0, OID),
                                          t.stage(0), ("commit", 0, OID), t.stage(1), ("commit", 1, OID)]
        out.append(("width-%d" % w, 2, ops))
    # width 3 stops at v99
    t = Tok()
    ops = prefix_versions(t, 3, 98) + [t.stage(0), t.stage(1), ("commit", 0, OID), ("commit", 1, OID), ("reset", 1, OID),
                                       t.stage(1), ("commit", 1, OID)]
    out.append(("width-3-maximum", 2, ops))
    return out
