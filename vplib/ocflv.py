"""Independent OCFL 1.0/1.1 validator (shares no code with rocfl): the oracle
"valid under the OCFL version it declares" of C01/C05/C06/C07.  Written from the
specification text (https://ocfl.io/1.1/spec/, validation codes in brackets are
for diagnosis only; the verdict is `errors == []`)."""
import hashlib
import json
import os
import re

SPEC_TYPES = {"1.0": "https://ocfl.io/1.0/spec/#inventory", "1.1": "https://ocfl.io/1.1/spec/#inventory"}
DIGEST_LEN = {"md5": 32, "sha1": 40, "sha256": 64, "sha512": 128, "blake2b-512": 128,
              "blake2b-160": 40, "blake2b-256": 64, "blake2b-384": 96, "sha512/256": 64}
VERSION_RE = re.compile(r"^v(\d+)$")
RFC3339 = re.compile(r"^(\d{4})-(\d{2})-(\d{2})[Tt](\d{2}):(\d{2}):(\d{2})(\.\d+)?([Zz]|[+-]\d{2}:\d{2})\Z")


class DupKey(Exception):
    pass


class DMap(dict):
    """a JSON object in which some key occurred more than once with array values (a digest map):
    the arrays are merged and the keys remembered; manifest / fixity blocks report E096 / E097,
    a state block does not (no MUST of the specification forbids it; RFC 8259 section 4: SHOULD)"""
    dups = ()


def _no_dups(pairs):
    d = DMap()
    for k, v in pairs:
        if k in d:
            if isinstance(v, list) and isinstance(d[k], list):
                d[k] = d[k] + v
                d.dups = tuple(d.dups) + (k,)
                continue
            raise DupKey(k)
        d[k] = v
    return d


def parse_json(data):
    """(value, error) with duplicate-key detection"""
    try:
        return json.loads(data.decode("utf-8"), object_pairs_hook=_no_dups), None
    except DupKey as e:
        return None, "duplicate key %s" % e
    except (ValueError, UnicodeDecodeError) as e:
        return None, "unparsable: %s" % e


def _valid_date(s):
    m = RFC3339.match(s)
    if not m:
        return False
    y, mo, d, h, mi, se = (int(m.group(i)) for i in range(1, 7))
    if not (1 <= mo <= 12 and 1 <= d <= 31 and h <= 23 and mi <= 59 and se <= 60):
        return False
    off = m.group(8)
    if off not in ("Z", "z") and not (int(off[1:3]) <= 23 and int(off[4:6]) <= 59):
        return False          # RFC 3339 5.6: time-numoffset = ("+" / "-") time-hour ":" time-minute
    dim = [31, 29 if (y % 4 == 0 and (y % 100 != 0 or y % 400 == 0)) else 28, 31, 30, 31, 30, 31, 31, 30, 31, 30, 31]
    return d <= dim[mo - 1]


def _path_problems(p):
    """content / logical path rules: no leading/trailing slash, no empty, '.', '..' segment"""
    if not isinstance(p, str) or p == "":
        return True
    if p.startswith("/") or p.endswith("/"):
        return True
    return any(s in ("", ".", "..") for s in p.split("/"))


def _prefix_conflicts(paths):
    """some path is a directory-prefix of another"""
    s = set(paths)
    for p in paths:
        parts = p.split("/")
        for k in range(1, len(parts)):
            if "/".join(parts[:k]) in s:
                return True
    return False


def validate_inventory(inv, spec, errs, where=""):
    """inventory-level rules; returns dict(head, versions [numbers], padding, alg, cdir) or None"""
    E = lambda code, msg: errs.append((code, where + msg))
    if not isinstance(inv, dict):
        E("E033", "inventory is not a JSON object")
        return None
    known = {"id", "type", "digestAlgorithm", "head", "contentDirectory", "manifest", "versions", "fixity"}
    for k in inv:
        if k not in known:
            E("E102", "unknown key %r" % k)
    ok = True
    if not isinstance(inv.get("id"), str) or inv.get("id") == "":
        E("E036", "id missing or empty")
        ok = False
    t = inv.get("type")
    if not isinstance(t, str):
        E("E036", "type missing")
    elif spec is not None and t != SPEC_TYPES.get(spec):
        E("E038", "type %r does not match the declared version %s" % (t, spec))
    elif spec is None and t not in SPEC_TYPES.values():
        E("E038", "unknown type")
    alg = inv.get("digestAlgorithm")
    if not isinstance(alg, str):
        E("E036", "digestAlgorithm missing")
        alg = None
    elif alg not in ("sha512", "sha256"):
        E("E025", "digestAlgorithm %r" % alg)
        alg = None
    cdir = inv.get("contentDirectory", "content")
    if "contentDirectory" in inv:
        if not isinstance(cdir, str) or cdir == "" or "/" in cdir:
            E("E017", "contentDirectory %r" % (cdir,))
            cdir = None
        elif cdir in (".", ".."):
            E("E018", "contentDirectory %r" % cdir)
            cdir = None
    manifest = inv.get("manifest")
    versions = inv.get("versions")
    if not isinstance(manifest, dict):
        E("E041", "manifest missing or not an object")
        manifest = None
    if not isinstance(versions, dict) or len(versions) == 0:
        E("E041" if not isinstance(versions, dict) else "E008", "versions missing, not an object or empty")
        versions = None
    head = inv.get("head")
    if not isinstance(head, str):
        E("E036", "head missing")
        head = None

    vnums = {}
    pad = None
    if versions is not None:
        widths = set()
        for k in versions:
            m = VERSION_RE.match(k)
            if not m or int(m.group(1)) == 0:
                E("E104", "bad version key %r" % k)
                ok = False
                continue
            n = int(m.group(1))
            digits = m.group(1)
            w = len(digits) if digits.startswith("0") else 0
            widths.add(w if w else -len(digits))
            if n in vnums:
                E("E012", "duplicate version number")
            vnums[n] = k
        padded = {w for w in widths if w > 0}
        unpadded = {w for w in widths if w < 0}
        if padded and unpadded:
            E("E012", "mixed zero padding")
        if len(padded) > 1:
            E("E012", "several padding widths")
        pad = next(iter(padded)) if len(padded) == 1 and not unpadded else 0
        if vnums:
            mx = max(vnums)
            if sorted(vnums) != list(range(1, mx + 1)):
                E("E010", "version numbers are not contiguous from 1")
            if head is not None:
                if head not in versions:
                    E("E040", "head %r is not a version" % head)
                elif vnums.get(mx) != head:
                    E("E040", "head %r is not the most recent version" % head)
    elif head is not None and not VERSION_RE.match(head):
        E("E040", "bad head")

    mdigests = {}
    mpaths = []
    if manifest is not None:
        if getattr(manifest, "dups", ()):
            E("E096", "digest listed twice in the manifest")      # 3.5.2 E096: each digest once
        for d, paths in manifest.items():
            if alg and (len(d) != DIGEST_LEN[alg] or not re.fullmatch(r"[0-9a-fA-F]+", d)):
                E("E096", "manifest digest %r is not a %s digest" % (d[:16], alg))
            if d.lower() in mdigests:
                E("E096", "digest listed twice (case-insensitively)")
            mdigests[d.lower()] = d
            if not isinstance(paths, list):
                E("E092", "manifest entry is not an array")      # 3.5.2 E092; an empty array breaks no MUST
                continue
            for p in paths:
                if _path_problems(p):
                    E("E100", "bad content path %r" % (p,))
                else:
                    mpaths.append(p)
        if len(set(mpaths)) != len(mpaths):
            E("E101", "content path listed twice")
        if _prefix_conflicts(mpaths):
            E("E101", "content path is a prefix of another")

    used = set()
    if versions is not None:
        for k, v in versions.items():
            if not isinstance(v, dict):
                E("E047", "version %s is not an object" % k)
                continue
            for kk in v:
                if kk not in ("created", "state", "message", "user"):
                    E("E102", "unknown version key %r" % kk)
            c = v.get("created")
            if not isinstance(c, str):
                E("E048", "created missing in %s" % k)
            elif not _valid_date(c):
                E("E049", "created %r is not RFC 3339 to the second with zone" % c)
            st = v.get("state")
            if not isinstance(st, dict):
                E("E048", "state missing in %s" % k)
            else:
                lpaths = []
                seen_d = set()
                for d, paths in st.items():
                    if d.lower() in seen_d:
                        E("E050", "state digest listed twice")
                    seen_d.add(d.lower())
                    if manifest is not None and mdigests.get(d.lower()) != d:
                        E("E050", "state digest not in manifest (digests must be spelled as in the manifest)")
                    used.add(d.lower())
                    if not isinstance(paths, list):
                        E("E051", "state entry is not an array")      # 3.5.3.1; an empty array breaks no MUST
                        continue
                    for p in paths:
                        if _path_problems(p):
                            E("E053", "bad logical path %r" % (p,))
                        else:
                            lpaths.append(p)
                if len(set(lpaths)) != len(lpaths):
                    E("E095", "logical path listed twice in %s" % k)
                if _prefix_conflicts(lpaths):
                    E("E095", "logical path is both file and directory in %s" % k)
            if "message" in v and not isinstance(v["message"], str):
                E("E094", "message is not a string")
            if "user" in v:
                u = v["user"]
                if not isinstance(u, dict):
                    E("E054", "user is not an object")
                else:
                    for uk in u:
                        if uk not in ("name", "address"):
                            E("E102", "unknown user key %r" % uk)      # 3.5 E102: no keys outside the specification
                    if not isinstance(u.get("name"), str):
                        E("E054", "user without name")
                    if "address" in u and not isinstance(u["address"], str):
                        E("E054", "user address is not a string")
    if manifest is not None and versions is not None:
        for dl in mdigests:
            if dl not in used:
                E("E107", "manifest digest not used by any version")

    fixity = inv.get("fixity")
    fix = {}
    if "fixity" in inv:
        if not isinstance(fixity, dict):
            E("E056", "fixity is not an object")
        else:
            for a, block in fixity.items():
                if not isinstance(block, dict):
                    E("E057", "fixity block is not an object")
                    continue
                seen = set()
                fpaths = []
                if getattr(block, "dups", ()):
                    E("E097", "fixity digest listed twice")      # 3.5.4 E097
                for d, paths in block.items():
                    if a in DIGEST_LEN and (len(d) != DIGEST_LEN[a] or not re.fullmatch(r"[0-9a-fA-F]+", d)):
                        E("E057", "fixity digest malformed")
                    if d.lower() in seen:
                        E("E097", "fixity digest listed twice")
                    seen.add(d.lower())
                    if not isinstance(paths, list):
                        E("E057", "fixity paths not a list")
                        continue
                    for p in paths:
                        if _path_problems(p):
                            E("E100", "bad fixity content path")
                        else:
                            fpaths.append(p)
                            if manifest is not None and p not in mpaths:
                                E("E057", "fixity path not in manifest")
                            fix.setdefault(p, []).append((a, d.lower()))
                if len(set(fpaths)) != len(fpaths):
                    E("E101", "fixity path listed twice")
    return {"head": head, "vnums": vnums, "pad": pad, "alg": alg, "cdir": cdir, "manifest": manifest,
            "versions": versions, "fixity": fix, "id": inv.get("id"), "type": t}


def _listdir(p):
    try:
        return sorted(os.listdir(p))
    except OSError:
        return []


def _kind(p):
    if os.path.islink(p):
        return "l"
    if os.path.isdir(p):
        return "d"
    if os.path.isfile(p):
        return "f"
    return "o"


def _digest(path, alg):
    h = hashlib.new(alg if alg in hashlib.algorithms_available else "sha512")
    with open(path, "rb") as f:
        for chunk in iter(lambda: f.read(1 << 20), b""):
            h.update(chunk)
    return h.hexdigest()


def _check_sidecar(dirpath, inv_bytes, alg, errs, where):
    sidecars = [n for n in _listdir(dirpath) if n.startswith("inventory.json.")]
    if not sidecars:
        errs.append(("E058", where + "no inventory sidecar"))
        return
    want = "inventory.json." + (alg or "")
    if alg and want not in sidecars:
        errs.append(("E058", where + "no sidecar for %s" % alg))
        return
    name = want if alg else sidecars[0]
    a = name[len("inventory.json."):]
    try:
        txt = open(os.path.join(dirpath, name), "rb").read().decode("utf-8", "replace")
    except OSError:
        errs.append(("E058", where + "sidecar unreadable"))
        return
    m = re.fullmatch(r"([0-9a-fA-F]+)[ \t]+inventory\.json[ \t\r\n]*", txt)
    if not m:
        errs.append(("E061", where + "sidecar malformed"))
        return
    if a in hashlib.algorithms_available:
        if hashlib.new(a, inv_bytes).hexdigest().lower() != m.group(1).lower():
            errs.append(("E060", where + "sidecar digest does not match the inventory"))


def validate_object(root, fixity=True):
    """returns list of (code, message); [] = valid"""
    errs = []
    E = lambda code, msg: errs.append((code, msg))
    if _kind(root) != "d":
        return [("E003", "object root is not a directory")]
    entries = _listdir(root)
    decls = [n for n in entries if n.startswith("0=")]
    spec = None
    if len(decls) != 1:
        E("E003", "need exactly one conformance declaration, found %d" % len(decls))
    else:
        m = re.fullmatch(r"0=ocfl_object_(1\.0|1\.1)", decls[0])
        if not m or _kind(os.path.join(root, decls[0])) != "f":
            E("E006" if m else "E003", "bad declaration name %r" % decls[0])
        else:
            spec = m.group(1)
            try:
                body = open(os.path.join(root, decls[0]), "rb").read()
            except OSError:
                body = b""
            if body != ("ocfl_object_%s\n" % spec).encode():
                E("E007", "declaration content mismatch")
    inv_path = os.path.join(root, "inventory.json")
    if _kind(inv_path) != "f":
        E("E063", "no root inventory.json")
        return errs
    inv_bytes = open(inv_path, "rb").read()
    inv, perr = parse_json(inv_bytes)
    if perr:
        E("E033", "root inventory: " + perr)
        return errs
    info = validate_inventory(inv, spec, errs, "root: ")
    _check_sidecar(root, inv_bytes, info["alg"] if info else None, errs, "root: ")
    if info is None:
        return errs
    vnums, cdir, alg = info["vnums"], info["cdir"], info["alg"]
    vdirs = set(vnums.values())
    for n in entries:
        p = os.path.join(root, n)
        k = _kind(p)
        if n in decls or n == "inventory.json" or n in (["inventory.json." + alg] if alg else ["inventory.json.sha512", "inventory.json.sha256"]):
            if k != "f":
                E("E090" if k == "l" else "E001", "%s is not a regular file" % n)
            continue
        if n in vdirs:
            if k != "d":
                E("E001", "version %s is not a directory" % n)
            continue
        if n in ("logs", "extensions") and k == "d":
            if n == "extensions":
                for x in _listdir(p):
                    if _kind(os.path.join(p, x)) != "d":
                        E("E067", "file in extensions directory")
            continue
        E("E001", "unexpected entry %r in object root" % n)
    for vn, vname in vnums.items():
        if _kind(os.path.join(root, vname)) != "d":
            E("E010", "version directory %s missing" % vname)

    found = {}
    spec_seq = []      # inventory types of v1, v2, ... (where an inventory is stored), then the root's
    mx = max(vnums) if vnums else 0
    for vn, vname in sorted(vnums.items()):
        vdir = os.path.join(root, vname)
        if _kind(vdir) != "d":
            continue
        cd = cdir or "content"
        # 3.3 E015: only an inventory and ITS digest sidecar (3.6: inventory.json.<digestAlgorithm>) may be files here
        valg = None
        try:
            v0 = json.loads(open(os.path.join(vdir, "inventory.json"), "rb").read().decode("utf-8"))
            valg = v0.get("digestAlgorithm") if isinstance(v0, dict) else None
        except (OSError, ValueError, RecursionError):
            pass
        vsides = ["inventory.json." + valg] if valg in ("sha512", "sha256") else ["inventory.json.sha512", "inventory.json.sha256"]
        for n in _listdir(vdir):
            p = os.path.join(vdir, n)
            k = _kind(p)
            if n == "inventory.json" or n in vsides:
                if k != "f":
                    E("E015", "%s/%s is not a regular file" % (vname, n))
                continue
            if n == cd and k == "d":
                continue
            if k == "d":
                continue          # W002: extra directory in a version directory is a warning
            E("E015", "unexpected file %s/%s" % (vname, n))
        cdp = os.path.join(vdir, cd)
        if _kind(cdp) == "d":
            for d, dirs, files in os.walk(cdp):
                if not dirs and not files and d != cdp:
                    # 3.3.1 E024: no empty directories WITHIN the content directory; an empty content directory itself is W003
                    E("E024", "empty directory below %s" % os.path.relpath(d, root))
                for nm in list(dirs):
                    if os.path.islink(os.path.join(d, nm)):
                        E("E090", "symlink in content")
                for f in files:
                    fp = os.path.join(d, f)
                    rel = os.path.relpath(fp, root).replace(os.sep, "/")
                    if _kind(fp) != "f":
                        E("E090", "non-regular file %s" % rel)
                    else:
                        found[rel] = vn
        vinv_path = os.path.join(vdir, "inventory.json")
        if _kind(vinv_path) == "f":
            vb = open(vinv_path, "rb").read()
            if vn == mx:
                if vb != inv_bytes:
                    E("E064", "head version inventory differs from the root inventory")
                _check_sidecar(vdir, vb, alg, errs, vname + ": ")
                if info["type"] in SPEC_TYPES.values():
                    spec_seq.append(info["type"])
            else:
                vinv, perr = parse_json(vb)
                if perr:
                    E("E033", "%s inventory: %s" % (vname, perr))
                    continue
                verrs = []
                vinfo = validate_inventory(vinv, None, verrs, vname + ": ")
                errs.extend(e for e in verrs)
                _check_sidecar(vdir, vb, vinfo["alg"] if vinfo else None, errs, vname + ": ")
                if vinfo is None:
                    continue
                if vinfo["id"] != info["id"]:
                    E("E037", "%s inventory has a different id" % vname)
                if (vinfo["cdir"] or "content") != (cdir or "content"):
                    E("E019", "%s inventory has a different contentDirectory" % vname)
                if vinfo["head"] != vname:
                    E("E040", "%s inventory head is %r" % (vname, vinfo["head"]))
                if vinfo["type"] in SPEC_TYPES.values():
                    spec_seq.append(vinfo["type"])
                # states of shared versions must agree as logical path -> content
                if vinfo["versions"] and info["versions"] and vinfo["manifest"] is not None and info["manifest"] is not None:
                    same_alg = vinfo["alg"] == alg
                    for k2, vv in vinfo["versions"].items():
                        rv = info["versions"].get(k2)
                        if rv is None:
                            E("E066", "%s inventory has version %s unknown to the root" % (vname, k2))
                            continue
                        if not (isinstance(vv, dict) and isinstance(rv, dict) and isinstance(vv.get("state"), dict) and isinstance(rv.get("state"), dict)):
                            continue
                        def lmap(st, man):
                            out = {}
                            inv_m = {d.lower(): sorted(x for x in ps if isinstance(x, str)) for d, ps in man.items() if isinstance(ps, list)}
                            for d, ps in st.items():
                                if isinstance(ps, list):
                                    for p in ps:
                                        if isinstance(p, str):
                                            out[p] = d.lower() if same_alg else tuple(inv_m.get(d.lower(), []))
                            return out
                        a1, a2 = lmap(vv["state"], vinfo["manifest"]), lmap(rv["state"], info["manifest"])
                        if same_alg:
                            if a1 != a2:
                                E("E066", "state of %s differs between the %s and root inventories" % (k2, vname))
                        else:
                            if set(a1) != set(a2):
                                E("E066", "state of %s differs between the %s and root inventories" % (k2, vname))
                            else:
                                for p in a1:
                                    if not (set(a1[p]) & set(a2[p])):
                                        E("E066", "content of %s in %s differs" % (p, k2))
                    # every content path of the old manifest must exist with the same digest now
                    if same_alg:
                        now = {p: d.lower() for d, ps in info["manifest"].items() if isinstance(ps, list) for p in ps if isinstance(p, str)}
                        for d, ps in vinfo["manifest"].items():
                            if isinstance(ps, list):
                                for p in ps:
                                    if isinstance(p, str) and now.get(p) != d.lower():
                                        E("E066", "%s manifest entry %s changed or vanished" % (vname, p))
                    elif fixity and vinfo["alg"]:
                        for d, ps in vinfo["manifest"].items():
                            if isinstance(ps, list):
                                for p in ps:
                                    fp = os.path.join(root, p) if isinstance(p, str) else None
                                    if fp and _kind(fp) == "f" and _digest(fp, vinfo["alg"]).lower() != d.lower():
                                        E("E092", "%s manifest digest of %s does not match the file" % (vname, p))
                    # files present in version directories <= vn must all be in the old manifest
                    oldpaths = {p for ps in vinfo["manifest"].values() if isinstance(ps, list) for p in ps if isinstance(p, str)}
                    for rel, fv in found.items():
                        if fv <= vn and rel not in oldpaths:
                            E("E023", "%s is not in the manifest of %s" % (rel, vname))
        # absent version inventory: W010 (warning only)
    # 3.7.1 E103: each version directory conforms to the same or a later specification version than the
    # PRECEDING one - the whole sequence v1 .. head, root must be non-decreasing (not only each against the root)
    if info["type"] in SPEC_TYPES.values():
        spec_seq.append(info["type"])
    if any(a > b_ for a, b_ in zip(spec_seq, spec_seq[1:])):
        E("E103", "a version directory conforms to an earlier specification version than its predecessor")

    if info["manifest"] is not None:
        mp = {}
        for d, ps in info["manifest"].items():
            if isinstance(ps, list):
                for p in ps:
                    if isinstance(p, str):
                        mp[p] = d.lower()
        for rel in found:
            if rel not in mp:
                E("E023", "content file %s is not in the manifest" % rel)
        for p, d in mp.items():
            full = os.path.join(root, p)
            if p not in found:
                E("E092", "manifest path %s does not exist as a content file" % p)
                continue
            m = re.match(r"^(v\d+)/([^/]+)/", p)
            if not m or m.group(1) not in vdirs or m.group(2) != (cdir or "content"):
                E("E092", "manifest path %s is not inside a version content directory" % p)
            if fixity and alg:
                if _digest(full, alg).lower() != d:
                    E("E092", "content file %s does not match its manifest digest" % p)
        if fixity:
            for p, lst in info["fixity"].items():
                full = os.path.join(root, p)
                if _kind(full) != "f":
                    continue
                for a, d in lst:
                    hn = {"blake2b-512": "blake2b"}.get(a, a)
                    if hn in hashlib.algorithms_available and _digest(full, hn).lower() != d:
                        E("E093", "fixity digest mismatch for %s" % p)
    return errs


def validate_storage_root(root, object_roots):
    """storage-root level rules; object_roots = absolute paths of the object roots found"""
    errs = []
    E = lambda code, msg: errs.append((code, msg))
    entries = _listdir(root)
    decls = [n for n in entries if n.startswith("0=")]
    if len(decls) != 1 or not re.fullmatch(r"0=ocfl_(1\.0|1\.1)", decls[0]):
        E("E069", "storage root declaration missing or ambiguous: %r" % decls)
    else:
        v = decls[0][len("0=ocfl_"):]
        try:
            body = open(os.path.join(root, decls[0]), "rb").read()
        except OSError:
            body = b""
        if body != ("ocfl_%s\n" % v).encode():
            E("E080", "storage root declaration content mismatch")
    lay = os.path.join(root, "ocfl_layout.json")
    if os.path.exists(lay):
        val, perr = parse_json(open(lay, "rb").read())
        if perr or not isinstance(val, dict) or not isinstance(val.get("extension"), str) or not isinstance(val.get("description"), str):
            E("E070", "ocfl_layout.json malformed")
    oroots = set(os.path.abspath(p) for p in object_roots)
    # no files and no empty directories in the hierarchy; no object inside another object
    for d, dirs, files in os.walk(root):
        ad = os.path.abspath(d)
        if ad == os.path.abspath(root):
            if "extensions" in dirs:
                dirs.remove("extensions")
            continue
        if ad in oroots:
            for sub_d, sub_dirs, sub_files in os.walk(d):
                if os.path.abspath(sub_d) != ad and any(f.startswith("0=ocfl_object_") for f in sub_files):
                    E("E001", "object nested inside object %s" % os.path.relpath(sub_d, root))
            dirs[:] = []
            continue
        if files:
            E("E072", "file in storage hierarchy: %s" % os.path.relpath(os.path.join(d, files[0]), root))
        if not dirs and not files:
            E("E073", "empty directory in storage hierarchy: %s" % os.path.relpath(d, root))
    return errs
