"""In-process S3 stand-in (DESIGN.md 3.6): the subset of the S3 REST API that rusoto_s3 uses
from rocfl's src/ocfl/store/s3.rs, served over TLS on https://localhost:<port> (rusoto is
built https_only here).  Path-style URLs /bucket/key, in-memory buckets, a request log, a
configurable listing page size and fault injection.  Python standard library + openssl CLI.

  stub = S3Stub(page_size=2).start()
  Session(env=stub.env())  ...  init_s3 {endpoint: stub.endpoint, bucket: 'b', ...}
  stub.dump('b')  stub.log  stub.fail_at(3, mode='500', scope='mut')  stub.stop()
"""
import http.server
import os
import re
import socket
import ssl
import subprocess
import threading
import urllib.parse
from xml.sax.saxutils import escape

from . import common

CA_DIR = os.path.join(common.BUILD, "s3ca")
_ca_lock = threading.Lock()


def ensure_ca():
    """throw-away CA (CA:TRUE) + leaf (CA:FALSE, SAN DNS:localhost) signed by it; returns (ca.pem, leaf.pem, leaf.key)"""
    ca, cak = os.path.join(CA_DIR, "ca.pem"), os.path.join(CA_DIR, "ca.key")
    leaf, leafk = os.path.join(CA_DIR, "leaf.pem"), os.path.join(CA_DIR, "leaf.key")
    with _ca_lock:
        if all(os.path.exists(p) and os.path.getsize(p) > 0 for p in (ca, leaf, leafk)):
            return ca, leaf, leafk
        os.makedirs(CA_DIR, exist_ok=True)
        tmp = os.path.join(CA_DIR, "tmp%d" % os.getpid())
        os.makedirs(tmp, exist_ok=True)
        t = lambda n: os.path.join(tmp, n)
        open(t("ca.cnf"), "w").write(
            "[req]\ndistinguished_name=dn\nx509_extensions=v3\nprompt=no\n[dn]\nCN=verif throwaway CA\n"
            "[v3]\nbasicConstraints=critical,CA:TRUE\nkeyUsage=critical,keyCertSign,cRLSign\nsubjectKeyIdentifier=hash\n")
        open(t("leaf.ext"), "w").write(
            "basicConstraints=critical,CA:FALSE\nkeyUsage=critical,digitalSignature,keyEncipherment\n"
            "extendedKeyUsage=serverAuth\nsubjectAltName=DNS:localhost\n")

        def ossl(*a):
            p = subprocess.run(["openssl"] + list(a), cwd=tmp, capture_output=True, text=True)
            if p.returncode != 0:
                raise common.BuildError("openssl %s failed: %s" % (a[0], p.stderr[-2000:]))
        ossl("req", "-x509", "-newkey", "rsa:2048", "-nodes", "-keyout", "ca.key", "-out", "ca.pem",
             "-days", "3650", "-config", "ca.cnf")
        ossl("req", "-newkey", "rsa:2048", "-nodes", "-keyout", "leaf.key", "-out", "leaf.csr", "-subj", "/CN=localhost")
        ossl("x509", "-req", "-in", "leaf.csr", "-CA", "ca.pem", "-CAkey", "ca.key", "-CAcreateserial",
             "-out", "leaf.pem", "-days", "3650", "-extfile", "leaf.ext")
        for n in ("ca.key", "ca.pem", "leaf.key", "leaf.pem"):      # leaf.pem last: it completes the set
            os.replace(t(n), os.path.join(CA_DIR, n))
        for n in os.listdir(tmp):
            os.remove(t(n))
        os.rmdir(tmp)
    return ca, leaf, leafk


MUTATING = ("PUT", "DELETE", "POST")


class S3Stub:
    def __init__(self, page_size=1000):
        self.page_size = max(1, int(page_size))   # a page size of 0 would never make progress
        self.buckets = {}          # bucket -> {key(str): bytes}
        self.uploads = {}          # upload id -> dict(bucket, key, parts{n: bytes})
        self.log = []              # dict(n, nmut, method, bucket, key, kind, status, query)
        self.lock = threading.RLock()
        self.n_all = 0
        self.n_mut = 0
        self.faults = []           # dict(kind: 'count'|'regex', ...)
        self.next_upload = 0
        self.httpd = None
        self.ca = None

    # ---- life cycle
    def start(self):
        self.ca, leaf, leafk = ensure_ca()
        stub = self

        class H(Handler):
            pass
        H.stub = stub
        self.httpd = http.server.ThreadingHTTPServer(("127.0.0.1", 0), H)
        self.httpd.daemon_threads = True
        c = ssl.SSLContext(ssl.PROTOCOL_TLS_SERVER)
        c.load_cert_chain(leaf, leafk)
        self.httpd.socket = c.wrap_socket(self.httpd.socket, server_side=True, do_handshake_on_connect=False)
        self.port = self.httpd.server_address[1]
        self.endpoint = "https://localhost:%d" % self.port
        self.thread = threading.Thread(target=self.httpd.serve_forever, kwargs={"poll_interval": 0.05}, daemon=True)
        self.thread.start()
        return self

    def stop(self):
        if self.httpd:
            self.httpd.shutdown()
            self.httpd.server_close()
            self.httpd = None

    def env(self, base=None):
        e = dict(base if base is not None else os.environ)
        e.update(SSL_CERT_FILE=self.ca, AWS_ACCESS_KEY_ID="x", AWS_SECRET_ACCESS_KEY="y")
        for k in ("HTTPS_PROXY", "https_proxy", "HTTP_PROXY", "http_proxy", "ALL_PROXY", "all_proxy"):
            e.pop(k, None)
        return e

    # ---- state access for the checks
    def dump(self, bucket):
        with self.lock:
            return dict(self.buckets.get(bucket, {}))

    def restore(self, bucket, d):
        with self.lock:
            self.buckets[bucket] = dict(d)

    def clear_log(self):
        with self.lock:
            self.log = []

    def take_log(self):
        with self.lock:
            l, self.log = self.log, []
            return l

    def pending_uploads(self):
        with self.lock:
            return [(u["bucket"], u["key"]) for u in self.uploads.values()]

    # ---- fault injection
    def fail_at(self, k, mode="500", scope="mut"):
        """fail request number k (0-based, counted from now over mutating ('mut') or all ('all') requests)
        once.  mode '500' answers HTTP 500 InternalError; 'drop' closes the connection without an answer;
        in both cases the failed request has no effect on the bucket.  mode 'lost' applies the request
        and then closes the connection (the answer is lost)."""
        with self.lock:
            base = self.n_mut if scope == "mut" else self.n_all
            self.faults.append({"kind": "count", "at": base + k, "scope": scope, "mode": mode})

    def fail_key(self, regex, mode="500", methods=MUTATING, kinds=None):
        """fail the next request whose key matches the regex (and method / kind filter) once"""
        with self.lock:
            self.faults.append({"kind": "regex", "re": re.compile(regex), "mode": mode, "methods": tuple(methods), "kinds": kinds})

    def clear_faults(self):
        with self.lock:
            self.faults = []

    def _fault_for(self, method, key, kind, n_all, n_mut, mutating):
        for f in list(self.faults):
            hit = False
            if f["kind"] == "count":
                if f["scope"] == "mut":
                    hit = mutating and n_mut == f["at"]
                else:
                    hit = n_all == f["at"]
            else:
                hit = method in f["methods"] and (f["kinds"] is None or kind in f["kinds"]) and f["re"].search(key) is not None
            if hit:
                self.faults.remove(f)
                return f["mode"]
        return None

    # ---- listing (ListObjectsV2): entries in UTF-8 byte order of keys, each common prefix once
    def list_entries(self, bucket, prefix, delimiter):
        keys = sorted(self.buckets.get(bucket, {}), key=lambda k: k.encode("utf-8"))
        out, seen = [], set()
        for k in keys:
            if not k.startswith(prefix):
                continue
            if delimiter:
                i = k.find(delimiter, len(prefix))
                if i >= 0:
                    cp = k[:i + len(delimiter)]
                    if cp not in seen:
                        seen.add(cp)
                        out.append(("p", cp))
                    continue
            out.append(("k", k))
        return out


def _xml(body):
    return ('<?xml version="1.0" encoding="UTF-8"?>\n' + body).encode("utf-8")


class Handler(http.server.BaseHTTPRequestHandler):
    protocol_version = "HTTP/1.1"
    disable_nagle_algorithm = True     # otherwise every answer waits ~40 ms for a delayed ACK
    wbufsize = -1                      # headers and body leave in one write (flushed by _send)
    stub = None

    def log_message(self, *a):
        pass

    def setup(self):
        self.request.settimeout(30)
        try:
            self.request.do_handshake()
        except (ssl.SSLError, OSError):
            pass
        super().setup()

    def _body(self):
        n = int(self.headers.get("Content-Length") or 0)
        te = (self.headers.get("Transfer-Encoding") or "").lower()
        if "chunked" in te:
            data = b""
            while True:
                line = self.rfile.readline().strip()
                size = int(line.split(b";")[0] or b"0", 16)
                if size == 0:
                    while self.rfile.readline().strip():
                        pass
                    break
                data += self.rfile.read(size)
                self.rfile.readline()
            return data
        return self.rfile.read(n) if n else b""

    def _send(self, status, body=b"", ctype="application/xml", headers=None):
        self.send_response(status)
        self.send_header("Content-Type", ctype)
        self.send_header("Content-Length", str(len(body)))
        for k, v in (headers or {}).items():
            self.send_header(k, v)
        self.end_headers()
        if self.command != "HEAD":
            self.wfile.write(body)
        self.wfile.flush()

    def _err(self, status, code, msg="stub"):
        self._send(status, _xml("<Error><Code>%s</Code><Message>%s</Message><RequestId>0</RequestId></Error>" % (code, msg)))

    def _handle(self):
        st = self.stub
        u = urllib.parse.urlsplit(self.path)
        path = urllib.parse.unquote(u.path, errors="surrogateescape")
        q = urllib.parse.parse_qs(u.query, keep_blank_values=True)
        parts = path.lstrip("/").split("/", 1)
        bucket = parts[0]
        key = parts[1] if len(parts) > 1 else ""
        m = self.command
        body = self._body() if m in ("PUT", "POST") else b""
        if m == "GET" and key == "" and "list-type" in q:
            kind = "list"
        elif m == "POST" and "uploads" in q:
            kind = "mp-create"
        elif m == "PUT" and "partNumber" in q:
            kind = "mp-part"
        elif m == "POST" and "uploadId" in q:
            kind = "mp-complete"
        elif m == "DELETE" and "uploadId" in q:
            kind = "mp-abort"
        else:
            kind = {"GET": "get", "HEAD": "head", "PUT": "put", "DELETE": "delete"}.get(m, "other")
        mutating = m in MUTATING
        with st.lock:
            n_all, n_mut = st.n_all, st.n_mut
            st.n_all += 1
            if mutating:
                st.n_mut += 1
            fault = st._fault_for(m, key, kind, n_all, n_mut, mutating)
            rec = {"n": n_all, "nmut": n_mut if mutating else None, "method": m, "bucket": bucket, "key": key,
                   "kind": kind, "len": len(body), "fault": fault,
                   "query": {k: v[0] for k, v in q.items() if k in ("prefix", "delimiter", "continuation-token", "partNumber", "max-keys")}}
            st.log.append(rec)
            if fault == "drop":
                rec["status"] = None
                self.close_connection = True
                try:
                    self.connection.shutdown(socket.SHUT_RDWR)
                except OSError:
                    pass
                return
            if fault == "500":
                rec["status"] = 500
                return self._err(500, "InternalError", "injected fault")
            if fault == "lost":
                # the request is applied but the answer never reaches the client
                self.wfile = open(os.devnull, "wb")
                rec["status"] = self._apply(st, kind, bucket, key, q, body, rec)
                self.close_connection = True
                try:
                    self.connection.shutdown(socket.SHUT_RDWR)
                except OSError:
                    pass
                return
            rec["status"] = self._apply(st, kind, bucket, key, q, body, rec)

    def _apply(self, st, kind, bucket, key, q, body, rec):
        bk = st.buckets.setdefault(bucket, {})
        if kind == "list":
            prefix = q.get("prefix", [""])[0]
            delim = q.get("delimiter", [""])[0]
            tok = q.get("continuation-token", [None])[0]
            ents = st.list_entries(bucket, prefix, delim)
            start = int(tok) if tok else 0
            page = ents[start:start + st.page_size]
            trunc = start + st.page_size < len(ents)
            x = ['<ListBucketResult xmlns="http://s3.amazonaws.com/doc/2006-03-01/">',
                 "<Name>%s</Name><Prefix>%s</Prefix><KeyCount>%d</KeyCount><MaxKeys>%d</MaxKeys>" % (
                     escape(bucket), escape(prefix), len(page), st.page_size)]
            if delim:
                x.append("<Delimiter>%s</Delimiter>" % escape(delim))
            x.append("<IsTruncated>%s</IsTruncated>" % ("true" if trunc else "false"))
            if tok:
                x.append("<ContinuationToken>%s</ContinuationToken>" % escape(tok))
            if trunc:
                x.append("<NextContinuationToken>%d</NextContinuationToken>" % (start + st.page_size))
            for t, v in page:
                if t == "k":
                    x.append("<Contents><Key>%s</Key><LastModified>2020-01-01T00:00:00.000Z</LastModified>"
                             "<ETag>&quot;0&quot;</ETag><Size>%d</Size><StorageClass>STANDARD</StorageClass></Contents>" % (escape(v), len(bk[v])))
            for t, v in page:
                if t == "p":
                    x.append("<CommonPrefixes><Prefix>%s</Prefix></CommonPrefixes>" % escape(v))
            x.append("</ListBucketResult>")
            rec["answer"] = {"keys": [v for t, v in page if t == "k"], "prefixes": [v for t, v in page if t == "p"], "truncated": trunc}
            self._send(200, _xml("".join(x)))
            return 200
        if kind in ("get", "head"):
            if key not in bk:
                self._err(404, "NoSuchKey", "The specified key does not exist.")
                return 404
            self._send(200, bk[key], ctype="application/octet-stream", headers={"ETag": '"0"'})
            return 200
        if kind == "put":
            bk[key] = body
            self._send(200, b"", headers={"ETag": '"0"'})
            return 200
        if kind == "delete":
            bk.pop(key, None)
            self._send(204, b"")
            return 204
        if kind == "mp-create":
            st.next_upload += 1
            uid = "up%d" % st.next_upload
            st.uploads[uid] = {"bucket": bucket, "key": key, "parts": {}}
            self._send(200, _xml("<InitiateMultipartUploadResult><Bucket>%s</Bucket><Key>%s</Key><UploadId>%s</UploadId>"
                                 "</InitiateMultipartUploadResult>" % (escape(bucket), escape(key), uid)))
            return 200
        uid = q.get("uploadId", [""])[0]
        up = st.uploads.get(uid)
        if kind == "mp-part":
            if up is None:
                self._err(404, "NoSuchUpload")
                return 404
            n = int(q["partNumber"][0])
            up["parts"][n] = body
            self._send(200, b"", headers={"ETag": '"part%d"' % n})
            return 200
        if kind == "mp-complete":
            if up is None:
                self._err(404, "NoSuchUpload")
                return 404
            nums = [int(x) for x in re.findall(rb"<PartNumber>(\d+)</PartNumber>", body)]
            if nums != sorted(nums) or any(n not in up["parts"] for n in nums) or not nums:
                self._err(400, "InvalidPart")
                return 400
            bk[up["key"]] = b"".join(up["parts"][n] for n in nums)
            rec["parts"] = [len(up["parts"][n]) for n in nums]
            del st.uploads[uid]
            self._send(200, _xml("<CompleteMultipartUploadResult><Bucket>%s</Bucket><Key>%s</Key><ETag>&quot;0&quot;</ETag>"
                                 "</CompleteMultipartUploadResult>" % (escape(bucket), escape(key))))
            return 200
        if kind == "mp-abort":
            st.uploads.pop(uid, None)
            self._send(204, b"")
            return 204
        self._err(400, "NotImplemented")
        return 400

    def do_GET(self):
        self._handle()

    do_HEAD = do_PUT = do_POST = do_DELETE = do_GET


# --------------------------------------------------------------------------- history runner on the stand-in

def norm_prefix(prefix):
    """the repository prefix as a directory name: no trailing slashes ('' for the bucket root; a
    leading slash stays).  This is what S3Client::new stores (s3.rs:793, Model/S3.v client_prefix);
    checks/c15.py has Coq confirm the agreement for every prefix it uses (CheckS3.stored_prefix_is)."""
    return (prefix or "").rstrip("/")


def make_s3_runner(ctx, cfg, name, stub, bucket, prefix, handle="A"):
    """a vplib.hist.Runner whose main repository is an S3 repository on the stand-in
    (staging is always a local directory for S3 repositories)"""
    import hashlib
    from . import hist

    class TimedSession(hist.Session):
        """a call that does not answer within the limit kills the harness process (answer: panic)"""
        limit = 300

        def call(self, cmd, **kw):
            t = threading.Timer(self.limit, self.p.kill)
            t.start()
            try:
                return super().call(cmd, **kw)
            finally:
                t.cancel()

    class S3Runner(hist.Runner):
        def __init__(self):
            self.stub, self.bucket, self.prefix = stub, bucket, prefix
            super().__init__(ctx, dict(cfg, ext_staging=True), name, session=TimedSession(env=stub.env()),
                             handle=handle, init=False)
            self.own_session = True
            self.root = None
            r = self.s.call("init_s3", h=handle, endpoint=stub.endpoint, bucket=bucket, prefix=prefix,
                            staging=self.stg, spec=cfg["repo_spec"], layout=hist.LAYOUTS[cfg["layout"]])
            if "ok" not in r:
                raise common.BuildError("cannot init S3 scratch repository: %r" % (r,))

        def open_cmd(self, h):
            return dict(cmd="open_s3", h=h, endpoint=stub.endpoint, bucket=bucket, prefix=prefix, staging=self.stg)

        def reopen(self):
            self.s.call("drop", h=self.h)
            r = self.s.call(self.open_cmd(self.h))
            if "ok" not in r:
                raise common.BuildError("cannot reopen S3 scratch repository: %r" % (r,))

        def rel_keys(self, with_bytes=False):
            """{path relative to the repository prefix: bytes} of the bucket"""
            p = norm_prefix(prefix)
            pl = p + "/" if p else ""
            return {k[len(pl):]: v for k, v in stub.dump(bucket).items() if k.startswith(pl)}

        def snap_main(self):
            out = {}
            for k, v in self.rel_keys().items():
                out[k] = ("f", len(v), hashlib.sha256(v).hexdigest(), hashlib.sha512(v).hexdigest())
            return out

        def object_roots(self):
            roots = set()
            for k in self.rel_keys():
                d, _, f = k.rpartition("/")
                if f.startswith("0=ocfl_object_"):
                    roots.add(d)
            return sorted(roots)

    return S3Runner()
